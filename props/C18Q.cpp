// C18 (second driver): the generic socket queues (nni_msgq behind NNG_OPT_RECVBUF / NNG_OPT_SENDBUF of raw
// sockets) and the identifiers the library issues, observed through the public API only.
//  world 0: cooked PUB -> raw SUB over inproc; the raw SUB's receive queue is filled, partly drained (ring
//           offset), resized up and down at any fill level; a deque model says what must come out.
//  world 1: raw REQ with nobody connected: sends queue up in the send queue under SENDBUF changes; then a raw
//           REP connects and must see the surviving requests in order.
//  world 2: sockets, contexts, dialers, listeners and pipes are opened and closed; every id must be positive,
//           31-bit, unique among everything issued in the case.
#include "pbt.hpp"
#include "nngh.h"
#include <deque>
#include <set>
#include <unistd.h>

namespace {

struct Model {
	std::deque<uint32_t> q;
	size_t               cap = 0;
	void
	arrive(uint32_t tag)
	{
		if (q.size() < cap)
			q.push_back(tag);
	}
	void
	resize(size_t ncap)
	{
		// nni_msgq_resize: "we delete the oldest messages first", keeping one more than the depth
		while (q.size() > ncap + 1)
			q.pop_front();
		cap = ncap;
	}
};

static nng_msg *
tagged(uint32_t tag, size_t extra, bool reqhdr)
{
	nng_msg *m = h_msg(tag, extra);
	if (reqhdr)
		nng_msg_header_append_u32(m, 0x80000000u | (tag & 0xffffff));
	return m;
}

static void
expect_head(nng_socket s, Model &M, const char *who)
{
	nng_msg *m  = nullptr;
	int      rv = nng_recvmsg(s, &m, NNG_FLAG_NONBLOCK);
	if (M.q.empty()) {
		if (rv == 0) {
			uint32_t t = 0;
			h_msg_tag(m, &t);
			nng_msg_free(m);
			vr_fail("C18:msgq-phantom", "%s: received message %08x from a queue the model says is empty", who, t);
		}
		return;
	}
	VR_CHECK(rv == 0, "C18:msgq-lost", "%s: the model holds %zu message(s) (head %08x) but receive returned %d", who, M.q.size(), M.q.front(), rv);
	uint32_t t  = 0;
	int      ok = h_msg_tag(m, &t);
	nng_msg_free(m);
	VR_CHECK(ok == 0, "C18:msgq-corrupt", "%s: message content corrupted (tag %08x)", who, t);
	VR_CHECK(t == M.q.front(), "C18:msgq-order", "%s: received %08x, the model's head is %08x (%zu queued, depth %zu)", who, t, M.q.front(), M.q.size(), M.cap);
	M.q.pop_front();
	vr_tag("received");
}

int
exec_c18q(const vcase *vc)
{
	h_cfg cfg;
	if (vc->nops < 2 || strcmp(vc->ops[0].name, "cfg") != 0 || strcmp(vc->ops[1].name, "world") != 0)
		return 0;
	h_cfg_from_op(&cfg, &vc->ops[0]);
	int world = (int) vop_arg(&vc->ops[1], 0, 0);
	if (world < 0 || world > 3)
		return 0;
	if (h_begin(&cfg) != 0)
		return 0;
	vr_tagf("world%d", world);
	uint32_t serial = 1;
	if (world == 0) {
		nng_socket pub, sub;
		H_OK(nng_pub0_open(&pub));
		H_OK(nng_sub0_open_raw(&sub));
		Model M;
		M.cap = (size_t) vop_arg(&vc->ops[1], 1, 4);
		if (M.cap > 40)
			M.cap = 40;
		H_OK(nng_socket_set_int(sub, NNG_OPT_RECVBUF, (int) M.cap));
		H_OK(nng_listen(sub, "inproc://c18q", NULL, 0));
		H_OK(nng_dial(pub, "inproc://c18q", NULL, 0));
		vs_settle();
		long gets = 0;
		for (int i = 2; i < vc->nops; i++) {
			const vop *o = &vc->ops[i];
			vr_at(i, o->name);
			if (strcmp(o->name, "put") == 0) {
				int n = (int) vop_arg(o, 0, 1);
				for (int k = 0; k < n && k < 50; k++) {
					uint32_t tag = 0x18000000u | serial++;
					nng_msg *m   = tagged(tag, (size_t) vop_arg(o, 1, 0), false);
					if (nng_sendmsg(pub, m, NNG_FLAG_NONBLOCK) != 0) {
						nng_msg_free(m);
						continue;
					}
					vs_settle(); // one at a time: arrival order is the send order
					M.arrive(tag);
				}
			} else if (strcmp(o->name, "get") == 0) {
				int n = (int) vop_arg(o, 0, 1);
				for (int k = 0; k < n && k < 50; k++) {
					expect_head(sub, M, "raw SUB");
					gets++;
				}
			} else if (strcmp(o->name, "resize") == 0) {
				size_t ncap = (size_t) vop_arg(o, 0, 1);
				if (ncap > 40)
					continue;
				if (!M.q.empty() && gets > 0)
					vr_tag("resize_nonempty_offset");
				if (ncap > M.cap && !M.q.empty())
					vr_tag("grow_nonempty");
				if (M.q.size() > ncap + 1)
					vr_tag("resize_drop");
				H_OK(nng_socket_set_int(sub, NNG_OPT_RECVBUF, (int) ncap));
				M.resize(ncap);
			}
		}
		while (!M.q.empty())
			expect_head(sub, M, "raw SUB (final drain)");
		expect_head(sub, M, "raw SUB (final drain)");
		nng_socket_close(pub);
		nng_socket_close(sub);
	} else if (world == 1) {
		nng_socket req, rep;
		H_OK(nng_req0_open_raw(&req));
		H_OK(nng_rep0_open_raw(&rep));
		Model M;
		M.cap = (size_t) vop_arg(&vc->ops[1], 1, 4);
		if (M.cap > 40)
			M.cap = 40;
		H_OK(nng_socket_set_int(req, NNG_OPT_SENDBUF, (int) M.cap));
		H_OK(nng_socket_set_int(rep, NNG_OPT_RECVBUF, 64));
		for (int i = 2; i < vc->nops; i++) {
			const vop *o = &vc->ops[i];
			vr_at(i, o->name);
			if (strcmp(o->name, "put") == 0) {
				int n = (int) vop_arg(o, 0, 1);
				for (int k = 0; k < n && k < 50; k++) {
					uint32_t tag = 0x18100000u | serial++;
					nng_msg *m   = tagged(tag, (size_t) vop_arg(o, 1, 0), true);
					int      rv  = nng_sendmsg(req, m, NNG_FLAG_NONBLOCK);
					bool     fits = M.q.size() < M.cap;
					if (rv != 0)
						nng_msg_free(m);
					VR_CHECK((rv == 0) == fits, "C18:msgq-bound", "raw REQ send queue depth %zu holding %zu: non-blocking send returned %d", M.cap, M.q.size(), rv);
					if (rv == 0)
						M.q.push_back(tag);
				}
			} else if (strcmp(o->name, "resize") == 0) {
				size_t ncap = (size_t) vop_arg(o, 0, 1);
				if (ncap > 40)
					continue;
				if (ncap > M.cap && !M.q.empty())
					vr_tag("grow_nonempty");
				if (M.q.size() > ncap + 1)
					vr_tag("resize_drop");
				H_OK(nng_socket_set_int(req, NNG_OPT_SENDBUF, (int) ncap));
				M.resize(ncap);
			}
		}
		// now a peer shows up: everything that survived arrives in order
		H_OK(nng_listen(rep, "inproc://c18q1", NULL, 0));
		H_OK(nng_dial(req, "inproc://c18q1", NULL, 0));
		for (int t = 0; t < 20; t++) {
			vs_sleep(1);
			vs_settle();
		}
		size_t expect = M.q.size();
		while (!M.q.empty())
			expect_head(rep, M, "raw REP behind the raw REQ send queue");
		expect_head(rep, M, "raw REP behind the raw REQ send queue");
		if (expect > 1)
			vr_tag("sendq_drained_in_order");
		nng_socket_close(req);
		nng_socket_close(rep);
	} else if (world == 3) {
		// round 7: the receive queue of a raw REQ (nni_msgq behind RECVBUF) whose WRITER is the pipe: replies from a raw REP
		// arrive under back-pressure, so with the queue full the pipe's put is parked on the queue (a waiting writer) while
		// the application reads, resizes and reads again.  Nothing may be lost (except by a shrinking resize: oldest first,
		// only what no longer fits), reordered, duplicated or corrupted.
		nng_socket req, rep;
		H_OK(nng_req0_open_raw(&req));
		H_OK(nng_rep0_open_raw(&rep));
		size_t cap = (size_t) vop_arg(&vc->ops[1], 1, 4);
		if (cap > 40)
			cap = 40;
		H_OK(nng_socket_set_int(req, NNG_OPT_RECVBUF, (int) cap));
		H_OK(nng_listen(rep, "inproc://c18q3", NULL, 0));
		H_OK(nng_dial(req, "inproc://c18q3", NULL, 0));
		vs_settle();
		nng_msg *tmpl = nullptr;
		{
			nng_msg *m = tagged(0x18300000u, 0, true);
			if (nng_sendmsg(req, m, NNG_FLAG_NONBLOCK) != 0)
				nng_msg_free(m);
			vs_settle();
			if (nng_recvmsg(rep, &tmpl, NNG_FLAG_NONBLOCK) != 0)
				tmpl = nullptr;
		}
		std::deque<uint32_t> sent; // not yet received (or lost)
		long                 allowed_loss = 0, lost = 0, nrecv = 0;
		bool                 parked_seen = false;
		auto take = [&](const char *who, bool must) -> bool {
			nng_msg *m  = nullptr;
			int      rv = nng_recvmsg(req, &m, NNG_FLAG_NONBLOCK);
			if (rv != 0 && must) {
				// replies may still be on their way through the pipe (it reads the next one only after its put completed):
				// emptiness is only judged at a quiescent point
				vs_settle();
				rv = nng_recvmsg(req, &m, NNG_FLAG_NONBLOCK);
			}
			if (rv != 0) {
				if (must)
					VR_CHECK((long) sent.size() <= allowed_loss - lost, "C18:msgq-lost", "%s: %zu replies are outstanding (%ld may have been dropped by shrinking resizes) but receive returned %d", who,
					    sent.size(), allowed_loss - lost, rv);
				return false;
			}
			uint32_t t  = 0;
			int      ok = h_msg_tag(m, &t);
			nng_msg_free(m);
			VR_CHECK(ok == 0, "C18:msgq-corrupt", "%s: message content corrupted (tag %08x)", who, t);
			// the message must be one that is outstanding; everything older than it was dropped by a resize
			size_t skipped = 0;
			while (!sent.empty() && sent.front() != t) {
				sent.pop_front();
				skipped++;
			}
			VR_CHECK(!sent.empty(), "C18:msgq-order", "%s: received %08x, which is not among the outstanding replies in send order (reordered or duplicated)", who, t);
			sent.pop_front();
			lost += (long) skipped;
			VR_CHECK(lost <= allowed_loss, "C18:msgq-order", "%s: %08x overtook %zu older replies (shrinking resizes account for at most %ld lost so far)", who, t, skipped, allowed_loss);
			nrecv++;
			return true;
		};
		for (int i = 2; tmpl != nullptr && i < vc->nops; i++) {
			const vop *o = &vc->ops[i];
			vr_at(i, o->name);
			if (strcmp(o->name, "put") == 0) {
				int n = (int) vop_arg(o, 0, 1);
				for (int k = 0; k < n && sent.size() < 45; k++) {
					uint32_t tag = 0x18300000u | serial++;
					nng_msg *m   = tagged(tag, (size_t) vop_arg(o, 1, 0), false);
					nng_msg_header_append(m, nng_msg_header(tmpl), nng_msg_header_len(tmpl));
					if (nng_sendmsg(rep, m, NNG_FLAG_NONBLOCK) != 0) {
						nng_msg_free(m);
						continue;
					}
					vs_settle();
					sent.push_back(tag);
				}
				if (sent.size() > cap + 1 && cap >= 2) {
					vr_tag("writer_parked_on_deep_queue");
					parked_seen = true;
				}
			} else if (strcmp(o->name, "get") == 0) {
				int n = (int) vop_arg(o, 0, 1);
				for (int k = 0; k < n && k < 50; k++)
					if (!take("raw REQ receive queue", true))
						break;
				vs_settle();
			} else if (strcmp(o->name, "resize") == 0) {
				size_t ncap = (size_t) vop_arg(o, 0, 1);
				if (ncap > 40)
					continue;
				// (an earlier shrink leaves depth + 1 messages in the queue, so that is the most it can hold)
				size_t outstanding = sent.size() - (size_t) 0;
				size_t held        = outstanding < cap + 1 ? outstanding : cap + 1;
				if (held > ncap + 1)
					allowed_loss += (long) (held - (ncap + 1));
				if (ncap > cap && sent.size() > cap)
					vr_tag("grow_with_parked_writer");
				H_OK(nng_socket_set_int(req, NNG_OPT_RECVBUF, (int) ncap));
				cap = ncap;
				vs_settle();
			}
		}
		for (int round = 0; round < 200 && !sent.empty(); round++) {
			if (!take("raw REQ receive queue (final drain)", true))
				break;
			vs_settle();
		}
		VR_CHECK(!take("raw REQ receive queue (after the drain)", false), "C18:msgq-phantom", "a message arrived after every reply was accounted for");
		if (parked_seen && nrecv > (long) 2)
			vr_tag("drained_past_parked_writer");
		if (tmpl != nullptr)
			nng_msg_free(tmpl);
		nng_socket_close(req);
		nng_socket_close(rep);
	} else {
		// ids
		std::set<int> seen[5]; // socket, ctx, dialer, listener, pipe
		const char   *kind[5] = {"socket", "context", "dialer", "listener", "pipe"};
		auto          note    = [&](int k, int id) {
            VR_CHECK(id > 0 && id <= 0x7fffffff, "C18:id-range", "%s id %d is outside 1..2^31-1", kind[k], id);
            VR_CHECK(seen[k].insert(id).second, "C18:id-reissued", "%s id %d was issued twice within one case (%zu ids issued)", kind[k], id, seen[k].size());
		};
		std::vector<nng_socket> socks;
		std::vector<nng_ctx>    ctxs;
		std::vector<std::string> urls;
		static int              serialurl = 0;
		struct PipeLog {
			std::vector<int> ids;
		} plog;
		auto pcb = [](nng_pipe p, nng_pipe_ev, void *arg) { ((PipeLog *) arg)->ids.push_back(nng_pipe_id(p)); };
		for (int i = 2; i < vc->nops; i++) {
			const vop *o = &vc->ops[i];
			vr_at(i, o->name);
			long a = vop_arg(o, 0, 0);
			if (strcmp(o->name, "open") == 0 && socks.size() < 40) {
				nng_socket s;
				int        rv = (a & 1) ? nng_rep0_open(&s) : nng_req0_open(&s);
				if (rv != 0)
					continue;
				note(0, nng_socket_id(s));
				nng_pipe_notify(s, NNG_PIPE_EV_ADD_PRE, pcb, &plog);
				socks.push_back(s);
			} else if (strcmp(o->name, "close") == 0 && !socks.empty()) {
				size_t k = (size_t) a % socks.size();
				nng_socket_close(socks[k]);
				socks.erase(socks.begin() + (long) k);
				ctxs.clear(); // (their handles may have died with the socket; only ids matter here)
			} else if (strcmp(o->name, "ctx") == 0 && !socks.empty()) {
				nng_ctx c;
				if (nng_ctx_open(&c, socks[(size_t) a % socks.size()]) == 0) {
					note(1, nng_ctx_id(c));
					ctxs.push_back(c);
				}
			} else if (strcmp(o->name, "ctxclose") == 0 && !ctxs.empty()) {
				size_t k = (size_t) a % ctxs.size();
				nng_ctx_close(ctxs[k]);
				ctxs.erase(ctxs.begin() + (long) k);
			} else if (strcmp(o->name, "listen") == 0 && !socks.empty()) {
				char u[64];
				snprintf(u, sizeof u, "inproc://c18q-id-%d-%d", (int) getpid(), ++serialurl);
				nng_listener l;
				if (nng_listen(socks[(size_t) a % socks.size()], u, &l, 0) == 0) {
					note(3, nng_listener_id(l));
					urls.push_back(u);
				}
			} else if (strcmp(o->name, "dial") == 0 && !socks.empty() && !urls.empty()) {
				nng_dialer d;
				if (nng_dial(socks[(size_t) a % socks.size()], urls[(size_t) vop_arg(o, 1, 0) % urls.size()].c_str(), &d, NNG_FLAG_NONBLOCK) == 0)
					note(2, nng_dialer_id(d));
				vs_settle();
			}
			for (int id : plog.ids)
				note(4, id);
			plog.ids.clear();
		}
		vs_settle();
		for (int id : plog.ids)
			note(4, id);
		if (seen[0].size() >= 6)
			vr_tag("many_sockets");
		if (seen[4].size() >= 2)
			vr_tag("pipes_seen");
		for (auto &s : socks)
			nng_socket_close(s);
	}
	h_end();
	return 0;
}

using namespace rc;

std::string
gen_c18q()
{
	std::ostringstream t;
	int mode = *pbt::welem<int>({{4, 0}, {2, 1}, {1, 2}});
	t << "cfg " << *pbt::range<int>(1, 1000000) << " " << mode << " 30 " << *pbt::range<int>(0, 2) << " 300 0\n";
	int world = *pbt::welem<int>({{4, 0}, {3, 1}, {2, 2}, {4, 3}});
	t << "world " << world << " " << *gen::element(0, 1, 2, 3, 4, 7, 8, 16) << "\n";
	auto ops = *gen::container<std::vector<std::string>>(gen::exec([world]() {
		std::ostringstream o;
		if (world == 2) {
			int k = *pbt::welem<int>({{5, 0}, {2, 1}, {3, 2}, {2, 3}, {2, 4}, {3, 5}});
			static const char *n[] = {"open", "close", "ctx", "ctxclose", "listen", "dial"};
			o << n[k] << " " << *pbt::range<int>(0, 20) << " " << *pbt::range<int>(0, 20);
		} else {
			int k = *pbt::welem<int>({{5, 0}, {3, 1}, {3, 2}});
			if (k == 0)
				o << "put " << *gen::element(1, 1, 2, 3, 5, 9, 17) << " " << *gen::element(0, 0, 40);
			else if (k == 1)
				o << "get " << *gen::element(1, 1, 2, 3, 7);
			else
				o << "resize " << *gen::element(0, 1, 2, 3, 4, 5, 7, 8, 9, 16, 17, 33);
		}
		return o.str();
	}));
	for (auto &l : ops)
		t << l << "\n";
	return t.str();
}

} // namespace

int
main(int argc, char **argv)
{
	pbt::PropSpec sp;
	sp.id   = "C18Q";
	sp.gen  = gen_c18q;
	sp.exec = exec_c18q;
	sp.rule = "world 0: cooked PUB -> raw SUB over inproc, histories of put n / get n / resize RECVBUF (0..33) on the raw SUB's nni_msgq at any fill level and ring "
	          "offset against a deque model (drop-new when full, resize drops oldest keeping depth+1); world 1: raw REQ with no peer, non-blocking sends "
	          "accepted iff the model has room, SENDBUF resized with requests queued, then a raw REP connects and must receive the survivors in order with "
	          "intact content; world 3 (round 7): raw REP -> raw REQ over inproc, replies arrive under back-pressure so that the pipe's put waits on the full RECVBUF queue while the application reads / resizes / reads (FIFO, nothing lost beyond what a shrinking resize may drop, nothing duplicated); world 2: sockets / contexts / dialers / listeners / pipes opened and closed, every id in 1..2^31-1 and never issued twice. "
	          "Non-trivial = a resize with queued messages after the ring advanced, a growing resize with queued messages, a dropping resize, an in-order "
	          "drain of the send queue, a drain past a writer parked on a queue of depth >= 2, or >= 6 sockets / >= 2 pipes in the id world; distinct by case hash";
	sp.nontrivial = [](const std::set<std::string> &t) {
		return t.count("resize_nonempty_offset") || t.count("grow_nonempty") || t.count("resize_drop") || t.count("sendq_drained_in_order") || t.count("many_sockets") ||
		    t.count("pipes_seen") || t.count("drained_past_parked_writer") || t.count("grow_with_parked_writer");
	};
	return pbt::pbt_main(argc, argv, sp);
}
