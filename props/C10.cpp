// C10: close always terminates, completes everything, invalidates handles.
// A socket of a generated protocol with a generated set of things pending on it (socket and context
// receives / sends, blocking calls in threads, dials in progress towards a stalling listener, pipes still
// negotiating with a silent raw peer, connected peers) is closed -- object by object or as a whole, once
// or twice, while other threads keep issuing new operations -- at generated virtual times under the
// deterministic scheduler.  Afterwards every operation must have completed exactly once, every close call
// and every blocking call must have returned, and every handle derived from the socket must be dead.
#include "pbt.hpp"
#include "nngh.h"
#include "rawpeer.h"
#include <deque>
#include <memory>
#include <unistd.h>

namespace {

struct Proto {
	const char *name;
	int (*open)(nng_socket *);
	int (*peer)(nng_socket *);
	bool ctx;
};
static const Proto kProtos[] = {
	{"pair0", nng_pair0_open, nng_pair0_open, false},
	{"pair1", nng_pair1_open, nng_pair1_open, false},
	{"pub", nng_pub0_open, nng_sub0_open, false},
	{"sub", nng_sub0_open, nng_pub0_open, true},
	{"push", nng_push0_open, nng_pull0_open, false},
	{"pull", nng_pull0_open, nng_push0_open, false},
	{"req", nng_req0_open, nng_rep0_open, true},
	{"rep", nng_rep0_open, nng_req0_open, true},
	{"surveyor", nng_surveyor0_open, nng_respondent0_open, true},
	{"respondent", nng_respondent0_open, nng_surveyor0_open, true},
	{"bus", nng_bus0_open, nng_bus0_open, false},
	// raw sockets: user sends / receives wait on the socket-level message queues (a raw send with no peer stays blocked)
	{"xreq", nng_req0_open_raw, nng_rep0_open, false},
	{"xrep", nng_rep0_open_raw, nng_req0_open, false},
	{"xsurveyor", nng_surveyor0_open_raw, nng_respondent0_open, false},
	{"xrespondent", nng_respondent0_open_raw, nng_surveyor0_open, false},
	{"xsub", nng_sub0_open_raw, nng_pub0_open, false},
	{"xbus", nng_bus0_open_raw, nng_bus0_open, false},
	{"xpair1", nng_pair1_open_raw, nng_pair1_open, false},
	{"xpush", nng_push0_open_raw, nng_pull0_open, false},
};
static const int kNProtos = (int) (sizeof kProtos / sizeof kProtos[0]);

struct Op {
	nng_aio    *aio = nullptr;
	int         callbacks = 0;
	int         rv = -1;
	bool        is_send = false, is_recv = false;
	const char *label = "";
	uint64_t    t_sub = 0, t_done = 0;
};

static void
op_cb(void *arg)
{
	Op *o = (Op *) arg;
	o->callbacks++;
	o->rv     = nng_aio_result(o->aio);
	o->t_done = vs_now();
	vr_trace("op %s done rv=%d at %llu", o->label, o->rv, (unsigned long long) vs_now());
	nng_msg *m = nng_aio_get_msg(o->aio);
	if (o->is_recv && o->rv == 0 && m != nullptr) {
		nng_msg_free(m);
		nng_aio_set_msg(o->aio, NULL);
	}
	if (o->is_send && o->rv != 0 && m != nullptr) {
		nng_msg_free(m);
		nng_aio_set_msg(o->aio, NULL);
	}
}

struct World;
struct Thread {
	World *W;
	int    what; // see thread_main
	int    at;
	int    target;
	bool   done = false;
	int    rv   = -1;
	uint64_t t0 = 0, t1 = 0;
};

struct World {
	const Proto            *P;
	nng_socket              s;
	nng_listener            lis;
	bool                    have_lis = false;
	std::string             url;
	std::vector<nng_socket> peers;
	std::vector<bool>       peer_open;
	std::vector<nng_ctx>    ctxs;
	std::vector<nng_dialer> dialers;
	std::vector<nng_listener> listeners;
	std::deque<Op>          ops;
	std::deque<rp>          raws;
	std::vector<int>        lfds;
	std::vector<std::string> paths;
	std::string             stall_url;
	nng_pipe                pipes[16];
	int                     npipes = 0;
	bool                    sock_closed = false; // a close of the socket has RETURNED
	bool                    sock_closing = false; // a close of the socket has been CALLED
	int                     slow_rem = 0;         // virtual ms spent in the REM_POST callback
	int                     slow_pre = 0;         // virtual ms spent in the ADD_PRE callback (the accept path is held meanwhile)
	std::vector<nng_ctx>    kept_ctxs;            // contexts opened by other threads and not closed by them
	int                     ctx_opened_during_close = 0;
	int                     nclose_ok = 0;
};

static Op *
new_op(World *W, const char *label, bool is_send, bool is_recv)
{
	W->ops.emplace_back();
	Op *o      = &W->ops.back();
	o->label   = label;
	o->is_send = is_send;
	o->is_recv = is_recv;
	if (nng_aio_alloc(&o->aio, op_cb, o) != 0) {
		vr_fail("harness:aio_alloc", "aio alloc failed");
	}
	o->t_sub = vs_now();
	return o;
}

static void
pipe_ev(nng_pipe p, nng_pipe_ev ev, void *arg)
{
	World *W = (World *) arg;
	if (ev == NNG_PIPE_EV_ADD_POST && W->npipes < 16)
		W->pipes[W->npipes++] = p;
	vr_trace("pipe ev %d at %llu", (int) ev, (unsigned long long) vs_now());
	if (ev == NNG_PIPE_EV_ADD_PRE && W->slow_pre > 0)
		vs_sleep(W->slow_pre); // while this runs the listener has no accept posted: further connections queue at the endpoint
	if (ev == NNG_PIPE_EV_REM_POST && W->slow_rem > 0)
		vs_sleep(W->slow_rem); // an application callback that takes its time: the socket close in progress has to wait for it
}

static bool
dead_code(int rv)
{
	return rv == NNG_ECLOSED || rv == NNG_ENOENT;
}

static void
thread_main(void *arg)
{
	Thread *T = (Thread *) arg;
	World  *W = T->W;
	if (T->at > 0)
		vs_sleep(T->at);
	T->t0 = vs_now();
	switch (T->what) {
	case 0: // close the socket
		W->sock_closing = true;
		T->rv           = nng_socket_close(W->s);
		if (T->rv == 0)
			W->nclose_ok++;
		W->sock_closed = true;
		break;
	case 1: // close a context
		if (!W->ctxs.empty())
			T->rv = nng_ctx_close(W->ctxs[T->target % W->ctxs.size()]);
		break;
	case 2: // close a dialer
		if (!W->dialers.empty())
			T->rv = nng_dialer_close(W->dialers[T->target % W->dialers.size()]);
		break;
	case 3: // close a listener
		if (!W->listeners.empty())
			T->rv = nng_listener_close(W->listeners[T->target % W->listeners.size()]);
		break;
	case 4: // close a pipe
		if (W->npipes > 0)
			T->rv = nng_pipe_close(W->pipes[T->target % W->npipes]);
		break;
	case 5: // a peer goes away
		if (!W->peers.empty()) {
			size_t i = T->target % W->peers.size();
			if (W->peer_open[i]) {
				W->peer_open[i] = false;
				nng_socket_close(W->peers[i]);
			}
		}
		break;
	case 6: { // blocking receive
		nng_msg *m = nullptr;
		T->rv      = nng_recvmsg(W->s, &m, 0);
		if (T->rv == 0)
			nng_msg_free(m);
		break;
	}
	case 7: { // blocking send
		nng_msg *m = h_msg(0x0a000007u, 8);
		T->rv      = nng_sendmsg(W->s, m, 0);
		if (T->rv != 0)
			nng_msg_free(m);
		break;
	}
	case 8: { // blocking dial towards the stalling listener
		nng_dialer d;
		T->rv = nng_dial(W->s, W->stall_url.c_str(), &d, 0);
		break;
	}
	case 10: { // another thread opens a context and keeps it (an application that is not done with the socket yet)
		nng_ctx c;
		T->rv = nng_ctx_open(&c, W->s);
		if (T->rv == 0) {
			W->kept_ctxs.push_back(c);
			if (W->sock_closing)
				W->ctx_opened_during_close++;
		}
		break;
	}
	case 9: { // a burst of new operations issued while others close: each must end, none may act on released state
		for (int k = 0; k < 3; k++) {
			nng_msg *m = nullptr;
			int      rv = nng_recvmsg(W->s, &m, NNG_FLAG_NONBLOCK);
			if (rv == 0)
				nng_msg_free(m);
			m  = h_msg(0x0a000009u, 4);
			rv = nng_sendmsg(W->s, m, NNG_FLAG_NONBLOCK);
			if (rv != 0)
				nng_msg_free(m);
			nng_ctx c;
			if (nng_ctx_open(&c, W->s) == 0)
				nng_ctx_close(c);
			int v;
			(void) nng_socket_get_int(W->s, NNG_OPT_RECVBUF, &v);
			nng_dialer d;
			if (nng_dialer_create(&d, W->s, W->url.c_str()) == 0)
				nng_dialer_close(d);
			vs_yield();
		}
		T->rv = 0;
		break;
	}
	}
	T->t1   = vs_now();
	T->done = true;
}

int
exec_c10(const vcase *vc)
{
	h_cfg cfg;
	if (vc->nops < 2 || strcmp(vc->ops[0].name, "cfg") != 0 || strcmp(vc->ops[1].name, "world") != 0)
		return 0;
	h_cfg_from_op(&cfg, &vc->ops[0]);
	cfg.task_threads = 3;
	const vop *wo    = &vc->ops[1];
	int        pi    = (int) vop_arg(wo, 0, 0);
	int        tr    = (int) vop_arg(wo, 1, 0);
	int        npeer = (int) vop_arg(wo, 2, 1);
	if (pi < 0 || pi >= kNProtos || tr < 0 || tr > 2 || npeer < 0 || npeer > 2)
		return 0;
	if (h_begin(&cfg) != 0)
		return 0;
	World W;
	W.P = &kProtos[pi];
	vr_tagf("proto_%s", W.P->name);
	vr_tagf("transport_%d", tr);
	char buf[128];
	int  tcp_port = 0;
	H_OK(W.P->open(&W.s));
	H_OK(nng_pipe_notify(W.s, NNG_PIPE_EV_ADD_POST, pipe_ev, &W));
	H_OK(nng_pipe_notify(W.s, NNG_PIPE_EV_REM_POST, pipe_ev, &W));
	W.slow_rem = (int) vop_arg(wo, 3, 0);
	if (W.slow_rem < 0 || W.slow_rem > 20)
		W.slow_rem = 0;
	if (W.slow_rem)
		vr_tag("slow_rem_post_callback");
	W.slow_pre = (int) vop_arg(wo, 4, 0);
	if (W.slow_pre < 0 || W.slow_pre > 20)
		W.slow_pre = 0;
	if (W.slow_pre) {
		H_OK(nng_pipe_notify(W.s, NNG_PIPE_EV_ADD_PRE, pipe_ev, &W));
		vr_tag("slow_add_pre_callback");
	}
	switch (tr) {
	case 0: snprintf(buf, sizeof buf, "inproc://c10-%d", (int) getpid()); break;
	case 1:
		snprintf(buf, sizeof buf, "ipc:///tmp/verif-c10-%d.sock", (int) getpid());
		break;
	default: snprintf(buf, sizeof buf, "tcp://127.0.0.1:0"); break;
	}
	W.url = buf;
	if (nng_listen(W.s, W.url.c_str(), &W.lis, 0) != 0) {
		// (address still in use from an earlier case: not the subject)
		nng_socket_close(W.s);
		h_end();
		return 0;
	}
	W.have_lis = true;
	if (tr == 2) {
		H_OK(nng_listener_get_int(W.lis, NNG_OPT_BOUND_PORT, &tcp_port));
		snprintf(buf, sizeof buf, "tcp://127.0.0.1:%d", tcp_port);
		W.url = buf;
	}
	W.listeners.push_back(W.lis);
	if (W.P->open == nng_sub0_open)
		nng_sub0_socket_subscribe(W.s, "", 0);
	for (int i = 0; i < npeer; i++) {
		nng_socket p;
		H_OK(W.P->peer(&p));
		if (W.P->peer == nng_sub0_open)
			nng_sub0_socket_subscribe(p, "", 0);
		if (nng_dial(p, W.url.c_str(), NULL, 0) != 0) {
			nng_socket_close(p);
			continue;
		}
		W.peers.push_back(p);
		W.peer_open.push_back(true);
	}
	vs_settle();
	// a stream listener that accepts connections in the kernel but never speaks SP: dials towards it stay "in progress"
	snprintf(buf, sizeof buf, "/tmp/verif-c10-stall-%d", (int) getpid());
	W.paths.push_back(buf);
	W.lfds.push_back(rp_listen_ipc(buf));
	W.stall_url = std::string("ipc://") + buf;

	std::deque<Thread> threads;
	int                latest = 0;
	bool               sock_close_planned = false;
	int                npending = 0;
	for (int i = 2; i < vc->nops; i++) {
		const vop *o = &vc->ops[i];
		if (strcmp(o->name, "pend") == 0) {
			int what = (int) vop_arg(o, 0, 0);
			if (W.ops.size() > 24)
				continue;
			switch (what) {
			case 0: { // socket receive
				Op *op = new_op(&W, "socket-recv", false, true);
				nng_socket_recv(W.s, op->aio);
				break;
			}
			case 1: { // socket send
				Op *op = new_op(&W, "socket-send", true, false);
				nng_aio_set_msg(op->aio, h_msg(0x0a000001u, 8));
				nng_socket_send(W.s, op->aio);
				break;
			}
			case 2:   // context receive
			case 3:   // context send
			case 4: { // context send and receive both outstanding
				if (!W.P->ctx || W.ctxs.size() >= 4)
					break;
				nng_ctx c;
				if (nng_ctx_open(&c, W.s) != 0)
					break;
				W.ctxs.push_back(c);
				if (what == 3 || what == 4) {
					Op *op = new_op(&W, "ctx-send", true, false);
					nng_aio_set_msg(op->aio, h_msg(0x0a000003u, 8));
					nng_ctx_send(c, op->aio);
				}
				if (what == 2 || what == 4) {
					Op *op = new_op(&W, "ctx-recv", false, true);
					nng_ctx_recv(c, op->aio);
				}
				break;
			}
			case 5: { // dial in progress (asynchronous, with a user aio)
				if (W.dialers.size() >= 3)
					break;
				nng_dialer d;
				if (nng_dialer_create(&d, W.s, W.stall_url.c_str()) != 0)
					break;
				W.dialers.push_back(d);
				Op *op = new_op(&W, "dial-aio", false, false);
				nng_dialer_start_aio(d, NNG_FLAG_NONBLOCK, op->aio);
				break;
			}
			case 6: { // background dial (no aio) towards the stalling listener or towards nobody
				if (W.dialers.size() >= 3)
					break;
				nng_dialer  d;
				const char *u = vop_arg(o, 1, 0) ? W.stall_url.c_str() : "ipc:///tmp/verif-c10-nobody";
				if (nng_dialer_create(&d, W.s, u) != 0)
					break;
				W.dialers.push_back(d);
				(void) nng_dialer_start(d, NNG_FLAG_NONBLOCK);
				break;
			}
			case 8: { // a peer's dial (with a user aio) in progress TOWARDS this socket's listener: one connection occupies the accept
				  // path (slow ADD_PRE callback), this one waits at the listener; closing the listener / socket must end it
				if (W.peers.size() >= 6)
					break;
				nng_socket p1, p2;
				if (W.P->peer(&p1) != 0)
					break;
				W.peers.push_back(p1);
				W.peer_open.push_back(true);
				(void) nng_dial(p1, W.url.c_str(), NULL, NNG_FLAG_NONBLOCK);
				if (vop_arg(o, 1, 0))
					vs_settle(); // the first connection is inside the callback (or done) by now
				if (W.P->peer(&p2) != 0)
					break;
				W.peers.push_back(p2);
				W.peer_open.push_back(true);
				nng_dialer d;
				if (nng_dialer_create(&d, p2, W.url.c_str()) != 0)
					break;
				Op *op = new_op(&W, "peer-dial-aio", false, false);
				nng_dialer_start_aio(d, NNG_FLAG_NONBLOCK, op->aio);
				vr_tag("peer_dial_pending");
				break;
			}
			case 7: { // a second listener with a raw peer that connects and then stays silent (pipe stuck negotiating)
				if (W.listeners.size() >= 3)
					break;
				snprintf(buf, sizeof buf, "/tmp/verif-c10-l%d-%d", (int) W.listeners.size(), (int) getpid());
				unlink(buf);
				nng_listener l;
				if (nng_listen(W.s, (std::string("ipc://") + buf).c_str(), &l, 0) != 0)
					break;
				W.paths.push_back(buf);
				W.listeners.push_back(l);
				W.raws.emplace_back();
				if (rp_connect_ipc(&W.raws.back(), buf) != 0)
					W.raws.pop_back();
				else if (vop_arg(o, 1, 0)) {
					uint8_t hello[8];
					rp_hello(hello, 0x10);
					rp_write(&W.raws.back(), hello, 3); // half a handshake
				}
				break;
			}
			}
			npending++;
		} else if (strcmp(o->name, "thr") == 0 && threads.size() < 8) {
			Thread T;
			T.W      = &W;
			T.what   = (int) vop_arg(o, 0, 0);
			T.at     = (int) vop_arg(o, 1, 0);
			T.target = (int) vop_arg(o, 2, 0);
			if (T.what < 0 || T.what > 10 || T.at < 0 || T.at > 100 || T.target < 0)
				continue;
			if (T.what == 0)
				sock_close_planned = true;
			threads.push_back(T);
			latest = std::max(latest, T.at);
		}
	}
	vs_settle();
	int nblocked_ops = 0;
	for (auto &o : W.ops)
		if (o.callbacks == 0)
			nblocked_ops++;
	if (nblocked_ops >= 2)
		vr_tag("several_pending");
	std::vector<int> handles;
	for (auto &T : threads)
		handles.push_back(vs_spawn(thread_main, &T));
	vs_sleep(latest + 5);
	vs_settle();
	// the socket is closed by now, or is closed now by the harness thread itself
	uint64_t tc0 = vs_now();
	int      crv = nng_socket_close(W.s);
	uint64_t tc1 = vs_now();
	if (crv == 0)
		W.nclose_ok++;
	VR_CHECK(crv == 0 || dead_code(crv), "C10:close-result", "nng_socket_close -> %d (%s)", crv, nng_strerror((nng_err) crv));
	VR_CHECK(tc1 - tc0 <= 2000, "C10:close-slow", "nng_socket_close took %llu virtual ms", (unsigned long long) (tc1 - tc0));
	W.sock_closed = true;
	vs_settle();
	// every thread comes back (a blocked one is a close that did not terminate everything)
	for (size_t i = 0; i < handles.size(); i++) {
		if (!threads[i].done) {
			vs_sleep(50);
			vs_settle();
		}
		if (!threads[i].done && getenv("VERIF_TRACE"))
			vs_dump("thread still blocked");
		VR_CHECK(threads[i].done, "C10:call-never-returned", "%s: thread op %d (at %d) still blocked %llu ms after nng_socket_close returned", W.P->name, threads[i].what,
		    threads[i].at, (unsigned long long) (vs_now() - tc1));
	}
	for (auto h : handles)
		vs_join(h);
	// (a close that overlaps another close of the same socket may also report success: sock_close documents that; only a
	// close issued after one has returned must fail, which the dead-handle section checks)
	VR_CHECK(W.nclose_ok >= 1, "C10:close-count", "no call of nng_socket_close reported success");
	for (auto &T : threads) {
		if (T.what <= 4 && T.rv != -1)
			VR_CHECK(T.rv == 0 || dead_code(T.rv), "C10:close-result", "close call kind %d -> %d (%s)", T.what, T.rv, nng_strerror((nng_err) T.rv));
		if (T.what <= 4)
			VR_CHECK(T.t1 - T.t0 <= 2000, "C10:close-slow", "close call kind %d took %llu virtual ms", T.what, (unsigned long long) (T.t1 - T.t0));
		if ((T.what == 6 || T.what == 7 || T.what == 8) && T.rv != 0)
			vr_tag("blocking_call_ended_by_close");
	}
	// every operation completed exactly once
	int by_close = 0;
	for (auto &o : W.ops) {
		VR_CHECK(o.callbacks >= 1, "C10:pending-forever", "%s: %s submitted at %llu is still pending after nng_socket_close returned", W.P->name, o.label,
		    (unsigned long long) o.t_sub);
		VR_CHECK(o.callbacks == 1, "C10:completed-twice", "%s: %s completed %d times", W.P->name, o.label, o.callbacks);
		if (o.rv == NNG_ECLOSED)
			by_close++;
	}
	if (by_close > 0)
		vr_tag("ops_completed_by_close");
	if (by_close >= 2)
		vr_tag("several_ops_completed_by_close");
	if (sock_close_planned)
		vr_tag("concurrent_socket_close");
	// dead handles
	{
		Op *op = new_op(&W, "post-close-socket-recv", false, true);
		nng_socket_recv(W.s, op->aio);
		nng_aio_wait(op->aio);
		VR_CHECK(dead_code(op->rv), "C10:live-handle", "nng_socket_recv on the closed socket -> %d", op->rv);
		nng_msg *m = h_msg(0x0a0000ffu, 0);
		int      rv = nng_sendmsg(W.s, m, NNG_FLAG_NONBLOCK);
		if (rv != 0)
			nng_msg_free(m);
		VR_CHECK(dead_code(rv), "C10:live-handle", "nng_sendmsg on the closed socket -> %d", rv);
		int v;
		rv = nng_socket_get_int(W.s, NNG_OPT_RECVBUF, &v);
		VR_CHECK(dead_code(rv), "C10:live-handle", "nng_socket_get_int on the closed socket -> %d", rv);
		rv = nng_socket_close(W.s);
		VR_CHECK(dead_code(rv), "C10:live-handle", "second nng_socket_close -> %d", rv);
		nng_ctx c;
		rv = nng_ctx_open(&c, W.s);
		VR_CHECK(dead_code(rv), "C10:live-handle", "nng_ctx_open on the closed socket -> %d", rv);
		nng_dialer d;
		rv = nng_dialer_create(&d, W.s, "inproc://c10-none");
		VR_CHECK(dead_code(rv), "C10:live-handle", "nng_dialer_create on the closed socket -> %d", rv);
		nng_listener l;
		rv = nng_listen(W.s, "inproc://c10-none2", &l, 0);
		VR_CHECK(dead_code(rv), "C10:live-handle", "nng_listen on the closed socket -> %d", rv);
		for (auto &cx : W.ctxs) {
			Op *o2 = new_op(&W, "post-close-ctx-recv", false, true);
			nng_ctx_recv(cx, o2->aio);
			nng_aio_wait(o2->aio);
			VR_CHECK(dead_code(o2->rv), "C10:live-handle", "nng_ctx_recv on a context of the closed socket -> %d", o2->rv);
			Op *o3 = new_op(&W, "post-close-ctx-send", true, false);
			nng_aio_set_msg(o3->aio, h_msg(0x0a0000feu, 0));
			nng_ctx_send(cx, o3->aio);
			nng_aio_wait(o3->aio);
			VR_CHECK(dead_code(o3->rv), "C10:live-handle", "nng_ctx_send on a context of the closed socket -> %d", o3->rv);
			nng_duration dur;
			rv = nng_ctx_get_ms(cx, NNG_OPT_RECVTIMEO, &dur);
			VR_CHECK(dead_code(rv), "C10:live-handle", "nng_ctx_get_ms on a context of the closed socket -> %d", rv);
			rv = nng_ctx_close(cx);
			VR_CHECK(dead_code(rv), "C10:live-handle", "nng_ctx_close on a context of the closed socket -> %d", rv);
			vr_tag("ctx_handles_checked");
		}
		for (auto &cx : W.kept_ctxs) {
			rv = nng_ctx_close(cx);
			VR_CHECK(dead_code(rv), "C10:live-handle", "nng_ctx_close on a context another thread had opened on the now closed socket -> %d", rv);
			vr_tag("kept_ctx_checked");
		}
		for (auto &dd : W.dialers) {
			nng_duration dur;
			rv = nng_dialer_get_ms(dd, NNG_OPT_RECONNMINT, &dur);
			VR_CHECK(dead_code(rv), "C10:live-handle", "nng_dialer_get_ms on a dialer of the closed socket -> %d", rv);
			rv = nng_dialer_start(dd, NNG_FLAG_NONBLOCK);
			VR_CHECK(dead_code(rv), "C10:live-handle", "nng_dialer_start on a dialer of the closed socket -> %d", rv);
			rv = nng_dialer_close(dd);
			VR_CHECK(dead_code(rv), "C10:live-handle", "nng_dialer_close on a dialer of the closed socket -> %d", rv);
			vr_tag("dialer_handles_checked");
		}
		for (auto &ll : W.listeners) {
			size_t sz;
			rv = nng_listener_get_size(ll, NNG_OPT_RECVMAXSZ, &sz);
			VR_CHECK(dead_code(rv), "C10:live-handle", "nng_listener_get_size on a listener of the closed socket -> %d", rv);
			rv = nng_listener_start(ll, 0);
			VR_CHECK(dead_code(rv), "C10:live-handle", "nng_listener_start on a listener of the closed socket -> %d", rv);
			rv = nng_listener_close(ll);
			VR_CHECK(dead_code(rv), "C10:live-handle", "nng_listener_close on a listener of the closed socket -> %d", rv);
		}
		for (int i = 0; i < W.npipes; i++) {
			size_t sz;
			rv = nng_pipe_get_size(W.pipes[i], NNG_OPT_RECVMAXSZ, &sz);
			VR_CHECK(dead_code(rv), "C10:live-handle", "nng_pipe_get_size on a pipe of the closed socket -> %d", rv);
			rv = nng_pipe_close(W.pipes[i]);
			VR_CHECK(dead_code(rv), "C10:live-handle", "nng_pipe_close on a pipe of the closed socket -> %d", rv);
			vr_tag("pipe_handles_checked");
		}
	}
	// teardown
	for (auto &o : W.ops)
		nng_aio_free(o.aio);
	for (size_t i = 0; i < W.peers.size(); i++)
		if (W.peer_open[i])
			nng_socket_close(W.peers[i]);
	for (auto &r : W.raws)
		rp_close(&r);
	for (int fd : W.lfds)
		if (fd >= 0)
			close(fd);
	for (auto &p : W.paths)
		unlink(p.c_str());
	if (tr == 1)
		unlink(W.url.c_str() + 6);
	h_end();
	return 0;
}

using namespace rc;

Gen<std::string>
genLine()
{
	return gen::exec([]() {
		std::ostringstream o;
		if (*pbt::welem<int>({{3, 0}, {2, 1}}) == 0) {
			o << "pend " << *pbt::welem<int>({{4, 0}, {3, 1}, {3, 2}, {2, 3}, {3, 4}, {3, 5}, {2, 6}, {2, 7}, {3, 8}}) << " " << *pbt::range<int>(0, 1);
		} else {
			int at = *gen::weightedOneOf<int>({{4, gen::element(0, 1, 2)}, {1, pbt::range<int>(0, 40)}});
			o << "thr " << *pbt::welem<int>({{5, 0}, {3, 1}, {3, 2}, {2, 3}, {3, 4}, {2, 5}, {3, 6}, {2, 7}, {2, 8}, {3, 9}, {3, 10}}) << " " << at << " " << *pbt::range<int>(0, 3);
		}
		return o.str();
	});
}

std::string
gen_c10()
{
	std::ostringstream t;
	int mode = *pbt::welem<int>({{2, 0}, {3, 1}, {3, 2}, {2, 3}});
	t << "cfg " << *pbt::range<int>(1, 1000000) << " " << mode << " " << (mode == 3 ? *gen::element(5, 20, 50) : *gen::element(10, 30, 60)) << " " << *pbt::range<int>(0, 3) << " " << (mode == 3 ? *gen::element(60, 150, 400) : 400) << " 0\n";
	t << "world " << *pbt::range<int>(0, kNProtos - 1) << " " << *pbt::welem<int>({{3, 0}, {2, 1}, {2, 2}}) << " " << *pbt::range<int>(0, 2) << " " << *pbt::welem<int>({{3, 0}, {1, 1}, {1, 5}}) << " " << *pbt::welem<int>({{3, 0}, {1, 2}, {1, 8}}) << "\n";
	auto lines = *gen::container<std::vector<std::string>>(genLine());
	for (auto &l : lines)
		t << l << "\n";
	return t.str();
}

} // namespace

int
main(int argc, char **argv)
{
	pbt::PropSpec sp;
	sp.id         = "C10";
	sp.gen        = gen_c10;
	sp.exec       = exec_c10;
	sp.watchdog_s = 60;
	sp.rule = "a socket of one of 11 protocols listening on inproc / ipc / tcp with 0-2 connected peers and a generated set of pending things (socket and "
	          "context receives and sends, a context with send and receive both outstanding, dials in progress towards a listener that never speaks SP, "
	          "background dials, a second listener with a raw peer stuck in negotiation), then up to 8 threads at generated virtual times: nng_socket_close "
	          "(possibly several), nng_ctx_close, nng_dialer_close, nng_listener_close, nng_pipe_close, a peer leaving, blocking receive / send / dial, and "
	          "bursts of new operations, under fifo / random / PCT schedules; the harness closes the socket at the end in any case. Oracle: every close and "
	          "blocking call returns (virtual-time bound, deadlock detection), every aio completed exactly once, "
	          "all socket / context / dialer / listener / pipe handles then fail with NNG_ECLOSED or NNG_ENOENT, no leak, ASan/UBSan clean. Non-trivial = at "
	          "least one operation was completed by the close (NNG_ECLOSED) or a blocking call was ended by it; distinct by case hash";
	sp.nontrivial = [](const std::set<std::string> &t) { return t.count("ops_completed_by_close") || t.count("blocking_call_ended_by_close"); };
	return pbt::pbt_main(argc, argv, sp);
}
