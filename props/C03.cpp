// C03: message ownership, memory safety and no leaks for any API usage.
// Programs over the public API are generated as a protocol scenario (template) plus arbitrary operations
// inserted at arbitrary points -- any option on any object, closes, cancels, extra sends and receives in
// blocking / non-blocking / aio form, pipe closes, statistics snapshots -- and run under the deterministic
// scheduler with the accounting allocator installed through nng_init_params.
#include "apiprog.hpp"

namespace {

int
exec_c03(const vcase *vc)
{
	h_cfg cfg;
	if (vc->nops < 1 || strcmp(vc->ops[0].name, "cfg") != 0)
		return 0;
	h_cfg_from_op(&cfg, &vc->ops[0]);
	cfg.task_threads = 3;
	if (h_begin(&cfg) != 0)
		return 0;
	api::Machine M;
	api::run(&M, vc, 1);
	if (M.own_fail)
		vr_fail("C03:message-ownership", "%s", M.own_msg);
	for (auto &A : M.aios)
		if (A.callbacks != A.submissions)
			vr_fail("C03:aio-callbacks", "an aio saw %d submissions but %d callbacks", A.submissions, A.callbacks);
	if (M.n_failed_sends)
		vr_tag("failed_send");
	if (M.n_recv_ok)
		vr_tag("received");
	if (M.n_setopt_ok)
		vr_tag("option_set");
	if (M.n_recv_ok && M.n_setopt_ok)
		vr_tag("option_set_in_exchange");
	h_end(); // balance at nng_fini, sized frees
	return 0;
}

std::string
gen_c03()
{
	using namespace rc;
	std::ostringstream t;
	int mode = *pbt::welem<int>({{3, 0}, {3, 1}, {2, 2}, {2, 3}});
	t << "cfg " << *pbt::range<int>(1, 1000000) << " " << mode << " " << (mode == 3 ? *gen::element(5, 20, 50) : *gen::element(10, 30, 60)) << " " << *pbt::range<int>(0, 3) << " " << (mode == 3 ? *gen::element(60, 150, 400) : 400) << " 0\n";
	t << api::gen_program();
	return t.str();
}

} // namespace

int
main(int argc, char **argv)
{
	pbt::PropSpec sp;
	sp.id         = "C03";
	sp.gen        = gen_c03;
	sp.exec       = exec_c03;
	sp.watchdog_s = 60;
	sp.rule = "API programs = one of 15 protocol scenarios (req/rep, req and rep contexts, survey with two respondents, surveyor / req context abandoned "
	          "before the answer, pub with two subs, pipeline, pair1, bus of three, req/rep through a raw device, 11 sockets, sub context, aio forms) over "
	          "inproc / ipc / tcp / ws, with generated operations inserted anywhere: any of 18 options with boundary values on socket / context / dialer / listener "
	          "(also through the wrong accessor), socket / context / endpoint / pipe close (also twice), cancel / abort, extra sends and receives (blocking, "
	          "non-blocking, aio; 0..70000 bytes), contexts, subscriptions, statistics snapshots; fifo / random / PCT schedules. Oracle: ASan/UBSan clean; "
	          "a failed send leaves the message a live block owned by the caller, a successful receive yields a live block; callbacks == submissions; "
	          "after nng_fini every block is returned to the allocator with the size it was allocated with. Non-trivial = at least one message was "
	          "received and at least one option was set successfully, or a send failed; distinct by case hash";
	sp.nontrivial = [](const std::set<std::string> &t) { return t.count("option_set_in_exchange") || t.count("failed_send"); };
	return pbt::pbt_main(argc, argv, sp);
}
