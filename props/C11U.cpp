// C11 (third driver): hostile or broken peers over udp://.
// nng's SP/UDP mapping uses 8-byte little-endian headers {version 1, opcode, SP type, param0, param1}:
// CREQ/CACK (param0 = receive maximum, param1 = refresh seconds), DATA (param0 = payload length), DISC.
// Raw UDP sockets (one per simulated peer = one source port) send generated datagram sequences - valid
// connection requests, data with consistent / short / oversized length fields, wrong protocol types, bad
// versions, unknown opcodes, truncated headers, garbage, disconnects - to an nng listener of a header-less
// protocol.  A reference model says what may be delivered; a well-behaved peer on another port must keep
// working, and nothing above RECVMAXSZ may ever be delivered.
#include "pbt.hpp"
#include "nngh.h"
#include <arpa/inet.h>
#include <deque>
#include <fcntl.h>
#include <netinet/in.h>
#include <sys/socket.h>
#include <unistd.h>

namespace {

using Bytes = std::vector<uint8_t>;

struct Proto {
	const char *name;
	int (*open)(nng_socket *);
	uint16_t self, peer;
};
static const Proto kProtos[] = {
	{"pull", nng_pull0_open, 0x51, 0x50},
	{"pair0", nng_pair0_open, 0x10, 0x10},
	{"sub", nng_sub0_open, 0x21, 0x20},
	{"bus", nng_bus0_open, 0x70, 0x70},
};

enum { OP_DATA = 0, OP_CREQ = 1, OP_CACK = 2, OP_DISC = 3, OP_MESH = 4 };

struct Peer {
	int               fd = -1;
	bool              connected = false; // the model: a valid CREQ was accepted and no DISC / violation since
	std::deque<Bytes> due;               // payloads the application must still receive from this peer
	Bytes             rx;                // last datagram received from nng
	long              cacks = 0, discs = 0;
};

struct World {
	const Proto *P;
	nng_socket   s;
	int          port = 0;
	size_t       recvmax = 65000;
	Peer         peer[3]; // 0,1 hostile; 2 well-behaved
	std::deque<Bytes> due_any; // pair0 accepts one peer only: order across peers is not modelled, content is
};

static Bytes
mk(uint8_t ver, uint8_t op, uint16_t type, uint16_t p0, uint16_t p1, const Bytes &payload)
{
	Bytes b = {ver, op, (uint8_t) type, (uint8_t) (type >> 8), (uint8_t) p0, (uint8_t) (p0 >> 8), (uint8_t) p1, (uint8_t) (p1 >> 8)};
	b.insert(b.end(), payload.begin(), payload.end());
	return b;
}

static void
send_to(World &W, Peer &p, const Bytes &b)
{
	struct sockaddr_in sa;
	memset(&sa, 0, sizeof sa);
	sa.sin_family      = AF_INET;
	sa.sin_port        = htons((uint16_t) W.port);
	sa.sin_addr.s_addr = htonl(INADDR_LOOPBACK);
	(void) sendto(p.fd, b.data(), b.size(), 0, (struct sockaddr *) &sa, sizeof sa);
	vs_settle();
}

static void
pump(Peer &p)
{
	uint8_t buf[70000];
	for (;;) {
		ssize_t n = recv(p.fd, buf, sizeof buf, MSG_DONTWAIT);
		if (n <= 0)
			break;
		p.rx.assign(buf, buf + n);
		if (n >= 8 && buf[0] == 1) {
			if (buf[1] == OP_CACK)
				p.cacks++;
			if (buf[1] == OP_DISC)
				p.discs++;
		}
	}
}

static Bytes
pattern(size_t n, uint32_t seed)
{
	Bytes b(n);
	for (size_t i = 0; i < n; i++)
		b[i] = (uint8_t) ((seed * 2654435761u + i * 40503u) >> 7);
	return b;
}

static void
drain_app(World &W)
{
	for (;;) {
		nng_msg *m = nullptr;
		if (nng_recvmsg(W.s, &m, NNG_FLAG_NONBLOCK) != 0)
			break;
		Bytes got((uint8_t *) nng_msg_body(m), (uint8_t *) nng_msg_body(m) + nng_msg_len(m));
		nng_msg_free(m);
		VR_CHECK(got.size() <= W.recvmax, "C11:recvmax-bypassed", "%s over udp: the application received %zu bytes with a receive maximum of %zu", W.P->name, got.size(), W.recvmax);
		bool found = false;
		for (auto &p : W.peer)
			if (!p.due.empty() && p.due.front() == got) {
				p.due.pop_front();
				found = true;
				break;
			}
		VR_CHECK(found, "C11:undeliverable-delivered", "%s over udp: the application received a %zu-byte message that the reference model does not deliver", W.P->name, got.size());
		vr_tag("delivered");
	}
}

int
exec_c11u(const vcase *vc)
{
	h_cfg cfg;
	if (vc->nops < 2 || strcmp(vc->ops[0].name, "cfg") != 0 || strcmp(vc->ops[1].name, "world") != 0)
		return 0;
	h_cfg_from_op(&cfg, &vc->ops[0]);
	cfg.task_threads = 3;
	World W;
	int   pi = (int) vop_arg(&vc->ops[1], 0, 0);
	if (pi < 0 || pi > 3)
		return 0;
	W.P       = &kProtos[pi];
	long rmax = vop_arg(&vc->ops[1], 1, 0);
	if (h_begin(&cfg) != 0)
		return 0;
	vr_tagf("proto_%s", W.P->name);
	H_OK(W.P->open(&W.s));
	if (W.P->open == nng_sub0_open)
		nng_sub0_socket_subscribe(W.s, "", 0);
	if (rmax > 0) {
		H_OK(nng_socket_set_size(W.s, NNG_OPT_RECVMAXSZ, (size_t) rmax));
		W.recvmax = (size_t) rmax > 65000 ? 65000 : (size_t) rmax;
	}
	nng_listener l;
	H_OK(nng_listener_create(&l, W.s, "udp://127.0.0.1:0"));
	H_OK(nng_listener_start(l, 0));
	H_OK(nng_listener_get_int(l, NNG_OPT_BOUND_PORT, &W.port));
	for (auto &p : W.peer) {
		p.fd = socket(AF_INET, SOCK_DGRAM, 0);
		struct sockaddr_in sa;
		memset(&sa, 0, sizeof sa);
		sa.sin_family      = AF_INET;
		sa.sin_addr.s_addr = htonl(INADDR_LOOPBACK);
		if (p.fd < 0 || bind(p.fd, (struct sockaddr *) &sa, sizeof sa) != 0) {
			for (auto &q : W.peer)
				if (q.fd >= 0)
					close(q.fd);
			nng_socket_close(W.s);
			h_end();
			return 0;
		}
	}
	vs_settle();
	uint32_t serial = 1;
	int      waited = 0;
	bool     pair_taken = false; // PAIR0 serves one peer at a time; later ones are refused by the protocol
	for (int i = 2; i < vc->nops; i++) {
		const vop  *o = &vc->ops[i];
		const char *n = o->name;
		vr_at(i, n);
		int   pk = (int) vop_arg(o, 0, 0) & 1;
		Peer &p  = W.peer[pk];
		if (strcmp(n, "creq") == 0) {
			int      var  = (int) vop_arg(o, 1, 0); // 0 valid, 1 wrong SP type, 2 refresh 0, 3 bad version
			uint16_t type = var == 1 ? (uint16_t) (W.P->peer ^ 0x0101) : W.P->peer;
			send_to(W, p, mk(var == 3 ? 2 : 1, OP_CREQ, type, 65000, var == 2 ? 0 : 5, {}));
			pump(p);
			if (var == 0 && !p.connected) {
				if (W.P->open == nng_pair0_open && pair_taken) {
					// the protocol refuses a second peer: whether it stays "connected" at transport level is not judged
				} else {
					VR_CHECK(p.cacks > 0, "C11:udp-no-cack", "%s over udp: a valid connection request got no CACK", W.P->name);
					p.connected = true;
					if (W.P->open == nng_pair0_open)
						pair_taken = true;
					vr_tag("udp_connected");
				}
			} else if (var == 1 && p.connected) {
				p.connected = false; // DISC_TYPE closes the pipe
				if (W.P->open == nng_pair0_open)
					pair_taken = false;
			} else if (var == 2 && p.connected) {
				p.connected = false; // DISC_NEGO
				if (W.P->open == nng_pair0_open)
					pair_taken = false;
			}
			if (var != 0)
				vr_tag("bad_creq");
		} else if (strcmp(n, "data") == 0) {
			size_t size = (size_t) vop_arg(o, 1, 10);
			int    var  = (int) vop_arg(o, 2, 0); // 0 consistent, 1 length field short of the datagram, 2 length field beyond the datagram, 3 above the receive maximum
			if (size > 64000)
				size = 64000;
			Bytes    body = pattern(size, serial++);
			uint16_t lenf = (uint16_t) size;
			if (var == 1 && size > 0)
				lenf = (uint16_t) (size / 2);
			if (var == 2)
				lenf = (uint16_t) (size + 1 + serial % 7);
			if (var == 3) {
				if (W.recvmax >= 64000)
					continue;
				body = pattern(W.recvmax + 1 + serial % 50, serial);
				lenf = (uint16_t) body.size();
			}
			send_to(W, p, mk(1, OP_DATA, W.P->peer, lenf, 0, body));
			if (p.connected && !(W.P->open == nng_pair0_open && !pair_taken)) {
				if (var == 2 || var == 3 || (size_t) lenf > W.recvmax) {
					p.connected = false; // DISC_MSGSIZE
					if (W.P->open == nng_pair0_open)
						pair_taken = false;
					vr_tag("oversize_or_truncated");
				} else
					p.due.push_back(Bytes(body.begin(), body.begin() + lenf)); // exactly the announced length, never the smuggled tail
				if (var == 1)
					vr_tag("length_shorter_than_datagram");
			}
			drain_app(W);
			pump(p);
		} else if (strcmp(n, "junk") == 0) {
			int var = (int) vop_arg(o, 1, 0);
			switch (var) {
			case 0: send_to(W, p, Bytes{1, OP_DATA, 0x50}); break;                        // truncated header
			case 1: send_to(W, p, mk(1, 9, W.P->peer, 0, 0, {})); break;                   // unknown opcode
			case 2: send_to(W, p, mk(1, OP_MESH, W.P->peer, 0, 0, pattern(20, 3))); break; // unimplemented opcode
			case 3: send_to(W, p, mk(7, OP_DATA, W.P->peer, 4, 0, pattern(4, 4))); break;  // bad version
			case 4: { // garbage that cannot be mistaken for a version-1 header
				Bytes g = pattern(1 + (size_t) vop_arg(o, 2, 30) % 2000, serial++);
				g[0]    = 0xEE;
				send_to(W, p, g);
				break;
			}
			case 5: send_to(W, p, mk(1, OP_CACK, W.P->peer, 100, 5, {})); break;           // CACK nobody asked for
			default: send_to(W, p, Bytes{}); break;                                         // empty datagram
			}
			vr_tag("junk");
			drain_app(W);
			pump(p);
		} else if (strcmp(n, "disc") == 0) {
			send_to(W, p, mk(1, OP_DISC, W.P->peer, 0, 0, {}));
			if (p.connected && W.P->open == nng_pair0_open)
				pair_taken = false;
			p.connected = false;
		} else if (strcmp(n, "wait") == 0) {
			int ms = (int) vop_arg(o, 1, 1);
			ms     = ms < 1 ? 1 : ms > 2000 ? 2000 : ms;
			// (peers that stay silent for 5 refresh periods = 25 s are expired by design: stay well below)
			if (waited + ms > 8000)
				continue;
			waited += ms;
			vs_sleep(ms);
			vs_settle();
		}
		drain_app(W);
	}
	// hostile peers whose state the model lost track of (garbage) are not judged further; everything due must have arrived
	for (int k = 0; k < 2; k++)
		VR_CHECK(W.peer[k].due.empty(), "C11:udp-message-lost", "%s over udp: %zu valid message(s) from a connected peer never reached the application", W.P->name,
		    W.peer[k].due.size());
	// a well-behaved peer still gets service (PAIR0: only if nobody holds the pair)
	if (!(W.P->open == nng_pair0_open && pair_taken)) {
		Peer &g = W.peer[2];
		send_to(W, g, mk(1, OP_CREQ, W.P->peer, 65000, 5, {}));
		for (int t = 0; t < 50 && g.cacks == 0; t++) {
			vs_sleep(1);
			vs_settle();
			pump(g);
		}
		VR_CHECK(g.cacks > 0, "C11:listener-dead", "%s over udp: after the hostile datagrams a well-behaved peer gets no CACK", W.P->name);
		Bytes body = pattern(33, 777);
		send_to(W, g, mk(1, OP_DATA, W.P->peer, (uint16_t) body.size(), 0, body));
		g.due.push_back(body);
		for (int t = 0; t < 50 && !g.due.empty(); t++) {
			vs_sleep(1);
			vs_settle();
			drain_app(W);
		}
		VR_CHECK(g.due.empty(), "C11:good-connection-starved", "%s over udp: a well-behaved peer's message was not delivered after the hostile datagrams", W.P->name);
		vr_tag("good_connection_served");
	}
	nng_socket_close(W.s);
	for (auto &p : W.peer)
		if (p.fd >= 0)
			close(p.fd);
	h_end();
	return 0;
}

using namespace rc;

std::string
gen_c11u()
{
	std::ostringstream t;
	int mode = *pbt::welem<int>({{4, 0}, {2, 1}, {1, 2}});
	t << "cfg " << *pbt::range<int>(1, 1000000) << " " << mode << " 30 " << *pbt::range<int>(0, 2) << " 400 0\n";
	t << "world " << *pbt::range<int>(0, 3) << " " << *gen::element(0, 0, 64, 1024, 70000) << "\n";
	auto ops = *gen::container<std::vector<std::string>>(gen::exec([]() {
		std::ostringstream o;
		int k = *pbt::welem<int>({{4, 0}, {8, 1}, {4, 2}, {1, 3}, {1, 4}});
		int peer = *pbt::welem<int>({{3, 0}, {1, 1}});
		switch (k) {
		case 0: o << "creq " << peer << " " << *pbt::welem<int>({{6, 0}, {1, 1}, {1, 2}, {1, 3}}); break;
		case 1: o << "data " << peer << " " << *gen::element(0, 1, 10, 63, 64, 65, 1023, 1024, 1025, 5000, 64000) << " " << *pbt::welem<int>({{6, 0}, {2, 1}, {2, 2}, {2, 3}}); break;
		case 2: o << "junk " << peer << " " << *pbt::range<int>(0, 6) << " " << *pbt::range<int>(0, 3000); break;
		case 3: o << "disc " << peer; break;
		default: o << "wait " << peer << " " << *gen::element(1, 10, 300, 1500); break;
		}
		return o.str();
	}));
	for (auto &l : ops)
		t << l << "\n";
	return t.str();
}

} // namespace

int
main(int argc, char **argv)
{
	pbt::PropSpec sp;
	sp.id   = "C11U";
	sp.gen  = gen_c11u;
	sp.exec = exec_c11u;
	sp.rule = "raw UDP sockets (two hostile source ports, one well-behaved) against a PULL / PAIR0 / SUB / BUS listener on udp:// with RECVMAXSZ in {default, 64, 1024}: "
	          "connection requests (valid, wrong SP type, refresh 0, bad version), DATA with a length field equal to, shorter than or beyond the datagram or above "
	          "the receive maximum, truncated headers, unknown / unimplemented opcodes, bad versions, unsolicited CACK, empty and garbage datagrams, DISC, waits. "
	          "Oracle: no crash / hang; the application receives exactly the announced-length prefix of DATA from connected peers and nothing else, never above "
	          "the receive maximum; afterwards a well-behaved peer is acknowledged and served. Non-trivial = a peer connected and an oversized / truncated / junk "
	          "datagram was sent; distinct by case hash";
	sp.nontrivial = [](const std::set<std::string> &t) { return t.count("udp_connected") && (t.count("oversize_or_truncated") || t.count("junk") || t.count("bad_creq")); };
	return pbt::pbt_main(argc, argv, sp);
}
