// C16: WebSocket/HTTP codecs are segmentation-independent and rule-enforcing.
// A raw TCP peer speaks HTTP + RFC 6455 to an nng SP socket over ws://, in both roles (nng as server behind a
// listener, nng as client behind a dialer).  The upgrade request / response and the frame stream are generated
// (valid messages fragmented with interleaved control frames, and every malformation the property lists) and
// written in generated segmentations.  A reference model written from the RFCs says what must be delivered and
// where the connection must fail; everything nng emits is parsed and checked for well-formedness.
#include "pbt.hpp"
#include "nngh.h"
#include "rawpeer.h"
#include "wsref.hpp"
#include <deque>
#include <unistd.h>

namespace {

using wsref::Bytes;

enum { BAD_RSV = 0, BAD_OPCODE, BAD_MASK, BAD_LEN16, BAD_LEN64, BAD_CTL_LONG, BAD_CONT_NO_START, BAD_DATA_IN_MSG, BAD_FRAME_TOO_BIG, BAD_MSG_TOO_BIG, NBAD };
static const char *kBadName[] = {"rsv", "opcode", "mask", "len16", "len64", "ctl_long", "cont_no_start", "data_in_msg", "frame_too_big", "msg_too_big"};

struct World {
	int        role = 0; // 0: nng is the server, 1: nng is the client
	size_t     recvmax = 0, maxframe = 0, sendmax = 0;
	nng_socket s;
	rp         r;
	bool       connected = false;
	std::vector<int> seg;
	// model
	bool              alive = true;  // the connection is expected to work
	bool              failed = false; // ... it is expected to have been failed by nng
	bool              assembling = false;
	Bytes             acc;
	std::deque<Bytes> exp_deliver;   // what the application must receive, in order
	std::deque<Bytes> exp_pongs;     // pong payloads nng owes us
	std::deque<Bytes> exp_from_app;  // messages the application sent, to be seen on the wire
	// wire from nng
	Bytes  rx;
	size_t rxpos = 0;
	bool   out_assembling = false;
	Bytes  out_acc;
	bool   saw_close = false;
	long   frames_from_nng = 0;
};

static void
wr(World *W, const Bytes &b)
{
	if (b.empty())
		return;
	if (W->seg.empty())
		rp_write(&W->r, b.data(), b.size());
	else {
		// cycle the chunk list over the whole buffer
		std::vector<int> ch;
		size_t           tot = 0;
		for (size_t i = 0; tot < b.size() && ch.size() < 4000; i++) {
			int c = W->seg[i % W->seg.size()];
			ch.push_back(c);
			tot += (size_t) c;
		}
		rp_write_chunked(&W->r, b.data(), b.size(), ch.data(), (int) ch.size());
	}
	vs_settle();
}

static void
pump(World *W)
{
	vs_settle();
	rp_pump(&W->r);
	uint8_t tmp[4096];
	size_t  n;
	while ((n = rp_consume(&W->r, tmp, sizeof tmp)) > 0)
		W->rx.insert(W->rx.end(), tmp, tmp + n);
}

// check every complete frame nng has emitted so far
static void
check_emitted(World *W)
{
	pump(W);
	wsref::Parsed f;
	while (wsref::parse(W->rx, W->rxpos, f) == 1) {
		W->frames_from_nng++;
		bool want_mask = W->role == 1; // a client masks, a server must not
		VR_CHECK(f.rsv == 0, "C16:emitted-rsv", "nng emitted a frame with reserved bits %d", f.rsv);
		VR_CHECK(f.op == 0 || f.op == 1 || f.op == 2 || f.op == 8 || f.op == 9 || f.op == 10, "C16:emitted-opcode", "nng emitted reserved opcode %d", f.op);
		VR_CHECK(f.masked == want_mask, "C16:emitted-mask", "nng (as %s) emitted a%s frame", W->role ? "client" : "server", f.masked ? " masked" : "n unmasked");
		VR_CHECK(f.minimal, "C16:emitted-length", "nng emitted a non-minimal length encoding for %zu bytes", f.payload.size());
		if (f.op >= 8) {
			VR_CHECK(f.fin && f.payload.size() <= 125, "C16:emitted-control", "nng emitted a control frame with fin=%d len=%zu", (int) f.fin, f.payload.size());
			if (f.op == wsref::OP_CLOSE) {
				W->saw_close = true;
				VR_CHECK(f.payload.size() != 1, "C16:emitted-close", "close frame with a 1-byte body");
			} else if (f.op == wsref::OP_PONG) {
				VR_CHECK(!W->exp_pongs.empty(), "C16:unsolicited-pong", "nng sent a pong nobody asked for");
				VR_CHECK(f.payload == W->exp_pongs.front(), "C16:pong-payload", "pong payload differs from the ping's (%zu vs %zu bytes)", f.payload.size(), W->exp_pongs.front().size());
				W->exp_pongs.pop_front();
				vr_tag("pong_checked");
			}
			continue;
		}
		if (f.op == wsref::OP_CONT) {
			VR_CHECK(W->out_assembling, "C16:emitted-continuation", "nng emitted a continuation frame without a start");
		} else {
			VR_CHECK(!W->out_assembling, "C16:emitted-continuation", "nng started a new data frame inside a fragmented message");
			VR_CHECK(f.op == wsref::OP_BIN, "C16:emitted-opcode", "SP message sent as opcode %d", f.op);
			W->out_acc.clear();
		}
		if (W->sendmax > 0)
			VR_CHECK(f.payload.size() <= W->sendmax, "C16:emitted-frame-size", "frame of %zu bytes with ws:txframe-max %zu", f.payload.size(), W->sendmax);
		W->out_acc.insert(W->out_acc.end(), f.payload.begin(), f.payload.end());
		W->out_assembling = !f.fin;
		if (f.fin) {
			VR_CHECK(!W->exp_from_app.empty(), "C16:emitted-message", "nng emitted a %zu-byte message the application never sent", W->out_acc.size());
			VR_CHECK(W->out_acc == W->exp_from_app.front(), "C16:emitted-message", "reassembled message (%zu bytes) differs from what the application sent (%zu bytes)",
			    W->out_acc.size(), W->exp_from_app.front().size());
			W->exp_from_app.pop_front();
			vr_tag("emitted_message_checked");
			if (W->frames_from_nng > 1)
				vr_tag("emitted_fragmented");
		}
	}
}

static void
drain_app(World *W)
{
	for (;;) {
		nng_msg *m = nullptr;
		if (nng_recvmsg(W->s, &m, NNG_FLAG_NONBLOCK) != 0)
			break;
		Bytes got((uint8_t *) nng_msg_body(m), (uint8_t *) nng_msg_body(m) + nng_msg_len(m));
		nng_msg_free(m);
		if (W->recvmax > 0)
			VR_CHECK(got.size() <= W->recvmax, "C16:recvmax-bypassed", "the application received %zu bytes with NNG_OPT_RECVMAXSZ %zu", got.size(), W->recvmax);
		VR_CHECK(!W->exp_deliver.empty(), "C16:delivered-despite-violation", "the application received a %zu-byte message the reference decoder does not deliver (%s)", got.size(),
		    W->failed ? "the connection should have been failed" : "nothing complete was sent");
		VR_CHECK(got == W->exp_deliver.front(), "C16:reassembly", "received message (%zu bytes) differs from the reference reassembly (%zu bytes)", got.size(),
		    W->exp_deliver.front().size());
		W->exp_deliver.pop_front();
		vr_tag("delivered");
	}
}

// reference verdict for one frame we are about to send; updates the model
static void
model_frame(World *W, const wsref::FrameSpec &f)
{
	if (!W->alive)
		return;
	bool   want_mask = W->role == 0; // we are the client when nng is the server
	size_t n         = f.payload.size();
	bool   bad       = false;
	if (f.rsv != 0)
		bad = true;
	if (!(f.op == 0 || f.op == 1 || f.op == 2 || f.op == 8 || f.op == 9 || f.op == 10))
		bad = true;
	if ((f.lenform == 1 && n < 126) || (f.lenform == 2 && n < 65536))
		bad = true;
	if (f.masked != want_mask)
		bad = true;
	if (W->maxframe > 0 && n > W->maxframe)
		bad = true;
	if (f.op >= 8) {
		if (n > 125)
			bad = true;
	} else if (!bad) {
		if (W->recvmax > 0 && (f.op == wsref::OP_CONT ? W->acc.size() : 0) + n > W->recvmax)
			bad = true;
		if (f.op == wsref::OP_CONT && !W->assembling)
			bad = true;
		if (f.op != wsref::OP_CONT && W->assembling)
			bad = true;
	}
	if (bad) {
		W->alive  = false;
		W->failed = true;
		vr_tag("violation_sent");
		return;
	}
	switch (f.op) {
	case wsref::OP_CLOSE: W->alive = false; break;
	case wsref::OP_PING: W->exp_pongs.push_back(f.payload); break;
	case wsref::OP_PONG: break;
	default:
		if (f.op != wsref::OP_CONT)
			W->acc.clear();
		W->acc.insert(W->acc.end(), f.payload.begin(), f.payload.end());
		W->assembling = !f.fin;
		if (f.fin) {
			W->exp_deliver.push_back(W->acc);
			W->acc.clear();
		}
		break;
	}
}

static Bytes
pattern(size_t n, uint32_t seed)
{
	Bytes b(n);
	for (size_t i = 0; i < n; i++)
		b[i] = (uint8_t) ((seed * 2654435761u + i * 40503u) >> 7);
	return b;
}

static void
send_frame(World *W, wsref::FrameSpec f, Bytes &stream)
{
	f.masked = (W->role == 0) != (f.masked); // f.masked == true on entry means "wrong masking"
	model_frame(W, f);
	wsref::encode(f, stream);
}

int
exec_c16(const vcase *vc)
{
	h_cfg cfg;
	if (vc->nops < 3 || strcmp(vc->ops[0].name, "cfg") != 0 || strcmp(vc->ops[1].name, "world") != 0 || strcmp(vc->ops[2].name, "hs") != 0)
		return 0;
	h_cfg_from_op(&cfg, &vc->ops[0]);
	cfg.task_threads = 3;
	World W;
	W.role     = (int) vop_arg(&vc->ops[1], 0, 0) ? 1 : 0;
	W.recvmax  = (size_t) vop_arg(&vc->ops[1], 1, 0);
	W.maxframe = (size_t) vop_arg(&vc->ops[1], 2, 0);
	W.sendmax  = (size_t) vop_arg(&vc->ops[1], 3, 0);
	int hs     = (int) vop_arg(&vc->ops[2], 0, 0);
	if (hs < 0 || hs > 11)
		return 0;
	for (int i = 3; i < vc->nops; i++)
		if (strcmp(vc->ops[i].name, "seg") == 0)
			for (int k = 0; k < vc->ops[i].na && k < 12; k++) {
				long c = vop_arg(&vc->ops[i], k, 1);
				if (c >= 1 && c <= 100000)
					W.seg.push_back((int) c);
			}
	if (h_begin(&cfg) != 0)
		return 0;
	vr_tag(W.role ? "nng_client" : "nng_server");
	H_OK(nng_pair0_open(&W.s));
	H_OK(nng_socket_set_size(W.s, NNG_OPT_RECVMAXSZ, W.recvmax));
	char        buf[160];
	std::string key = "dGhlIHNhbXBsZSBub25jZQ==";
	int         port = 0;
	int         lfd  = -1;
	bool        established = false;
	if (W.role == 0) {
		nng_listener l;
		H_OK(nng_listener_create(&l, W.s, "ws://127.0.0.1:0/c16"));
		if (W.maxframe)
			H_OK(nng_listener_set_size(l, NNG_OPT_WS_RECVMAXFRAME, W.maxframe));
		if (W.sendmax)
			H_OK(nng_listener_set_size(l, NNG_OPT_WS_SENDMAXFRAME, W.sendmax));
		H_OK(nng_listener_start(l, 0));
		H_OK(nng_listener_get_int(l, NNG_OPT_BOUND_PORT, &port));
		if (rp_connect_tcp(&W.r, port) != 0) {
			nng_socket_close(W.s);
			h_end();
			return 0; // (no ephemeral port left: not the subject)
		}
		W.connected = true;
		vs_settle();
		// upgrade request, variant hs
		std::string req;
		req += hs == 7 ? "POST" : "GET";
		req += hs == 6 ? " /elsewhere" : " /c16";
		req += hs == 5 ? " HTTX/1.1\r\n" : " HTTP/1.1\r\n";
		snprintf(buf, sizeof buf, "Host: 127.0.0.1:%d\r\n", port);
		req += buf;
		if (hs != 1)
			req += "Upgrade: websocket\r\n";
		req += "Connection: Upgrade\r\n";
		if (hs != 3)
			req += "Sec-WebSocket-Key: " + key + "\r\n";
		req += hs == 2 ? "Sec-WebSocket-Version: 12\r\n" : "Sec-WebSocket-Version: 13\r\n";
		// (round 7, variants 8-11: a sub-protocol that is a strict prefix / extension of the listener's own is a different protocol)
		static const char *kNear[] = {"pair.sp.nanomsg.or", "pair.sp", "p", "pair.sp.nanomsg.org2"};
		req += hs >= 8 ? std::string("Sec-WebSocket-Protocol: ") + kNear[hs - 8] + "\r\n"
		               : hs == 4 ? "Sec-WebSocket-Protocol: rep.sp.nanomsg.org\r\n" : "Sec-WebSocket-Protocol: pair.sp.nanomsg.org\r\n";
		if (hs == 7)
			req += "Content-Length: 0\r\n";
		req += "\r\n";
		wr(&W, Bytes(req.begin(), req.end()));
		size_t he = 0;
		for (int t = 0; t < 300 && he == 0 && !W.r.eof; t++) {
			pump(&W);
			he = wsref::head_end(W.rx);
			if (he == 0)
				vs_sleep(1);
		}
		if (hs == 0) {
			VR_CHECK(he != 0, "C16:no-upgrade-response", "a valid upgrade request (segmented) got no response within 300 ms");
			wsref::Head h = wsref::parse_head(W.rx, he);
			VR_CHECK(h.wellformed && h.first.rfind("HTTP/1.1 101", 0) == 0, "C16:upgrade-response", "valid upgrade request answered with '%s'", h.first.c_str());
			VR_CHECK(strcasecmp(h.get("Upgrade").c_str(), "websocket") == 0 && strcasestr(h.get("Connection").c_str(), "upgrade") != nullptr, "C16:upgrade-response",
			    "101 response lacks Upgrade/Connection headers");
			VR_CHECK(h.get("Sec-WebSocket-Accept") == wsref::accept_key(key), "C16:accept-key", "Sec-WebSocket-Accept '%s' != '%s'", h.get("Sec-WebSocket-Accept").c_str(),
			    wsref::accept_key(key).c_str());
			VR_CHECK(h.get("Sec-WebSocket-Protocol") == "pair.sp.nanomsg.org", "C16:upgrade-response", "subprotocol echoed as '%s'", h.get("Sec-WebSocket-Protocol").c_str());
			W.rx.erase(W.rx.begin(), W.rx.begin() + (long) he);
			established = true;
		} else {
			vr_tag("bad_handshake");
			if (he != 0) {
				wsref::Head h = wsref::parse_head(W.rx, he);
				VR_CHECK(h.first.rfind("HTTP/1.1 101", 0) != 0, "C16:bad-upgrade-accepted", "upgrade request variant %d was answered with '%s'", hs, h.first.c_str());
				int code = 0;
				VR_CHECK(h.wellformed && sscanf(h.first.c_str(), "HTTP/1.%*d %d", &code) == 1 && code >= 400 && code < 600, "C16:error-status",
				    "upgrade request variant %d: expected an HTTP error status, got '%s'", hs, h.first.c_str());
				vr_tag("http_error_status");
				// whatever follows the head is the error body, not websocket frames
				W.rx.clear();
				W.rxpos = 0;
			}
			W.alive  = false;
			W.failed = true;
		}
	} else {
		lfd = rp_listen_tcp(&port);
		if (lfd < 0) {
			nng_socket_close(W.s);
			h_end();
			return 0;
		}
		nng_dialer d;
		snprintf(buf, sizeof buf, "ws://127.0.0.1:%d/c16", port);
		H_OK(nng_dialer_create(&d, W.s, buf));
		if (W.maxframe)
			H_OK(nng_dialer_set_size(d, NNG_OPT_WS_RECVMAXFRAME, W.maxframe));
		if (W.sendmax)
			H_OK(nng_dialer_set_size(d, NNG_OPT_WS_SENDMAXFRAME, W.sendmax));
		H_OK(nng_dialer_set_ms(d, NNG_OPT_RECONNMINT, 5000));
		H_OK(nng_dialer_start(d, NNG_FLAG_NONBLOCK));
		for (int t = 0; t < 50 && !W.connected; t++) {
			vs_settle();
			if (rp_accept(&W.r, lfd, RP_TCP) == 0)
				W.connected = true;
			else
				vs_sleep(1);
		}
		close(lfd); // one connection is the subject; later redials are refused
		lfd = -1;
		VR_CHECK(W.connected, "harness:no-connect", "the nng ws dialer never connected");
		size_t he = 0;
		for (int t = 0; t < 100 && he == 0; t++) {
			pump(&W);
			he = wsref::head_end(W.rx);
			if (he == 0)
				vs_sleep(1);
		}
		VR_CHECK(he != 0, "C16:no-upgrade-request", "the nng ws dialer sent no complete upgrade request");
		wsref::Head h = wsref::parse_head(W.rx, he);
		VR_CHECK(h.wellformed && h.first == "GET /c16 HTTP/1.1", "C16:emitted-request", "request line '%s'", h.first.c_str());
		VR_CHECK(!h.get("Host").empty() && strcasecmp(h.get("Upgrade").c_str(), "websocket") == 0 && strcasestr(h.get("Connection").c_str(), "upgrade") != nullptr &&
		        h.get("Sec-WebSocket-Version") == "13" && h.get("Sec-WebSocket-Protocol") == "pair.sp.nanomsg.org",
		    "C16:emitted-request", "upgrade request lacks a mandatory header (Host '%s', Upgrade '%s', Connection '%s', Version '%s', Protocol '%s')", h.get("Host").c_str(),
		    h.get("Upgrade").c_str(), h.get("Connection").c_str(), h.get("Sec-WebSocket-Version").c_str(), h.get("Sec-WebSocket-Protocol").c_str());
		key = h.get("Sec-WebSocket-Key");
		VR_CHECK(key.size() == 24 && key[22] == '=' && key[23] == '=', "C16:emitted-request", "Sec-WebSocket-Key '%s' is not the base64 of 16 bytes", key.c_str());
		W.rx.erase(W.rx.begin(), W.rx.begin() + (long) he);
		vr_tag("request_checked");
		std::string res;
		res += hs == 4 ? "HTTP/1.1101 Switching\r\n" : hs == 2 ? "HTTP/1.1 200 OK\r\n" : "HTTP/1.1 101 Switching Protocols\r\n";
		if (hs != 3)
			res += "Upgrade: websocket\r\n";
		res += "Connection: Upgrade\r\n";
		res += "Sec-WebSocket-Accept: " + (hs == 1 ? std::string("AAAAAAAAAAAAAAAAAAAAAAAAAAA=") : wsref::accept_key(key)) + "\r\n";
		res += hs == 5 ? "Sec-WebSocket-Protocol: rep.sp.nanomsg.org\r\n" : "Sec-WebSocket-Protocol: pair.sp.nanomsg.org\r\n";
		if (hs == 2)
			res += "Content-Length: 0\r\n";
		res += "\r\n";
		if (hs > 5)
			hs = 0, res = "HTTP/1.1 101 Switching Protocols\r\nUpgrade: websocket\r\nConnection: Upgrade\r\nSec-WebSocket-Accept: " + wsref::accept_key(key) +
			        "\r\nSec-WebSocket-Protocol: pair.sp.nanomsg.org\r\n\r\n";
		wr(&W, Bytes(res.begin(), res.end()));
		if (hs == 0)
			established = true;
		else {
			vr_tag("bad_handshake");
			W.alive  = false;
			W.failed = true;
		}
	}
	vs_settle();
	if (established)
		vr_tag("established");
	if (!W.seg.empty() && W.seg.size() >= 1 && W.seg[0] < 40)
		vr_tag("finely_segmented");

	uint32_t serial = 1;
	for (int i = 3; i < vc->nops; i++) {
		const vop  *o = &vc->ops[i];
		const char *n = o->name;
		vr_at(i, n);
		Bytes stream;
		if (!established)
			break; // (after a refused upgrade the connection speaks HTTP, or nothing: no frame phase)
		if (strcmp(n, "msg") == 0) {
			size_t size  = (size_t) vop_arg(o, 0, 10);
			int    nfrag = (int) vop_arg(o, 1, 1);
			long   ctl   = vop_arg(o, 2, 0);
			if (size > 200000 || nfrag < 1 || nfrag > 8)
				continue;
			Bytes body = pattern(size, serial++);
			for (int k = 0; k < nfrag; k++) {
				size_t lo = size * (size_t) k / (size_t) nfrag, hi = size * (size_t) (k + 1) / (size_t) nfrag;
				wsref::FrameSpec f;
				f.fin = k == nfrag - 1;
				f.op  = k == 0 ? wsref::OP_BIN : wsref::OP_CONT;
				f.payload.assign(body.begin() + (long) lo, body.begin() + (long) hi);
				f.maskkey = serial * 0x9e3779b9u;
				send_frame(&W, f, stream);
				if (k < nfrag - 1 && ((ctl >> k) & 1)) {
					wsref::FrameSpec p;
					p.op      = (k & 1) ? wsref::OP_PONG : wsref::OP_PING;
					p.payload = pattern((size_t) (k * 31 % 126), serial + 77);
					send_frame(&W, p, stream);
					vr_tag("control_interleaved");
				}
			}
			if (nfrag > 1)
				vr_tag("fragmented_message");
		} else if (strcmp(n, "ctl") == 0) {
			wsref::FrameSpec p;
			p.op       = vop_arg(o, 0, 9) == 10 ? wsref::OP_PONG : wsref::OP_PING;
			size_t len = (size_t) vop_arg(o, 1, 0);
			if (len > 125)
				len = 125;
			p.payload = pattern(len, serial++);
			send_frame(&W, p, stream);
		} else if (strcmp(n, "close") == 0) {
			wsref::FrameSpec p;
			p.op      = wsref::OP_CLOSE;
			p.payload = {0x03, 0xe8};
			send_frame(&W, p, stream);
		} else if (strcmp(n, "bad") == 0) {
			int    kind = (int) vop_arg(o, 0, 0);
			size_t size = (size_t) vop_arg(o, 1, 10);
			if (kind < 0 || kind >= NBAD || size > 70000)
				continue;
			wsref::FrameSpec f;
			f.payload = pattern(size, serial++);
			switch (kind) {
			case BAD_RSV: f.rsv = 1 << (size % 3); break;
			case BAD_OPCODE: f.op = (size & 1) ? 3 + (int) (size % 5) : 11 + (int) (size % 5); break;
			case BAD_MASK: f.masked = true; break; // = wrong for our role
			case BAD_LEN16:
				f.payload.resize(size % 126);
				f.lenform = 1;
				break;
			case BAD_LEN64:
				f.payload.resize(size % 4000);
				f.lenform = 2;
				break;
			case BAD_CTL_LONG:
				f.op = wsref::OP_PING;
				f.payload.resize(126 + size % 300);
				break;
			case BAD_CONT_NO_START: f.op = wsref::OP_CONT; break;
			case BAD_DATA_IN_MSG: {
				// open a fragmented message first (if none is open), then start another data frame
				if (!W.assembling) {
					wsref::FrameSpec g;
					g.fin     = false;
					g.payload = pattern(5, serial++);
					send_frame(&W, g, stream);
				}
				break;
			}
			case BAD_FRAME_TOO_BIG:
				if (W.maxframe == 0)
					continue;
				f.payload = pattern(W.maxframe + 1 + size % 50, serial++);
				break;
			case BAD_MSG_TOO_BIG: {
				if (W.recvmax == 0 || W.recvmax > 100000)
					continue;
				// three or more fragments, each of them small enough on its own
				size_t part = W.recvmax / 2 + 1;
				if (W.maxframe > 0 && part > W.maxframe)
					part = W.maxframe;
				size_t total = 0;
				bool   first = !W.assembling;
				while (total <= W.recvmax) {
					wsref::FrameSpec g;
					g.fin     = false;
					g.op      = first ? wsref::OP_BIN : wsref::OP_CONT;
					first     = false;
					g.payload = pattern(part, serial++);
					total += part;
					send_frame(&W, g, stream);
				}
				f.op = wsref::OP_CONT;
				f.payload.resize(1);
				break;
			}
			}
			vr_tagf("bad_%s", kBadName[kind]);
			send_frame(&W, f, stream);
		} else if (strcmp(n, "appsend") == 0) {
			size_t size = (size_t) vop_arg(o, 0, 10);
			if (size > 200000 || !W.alive || !established)
				continue;
			nng_msg *m;
			H_OK(nng_msg_alloc(&m, 0));
			Bytes body = pattern(size, serial++);
			if (!body.empty())
				H_OK(nng_msg_append(m, body.data(), body.size()));
			if (nng_sendmsg(W.s, m, NNG_FLAG_NONBLOCK) != 0)
				nng_msg_free(m);
			else
				W.exp_from_app.push_back(body);
			vs_settle();
			for (int t = 0; t < 200 && !W.exp_from_app.empty(); t++) {
				check_emitted(&W);
				if (!W.exp_from_app.empty())
					vs_sleep(1);
			}
			VR_CHECK(W.exp_from_app.empty(), "C16:message-not-emitted", "a %zu-byte message sent by the application did not arrive complete within 200 ms", size);
			continue;
		} else
			continue;
		if (!W.connected || W.r.fd < 0)
			continue;
		wr(&W, stream);
		vs_settle();
		drain_app(&W);
		check_emitted(&W);
	}
	// settle the account
	for (int t = 0; t < 100 && (!W.exp_deliver.empty() || !W.exp_pongs.empty()); t++) {
		vs_sleep(1);
		drain_app(&W);
		check_emitted(&W);
	}
	drain_app(&W);
	check_emitted(&W);
	VR_CHECK(W.exp_deliver.empty(), "C16:message-lost", "%zu complete valid message(s) (first %zu bytes) were never delivered to the application", W.exp_deliver.size(),
	    W.exp_deliver.front().size());
	if (W.alive || !W.failed)
		VR_CHECK(W.exp_pongs.empty() || !W.alive, "C16:ping-unanswered", "%zu ping(s) were never answered", W.exp_pongs.size());
	if (W.failed && W.connected && established) {
		// the connection must have been failed: a Close frame or EOF from nng
		for (int t = 0; t < 300 && !W.saw_close && !W.r.eof; t++) {
			vs_sleep(1);
			check_emitted(&W);
		}
		VR_CHECK(W.saw_close || W.r.eof, "C16:violation-tolerated", "after a framing violation nng neither sent a Close frame nor closed the connection within 300 ms");
		vr_tag("connection_failed_as_required");
	}
	if (W.failed && W.connected && !established && W.role == 1) {
		// a bad upgrade response: whatever we send now must not reach the application
		wsref::FrameSpec f;
		f.payload = pattern(9, 4242);
		Bytes st;
		wsref::encode(f, st);
		wr(&W, st);
		vs_sleep(5);
		vs_settle();
		drain_app(&W);
	}
	nng_socket_close(W.s);
	if (W.connected)
		rp_close(&W.r);
	if (lfd >= 0)
		close(lfd);
	h_end();
	return 0;
}

using namespace rc;

Gen<std::string>
genItem()
{
	return gen::exec([]() {
		std::ostringstream o;
		int k = *pbt::welem<int>({{8, 0}, {3, 1}, {3, 2}, {1, 3}, {3, 4}});
		switch (k) {
		case 0: o << "msg " << *gen::element(0, 1, 5, 125, 126, 127, 300, 4000, 65534, 65535, 65536, 70000) << " " << *pbt::welem<int>({{3, 1}, {2, 2}, {2, 3}, {1, 5}}) << " " << *pbt::range<int>(0, 15); break;
		case 1: o << "ctl " << *gen::element(9, 10) << " " << *gen::element(0, 1, 60, 125); break;
		case 2: o << "bad " << *pbt::range<int>(0, NBAD - 1) << " " << *gen::element(0, 1, 7, 100, 125, 126, 2000, 66000); break;
		case 3: o << "close"; break;
		default: o << "appsend " << *gen::element(0, 1, 125, 126, 127, 4000, 65534, 65535, 65536, 70000); break;
		}
		return o.str();
	});
}

std::string
gen_c16()
{
	std::ostringstream t;
	int mode = *pbt::welem<int>({{4, 0}, {2, 1}, {1, 2}, {1, 3}});
	t << "cfg " << *pbt::range<int>(1, 1000000) << " " << mode << " " << (mode == 3 ? *gen::element(5, 20, 50) : *gen::element(10, 30, 60)) << " " << *pbt::range<int>(0, 3) << " " << (mode == 3 ? *gen::element(60, 150, 400) : 600) << " 0\n";
	t << "world " << *pbt::range<int>(0, 1) << " " << *gen::element(0, 0, 100, 1000, 70000) << " " << *gen::element(0, 0, 64, 5000) << " " << *gen::element(0, 0, 1, 100, 125, 126, 65535, 65536) << "\n";
	t << "hs " << *pbt::welem<int>({{10, 0}, {1, 1}, {1, 2}, {1, 3}, {1, 4}, {1, 5}, {1, 6}, {1, 7}, {1, 8}, {1, 9}, {1, 10}, {1, 11}}) << "\n";
	if (*pbt::welem<int>({{1, 0}, {4, 1}})) {
		auto seg = *gen::container<std::vector<int>>(gen::element(1, 1, 2, 3, 5, 7, 16, 17, 60, 125, 126, 1000, 65536));
		if (!seg.empty()) {
			t << "seg";
			for (size_t i = 0; i < seg.size() && i < 12; i++)
				t << " " << seg[i];
			t << "\n";
		}
	}
	auto items = *gen::container<std::vector<std::string>>(genItem());
	for (auto &l : items)
		t << l << "\n";
	return t.str();
}

} // namespace

int
main(int argc, char **argv)
{
	pbt::PropSpec sp;
	sp.id         = "C16";
	sp.gen        = gen_c16;
	sp.exec       = exec_c16;
	sp.watchdog_s = 90;
	sp.rule = "a raw TCP peer performs the HTTP upgrade with an nng PAIR0 socket over ws:// in both roles (nng listener = server, nng dialer = client), valid or in 7 "
	          "(request) / 5 (response) malformed variants, then sends generated frame streams: messages of 0..70000 bytes in 1-5 fragments with pings / pongs "
	          "interleaved, control frames, and violations (reserved bit, reserved opcode, wrong masking for the role, non-minimal 16/64-bit lengths, 126+ byte "
	          "control frame, continuation without start, data frame inside a message, frame above ws:rxframe-max, fragmented message above RECVMAXSZ), all "
	          "written in generated segmentations (1-byte to 64 KiB chunks); the application also sends 0..70000-byte messages with ws:txframe-max 0/1/100/125/126/65535/65536. "
	          "Oracle: reference model from RFC 6455 - exactly the valid complete messages before the first violation are delivered, byte-identical, never above "
	          "RECVMAXSZ; after a violation nothing is delivered and nng sends Close or disconnects; bad upgrades get an HTTP error status (server) or no "
	          "connection (client); every frame and header nng emits is well-formed (mask by role, minimal lengths, opcodes, accept key, pong echoes). "
	          "Non-trivial = connection established and a fragmented message or a violation was sent under fine segmentation, or a bad handshake; by case hash";
	sp.nontrivial = [](const std::set<std::string> &t) {
		return (t.count("established") && t.count("finely_segmented") && (t.count("fragmented_message") || t.count("violation_sent"))) || t.count("bad_handshake");
	};
	return pbt::pbt_main(argc, argv, sp);
}
