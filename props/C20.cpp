// C20: a failed allocation yields a clean error, never a crash, hang or leak.
// The API programs of C03 are run once without faults (counting the allocations A and recording every
// return code), then again with the k-th allocation failing, for a spread of k over [1, A] (quick) or a
// contiguous window of k (thorough: all k for small programs).  After the fault the program continues,
// everything is closed, nng_fini must return all memory.
#include "apiprog.hpp"

namespace {

static bool
loss_code(int rv)
{
	return rv == 0 || rv == NNG_ETIMEDOUT || rv == NNG_EAGAIN || rv == NNG_ECONNREFUSED || rv == NNG_ECONNRESET || rv == NNG_ECONNABORTED || rv == NNG_ECONNSHUT ||
	    rv == NNG_ECANCELED || rv == NNG_ESTATE || rv == NNG_ECLOSED || rv == NNG_ENOENT;
}

int
exec_c20(const vcase *vc)
{
	h_cfg cfg;
	if (vc->nops < 2 || strcmp(vc->ops[0].name, "cfg") != 0 || strcmp(vc->ops[1].name, "fault") != 0)
		return 0;
	h_cfg_from_op(&cfg, &vc->ops[0]);
	cfg.task_threads = 3;
	int  mode = (int) vop_arg(&vc->ops[1], 0, 0);
	long n    = vop_arg(&vc->ops[1], 1, 4);
	long salt = vop_arg(&vc->ops[1], 2, 1);
	if (mode != 3 && (n < 1 || n > 400))
		n = 4;
	// baseline
	cfg.fail_at = 0;
	if (h_begin(&cfg) != 0)
		return 0;
	std::vector<int> base;
	long             total;
	{
		api::Machine M0;
		api::run(&M0, vc, 2);
		base  = M0.rcs;
		total = at_total_allocs();
		if (M0.own_fail)
			vr_fail("C03:message-ownership", "%s", M0.own_msg);
	}
	h_end();
	if (total < 1)
		return 0;
	vr_count(1, total);
	if (mode == 3) {
		// exhaustive stripe: every k = salt+1, salt+1+n, ... <= total (n workers share one program)
		if (n < 1 || n > 64 || salt < 0 || salt >= n)
			return 0;
		vr_tag("exhaustive_stripe");
	}
	long nruns = mode == 3 ? (total - salt + n - 1) / n : n;
	for (long j = 0; j < nruns; j++) {
		long k;
		if (mode == 3) {
			k = salt + 1 + j * n;
			vr_count(3, 1);
		} else if (mode == 0)
			k = 1 + (long) (((unsigned long) salt * 2654435761ul + (unsigned long) j * (unsigned long) (total / n + 1)) % (unsigned long) total);
		else
			k = 1 + (long) (((unsigned long) salt + (unsigned long) j) % (unsigned long) total);
		cfg.fail_at = k;
		vr_at(1, "fault");
		vr_trace("fault at allocation %ld of %ld", k, total);
		if (h_begin(&cfg) != 0) {
			vr_count(2, 1); // nng_init itself failed cleanly
			continue;
		}
		api::Machine M;
		M.final_probe = true;
		api::run(&M, vc, 2);
		bool injected = at_failed_serial() != 0 || M.fault_serial != 0;
		if (M.final_http != -1000) {
			vr_tag("http_server_probed_after_fault");
			if (M.final_http != 0)
				vr_fail("C20:later-call-misbehaves", "allocation %ld of %ld failed; afterwards the machine's HTTP server no longer serves a fresh client: transaction -> %d (%s)", k, total,
				    M.final_http, nng_strerror((nng_err) M.final_http));
		}
		if (injected)
			vr_count(0, 1);
		if (M.own_fail)
			vr_fail("C20:message-ownership", "allocation %ld failed: %s", k, M.own_msg);
		for (auto &A : M.aios)
			if (A.callbacks != A.submissions)
				vr_fail("C20:aio-callbacks", "allocation %ld failed: an aio saw %d submissions but %d callbacks", k, A.submissions, A.callbacks);
		// the first return code that differs from the fault-free run must be NNG_ENOMEM or the documented loss of a message / connection
		if (injected) {
			for (size_t i = 0; i < M.rcs.size() && i < base.size(); i++) {
				if (M.rcs[i] == base[i])
					continue;
				if (M.rcs[i] == NNG_ENOMEM) {
					vr_tag("call_returned_enomem");
					break;
				}
				if (base[i] == NNG_EBUSY || base[i] == NNG_ECLOSED || base[i] == NNG_ENOENT)
					continue; // (handle state that depends on an asynchronous operation - a device owning or having closed the sockets - whose own result is not in this list)
				if (M.rcs[i] == -1000 || base[i] == -1000)
					continue; // (-1000: the interpreter had nothing to call, e.g. no pipe to close)
				const char *on = vc->ops[i + 2].name;
				bool        data = !strcmp(on, "send") || !strcmp(on, "recv") || !strcmp(on, "ctxsend") || !strcmp(on, "ctxrecv") || !strcmp(on, "wait") || !strcmp(on, "dial") ||
				    !strcmp(on, "pipeclose") || !strcmp(on, "http"); // (http: the in-process server may be the one that ran out of memory and dropped the connection)
				// (round 7, ws://: when the listener side of an in-process WebSocket handshake runs out of memory it answers the upgrade with an
				//  HTTP error status, which the dialing side reports as NNG_EPROTO - the loss of that one connection as the peer sees it)
				// (the program's own "cancel <aio> 1" aborts that aio with NNG_EINTERNAL: when the injected fault cost the message
				//  the operation was waiting for, it is still pending at that point and ends with the harness's own code)
				bool own_abort = false;
				if (!strcmp(on, "wait") && M.rcs[i] == NNG_EINTERNAL)
					for (int q = 2; q < vc->nops; q++)
						own_abort = own_abort || (!strcmp(vc->ops[q].name, "cancel") && vop_arg(&vc->ops[q], 1, 0) != 0);
				if (own_abort) {
					vr_tag("pending_op_ended_by_programs_own_abort");
					break;
				}
				bool peer_refused = !strcmp(on, "dial") && M.rcs[i] == NNG_EPROTO;
				if (peer_refused)
					vr_tag("dial_refused_by_faulted_listener");
				if (M.rcs[i] != NNG_ENOMEM && !(data && loss_code(M.rcs[i])) && !peer_refused)
					vr_fail("C20:unclean-error", "allocation %ld of %ld failed: op %d (%s) returned %d (%s) instead of %d; expected NNG_ENOMEM%s", k, total, (int) i + 2, on, M.rcs[i],
					    nng_strerror((nng_err) M.rcs[i]), base[i], data ? " or the loss of one message / connection" : "");
				if (M.rcs[i] == NNG_ENOMEM)
					vr_tag("call_returned_enomem");
				break;
			}
		}
		char lk[64];
		snprintf(lk, sizeof lk, "allocation %ld of %ld failed", k, total);
		vr_at(1, lk);
		h_end();
		vr_tag("fault_injected");
	}
	return 0;
}

std::string
gen_c20()
{
	using namespace rc;
	std::ostringstream t;
	int mode = *pbt::welem<int>({{3, 0}, {3, 1}, {2, 2}});
	t << "cfg " << *pbt::range<int>(1, 1000000) << " " << mode << " " << *gen::element(10, 30, 60) << " " << *pbt::range<int>(0, 3) << " 400 0\n";
	const char *tier = getenv("VERIF_TIER");
	bool        thorough = tier != nullptr && strcmp(tier, "thorough") == 0;
	t << "fault " << *pbt::welem<int>({{3, 0}, {1, 1}}) << " " << (thorough ? 40 : 6) << " " << *pbt::range<int>(1, 100000) << "\n";
	t << api::gen_program();
	return t.str();
}

// the finite sub-space that is enumerated: the bare scenario templates (no insertions, blocking send / receive forms) over
// inproc / ipc / tcp / ws, EVERY allocation index of each, the indices striped over the workers
std::vector<std::string>
enum_c20(int worker, int nworkers, bool thorough)
{
	std::vector<std::string> out;
	// single operations inserted at every position of the template (thorough tier)
	static const char *kIns[] = {"", "setopt 0 0 3 0 1", "setopt 0 1 3 0 0", "close 0 0", "close 1 0", "pipeclose 0 0", "pipeclose 1 0", "epclose 0 0", "epclose 1 0", "stats", "ctxopen 0", "ctxopen 1",
	    "cancel 0 0", "send 0 1 5000 0", "recv 1 1 0 0", "sleep 5", "open 3 0", "subscribe 0 1 0"};
	int nins = thorough ? (int) (sizeof kIns / sizeof kIns[0]) : 1;
	for (int t = 0; t < api::kNEnumTemplates; t++)
		for (int T = 0; T < 4; T++)
			for (int S = 0; S < 3; S++)
				for (int F = 0; F < 2; F++) {
					std::string              tp = api::kTemplates[t], w;
					std::vector<std::string> lines;
					for (auto &c : tp)
						if (c == '|')
							c = '\n';
					bool               usesT = false, usesS = false, usesF = false;
					std::istringstream is(tp);
					std::string        line;
					while (std::getline(is, line)) {
						std::istringstream ls(line);
						std::string        l;
						while (ls >> w) {
							usesT = usesT || w == "T";
							usesS = usesS || w == "S";
							usesF = usesF || w == "F";
							l += (l.empty() ? "" : " ") + (w == "T" ? std::to_string(T) : w == "F" ? std::to_string(F) : w == "S" ? std::to_string(S) : w);
						}
						lines.push_back(l);
					}
					if ((!usesT && T) || (!usesS && S) || (!usesF && F))
						continue; // the template does not depend on that parameter: one instance is enough
					for (int ins = 0; ins < nins; ins++)
						for (size_t pos = 0; pos <= (ins ? lines.size() : 0); pos++) {
							if (ins && (S || F))
								continue; // insertions: blocking forms, plain dial only
							std::ostringstream o;
							o << "cfg " << (1000 + t * 4 + T) << " 0 10 0 400 0\nfault 3 " << nworkers << " " << worker << "\n# template " << t << "\n";
							for (size_t i = 0; i <= lines.size(); i++) {
								if (ins && i == pos)
									o << kIns[ins] << "\n";
								if (i < lines.size())
									o << lines[i] << "\n";
							}
							out.push_back(o.str());
						}
				}
	return out;
}

} // namespace

int
main(int argc, char **argv)
{
	pbt::PropSpec sp;
	sp.enumerate = enum_c20;
	sp.id         = "C20";
	sp.gen        = gen_c20;
	sp.exec       = exec_c20;
	sp.watchdog_s = 120;
	sp.rule = "the API programs of C03 (15 protocol scenarios over inproc / ipc / tcp / ws with operations inserted anywhere, statistics snapshots, contexts, devices, "
	          "11-socket worlds) are run once fault-free (A allocations, return codes recorded), then with the k-th allocation failing for 6 (quick) or 40 "
	          "(thorough) values of k spread over [1, A] or taken as a contiguous window, nng_init's own allocations included. Oracle: no crash / sanitizer "
	          "report / deadlock / livelock / watchdog; the first return code differing from the fault-free run is NNG_ENOMEM, or a loss-type code on a "
	          "send / receive / dial; failed sends still own their message; callbacks == submissions; after closing everything nng_fini returns every "
	          "block (also after a failed nng_init). Non-trivial = a fault was actually injected after nng_init succeeded; distinct by case hash";
	sp.nontrivial = [](const std::set<std::string> &t) { return t.count("fault_injected") > 0; };
	return pbt::pbt_main(argc, argv, sp);
}
