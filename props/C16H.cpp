// C16 (second driver): the HTTP/1.1 codec itself.
//  world 0: an nng_http_server with a static handler, a POST echo handler (collecting bodies up to 64 KiB) and
//           nothing else; a raw TCP client sends a generated pipeline of requests (valid ones and the
//           malformed variants the property lists) in a generated segmentation.
//  world 1: an nng_http_client transaction against a raw TCP server that answers with a generated response
//           (Content-Length or chunked with generated chunk sizes, extensions, trailers; or malformed) in a
//           generated segmentation.
// The reference side (request expectations, chunked decoder, head parser) is written from RFC 7230.
#include "pbt.hpp"
#include "nngh.h"
#include "rawpeer.h"
#include "wsref.hpp"
#include <nng/http.h>
#include <deque>
#include <unistd.h>

namespace {

using wsref::Bytes;

static const char kStatic[] = "static content, forty-two bytes long.....\n";

static void
echo_cb(nng_http *conn, void *arg, nng_aio *aio)
{
	(void) arg;
	void  *body = nullptr;
	size_t len  = 0;
	nng_http_get_body(conn, &body, &len);
	nng_err rv = nng_http_copy_body(conn, body, len);
	if (rv != 0) {
		nng_aio_finish(aio, rv);
		return;
	}
	nng_http_set_status(conn, NNG_HTTP_STATUS_OK, NULL);
	nng_http_set_header(conn, "Content-Type", "application/octet-stream");
	nng_aio_finish(aio, NNG_OK);
}

static void
wr_seg(rp *r, const Bytes &b, const std::vector<int> &seg)
{
	if (b.empty())
		return;
	if (seg.empty())
		rp_write(r, b.data(), b.size());
	else {
		std::vector<int> ch;
		size_t           tot = 0;
		for (size_t i = 0; tot < b.size() && ch.size() < 4000; i++) {
			int c = seg[i % seg.size()];
			ch.push_back(c);
			tot += (size_t) c;
		}
		rp_write_chunked(r, b.data(), b.size(), ch.data(), (int) ch.size());
	}
	vs_settle();
}

static void
pump(rp *r, Bytes &rx)
{
	vs_settle();
	rp_pump(r);
	uint8_t tmp[4096];
	size_t  n;
	while ((n = rp_consume(r, tmp, sizeof tmp)) > 0)
		rx.insert(rx.end(), tmp, tmp + n);
}

static Bytes
pattern(size_t n, uint32_t seed)
{
	Bytes b(n);
	for (size_t i = 0; i < n; i++)
		b[i] = (uint8_t) ((seed * 2654435761u + i * 40503u) >> 7);
	return b;
}

struct Expect {
	int   kind;        // request kind
	bool  good;        // must be answered 2xx
	int   status_lo, status_hi;
	bool  has_body;    // response carries a body (not HEAD)
	Bytes body;        // expected body for good requests
};

enum { RQ_GET_STATIC, RQ_HEAD_STATIC, RQ_POST_ECHO, RQ_GET_MISSING, RQ_GET_ECHO, RQ_POST_TOO_BIG, RQ_BAD_NO_VERSION, RQ_BAD_VERSION, RQ_BAD_HEADER, RQ_BAD_METHOD_SPACE, NRQ };

static void
build_request(int kind, size_t size, uint32_t serial, std::string &out, Expect &e)
{
	e.kind     = kind;
	e.good     = false;
	e.has_body = true;
	e.status_lo = 400;
	e.status_hi = 599;
	char cl[64];
	switch (kind) {
	case RQ_GET_STATIC:
		out += "GET /static HTTP/1.1\r\nHost: localhost\r\nX-Pad: ";
		out += std::string(size % 300, 'p');
		out += "\r\n\r\n";
		e.good = true;
		e.body.assign(kStatic, kStatic + sizeof kStatic - 1);
		break;
	case RQ_HEAD_STATIC:
		out += "HEAD /static HTTP/1.1\r\nHost: localhost\r\n\r\n";
		e.good     = true;
		e.has_body = false;
		break;
	case RQ_POST_ECHO: {
		Bytes b = pattern(size, serial);
		snprintf(cl, sizeof cl, "Content-Length: %zu\r\n", b.size());
		out += "POST /echo HTTP/1.1\r\nHost: localhost\r\n";
		out += cl;
		out += "\r\n";
		out.append((const char *) b.data(), b.size());
		e.good = true;
		e.body = b;
		break;
	}
	case RQ_GET_MISSING: out += "GET /no/such/thing HTTP/1.1\r\nHost: localhost\r\n\r\n"; break;
	case RQ_GET_ECHO: out += "GET /echo HTTP/1.1\r\nHost: localhost\r\n\r\n"; break;
	case RQ_POST_TOO_BIG: {
		Bytes b = pattern(65537 + size % 1000, serial);
		snprintf(cl, sizeof cl, "Content-Length: %zu\r\n", b.size());
		out += "POST /echo HTTP/1.1\r\nHost: localhost\r\n";
		out += cl;
		out += "\r\n";
		out.append((const char *) b.data(), b.size());
		break;
	}
	case RQ_BAD_NO_VERSION: out += "GET /static\r\nHost: localhost\r\n\r\n"; break;
	case RQ_BAD_VERSION: out += "GET /static HTTX/1.1\r\nHost: localhost\r\n\r\n"; break;
	case RQ_BAD_HEADER:
		// (the listed property names request lines, status lines and chunk sizes, not header lines: any answer is accepted)
		out += "GET /static HTTP/1.1\r\nHost: localhost\r\nthis line has no colon\r\n\r\n";
		e.status_lo = 200;
		break;
	default: out += "GET\r\nHost: localhost\r\n\r\n"; break;
	}
	if (e.good) {
		e.status_lo = 200;
		e.status_hi = 200;
	}
}

struct Resp {
	int         status = 0;
	wsref::Head head;
	Bytes       body;
	bool        wellformed = true;
};

// parse one response from rx at pos; head_only: no body follows (HEAD). 1 = parsed, 0 = incomplete
static int
parse_response(const Bytes &rx, size_t &pos, bool head_only, Resp &r)
{
	Bytes  rest(rx.begin() + (long) pos, rx.end());
	size_t he = wsref::head_end(rest);
	if (he == 0)
		return 0;
	r.head = wsref::parse_head(rest, he);
	int  maj = 0, min = 0, code = 0;
	char sp  = 0;
	if (sscanf(r.head.first.c_str(), "HTTP/%d.%d %d%c", &maj, &min, &code, &sp) < 3 || maj != 1 || code < 100 || code > 599)
		r.wellformed = false;
	if (!r.head.wellformed)
		r.wellformed = false;
	r.status       = code;
	size_t clen    = 0;
	std::string cl = r.head.get("Content-Length");
	if (!cl.empty()) {
		for (char ch : cl)
			if (ch < '0' || ch > '9')
				r.wellformed = false;
		clen = (size_t) strtoul(cl.c_str(), nullptr, 10);
	}
	if (head_only || code == 204 || code == 304 || (code >= 100 && code < 200))
		clen = 0;
	if (rest.size() - he < clen)
		return 0;
	r.body.assign(rest.begin() + (long) he, rest.begin() + (long) (he + clen));
	pos += he + clen;
	return 1;
}

int
exec_c16h(const vcase *vc)
{
	h_cfg cfg;
	if (vc->nops < 2 || strcmp(vc->ops[0].name, "cfg") != 0 || strcmp(vc->ops[1].name, "world") != 0)
		return 0;
	h_cfg_from_op(&cfg, &vc->ops[0]);
	cfg.task_threads = 3;
	int world        = (int) vop_arg(&vc->ops[1], 0, 0) ? 1 : 0;
	std::vector<int> seg;
	for (int i = 2; i < vc->nops; i++)
		if (strcmp(vc->ops[i].name, "seg") == 0)
			for (int k = 0; k < vc->ops[i].na && k < 12; k++) {
				long c = vop_arg(&vc->ops[i], k, 1);
				if (c >= 1 && c <= 100000)
					seg.push_back((int) c);
			}
	if (h_begin(&cfg) != 0)
		return 0;
	if (!seg.empty() && seg[0] < 40)
		vr_tag("finely_segmented");
	uint32_t serial = 1;
	if (world == 0) {
		vr_tag("http_server");
		nng_url         *url;
		nng_http_server *srv;
		nng_http_handler *h1, *h2;
		H_OK(nng_url_parse(&url, "http://127.0.0.1:0"));
		H_OK(nng_http_server_hold(&srv, url));
		H_OK(nng_http_handler_alloc_static(&h1, "/static", kStatic, sizeof kStatic - 1, "text/plain"));
		H_OK(nng_http_server_add_handler(srv, h1));
		H_OK(nng_http_handler_alloc(&h2, "/echo", echo_cb));
		nng_http_handler_set_method(h2, "POST");
		nng_http_handler_collect_body(h2, true, 65536);
		H_OK(nng_http_server_add_handler(srv, h2));
		H_OK(nng_http_server_start(srv));
		int port = 0;
		H_OK(nng_http_server_get_port(srv, &port));
		rp r;
		if (rp_connect_tcp(&r, port) != 0) {
			nng_http_server_stop(srv);
			nng_http_server_release(srv);
			nng_url_free(url);
			h_end();
			return 0;
		}
		vs_settle();
		std::string        stream;
		std::deque<Expect> exp;
		bool               poisoned = false; // a malformed request was queued: nothing after it is sent
		for (int i = 2; i < vc->nops && exp.size() < 12; i++) {
			const vop *o = &vc->ops[i];
			if (strcmp(o->name, "req") != 0 || poisoned)
				continue;
			int kind = (int) vop_arg(o, 0, 0);
			if (kind < 0 || kind >= NRQ)
				continue;
			Expect e;
			build_request(kind, (size_t) vop_arg(o, 1, 10), serial++, stream, e);
			exp.push_back(e);
			if (kind >= RQ_POST_TOO_BIG)
				poisoned = true;
			vr_tagf("rq_%d", kind);
		}
		wr_seg(&r, Bytes(stream.begin(), stream.end()), seg);
		Bytes  rx;
		size_t pos = 0, idx = 0;
		for (int t = 0; t < 400 && idx < exp.size(); t++) {
			pump(&r, rx);
			Resp rs;
			while (idx < exp.size() && parse_response(rx, pos, exp[idx].kind == RQ_HEAD_STATIC, rs) == 1) {
				const Expect &e = exp[idx];
				vr_trace("response %zu: '%s' content-length '%s' body %zu bytes: %.400s", idx, rs.head.first.c_str(), rs.head.get("Content-Length").c_str(), rs.body.size(),
				    rs.body.empty() ? "" : std::string((const char *) rs.body.data(), rs.body.size()).c_str());
				VR_CHECK(rs.wellformed, "C16:emitted-response", "response %zu to request kind %d is not well-formed: '%s'", idx, e.kind, rs.head.first.c_str());
				VR_CHECK(rs.status >= e.status_lo && rs.status <= e.status_hi, e.good ? "C16:good-request-refused" : "C16:bad-request-accepted",
				    "request %zu (kind %d): status %d, expected %d..%d", idx, e.kind, rs.status, e.status_lo, e.status_hi);
				if (e.good && e.has_body) {
					VR_CHECK(rs.body == e.body, "C16:http-body", "request %zu (kind %d): response body of %zu bytes differs from the expected %zu bytes", idx, e.kind, rs.body.size(),
					    e.body.size());
					VR_CHECK(!rs.head.get("Content-Length").empty(), "C16:emitted-response", "200 response without Content-Length");
				}
				if (e.good)
					vr_tag("good_answered");
				else
					vr_tag("error_status");
				idx++;
				rs = Resp();
			}
			if (r.eof)
				break;
			if (idx < exp.size())
				vs_sleep(1);
		}
		// every good request ahead of the first bad one must have been answered
		for (size_t k = idx; k < exp.size(); k++)
			VR_CHECK(!exp[k].good || (k > 0 && !exp[k - 1].good), "C16:http-no-response", "request %zu (kind %d, valid) was never answered (%zu of %zu answered, eof=%d)", k,
			    exp[k].kind, idx, exp.size(), r.eof);
		if (idx < exp.size() && !exp[idx].good)
			VR_CHECK(r.eof || idx + 1 >= exp.size(), "C16:http-no-response", "malformed request %zu got neither an error status nor a close", idx);
		if (exp.size() >= 2)
			vr_tag("pipelined");
		rp_close(&r);
		nng_http_server_stop(srv);
		nng_http_server_release(srv);
		nng_url_free(url);
	} else {
		vr_tag("http_client");
		int port = 0;
		int lfd  = rp_listen_tcp(&port);
		if (lfd < 0) {
			h_end();
			return 0;
		}
		char ub[64];
		snprintf(ub, sizeof ub, "http://127.0.0.1:%d/x", port);
		nng_url         *url;
		nng_http_client *cli;
		nng_aio         *aio;
		H_OK(nng_url_parse(&url, ub));
		H_OK(nng_http_client_alloc(&cli, url));
		H_OK(nng_aio_alloc(&aio, NULL, NULL));
		nng_aio_set_timeout(aio, 2000);
		nng_http_client_connect(cli, aio);
		rp   r;
		bool acc = false;
		for (int t = 0; t < 50 && !acc; t++) {
			vs_settle();
			if (rp_accept(&r, lfd, RP_TCP) == 0)
				acc = true;
			else
				vs_sleep(1);
		}
		close(lfd);
		nng_aio_wait(aio);
		if (!acc || nng_aio_result(aio) != 0) {
			if (acc)
				rp_close(&r);
			nng_aio_free(aio);
			nng_http_client_free(cli);
			nng_url_free(url);
			h_end();
			return 0;
		}
		nng_http *conn = (nng_http *) nng_aio_get_output(aio, 0);
		H_OK(nng_http_set_uri(conn, "/x", NULL));
		// round 7: "pad T" - a padding header sized so that the whole request head is exactly T bytes (T around the connection's
		// fixed 8160-byte buffer): the head is 16 + 2 + "Host: 127.0.0.1:<port>" + 2 + "X-Pad: " + L + 2 + 2 bytes long
		long padT = 0;
		for (int i = 2; i < vc->nops; i++)
			if (strcmp(vc->ops[i].name, "pad") == 0)
				padT = vop_arg(&vc->ops[i], 0, 0);
		if (padT > 0) {
			char hostv[64];
			snprintf(hostv, sizeof hostv, "Host: 127.0.0.1:%d", port);
			long fixed = 15 + 2 + (long) strlen(hostv) + 2 + 7 + 2 + 2;
			long L     = padT - fixed;
			if (L >= 1 && L < 20000) {
				std::string v((size_t) L, 'p');
				H_OK(nng_http_set_header(conn, "X-Pad", v.c_str()));
			} else
				padT = 0;
		}
		nng_http_transact(conn, aio);
		Bytes  rx;
		size_t he = 0;
		for (int t = 0; t < 100 && he == 0; t++) {
			pump(&r, rx);
			he = wsref::head_end(rx);
			if (he == 0)
				vs_sleep(1);
		}
		VR_CHECK(he != 0, "C16:no-request", "nng_http_transact sent no complete request%s", padT ? " (padded head)" : "");
		vr_trace("request head %zu bytes (pad target %ld)", he, padT);
		if (padT > 0) {
			if ((long) he == padT)
				vr_tag("padded_head_exact");
			if (he == 8160)
				vr_tag("head_fills_buffer_exactly");
			if (he > 8160)
				vr_tag("head_beyond_buffer");
		}
		wsref::Head rq = wsref::parse_head(rx, he);
		VR_CHECK(rq.wellformed && rq.first == "GET /x HTTP/1.1" && !rq.get("Host").empty(), "C16:emitted-request", "request '%s' (Host '%s')", rq.first.c_str(), rq.get("Host").c_str());
		vr_tag("request_checked");
		// the response
		const vop *ro = nullptr;
		for (int i = 2; i < vc->nops; i++)
			if (strcmp(vc->ops[i].name, "resp") == 0)
				ro = &vc->ops[i];
		int    code = ro ? (int) vop_arg(ro, 0, 200) : 200;
		int    enc  = ro ? (int) vop_arg(ro, 1, 0) : 0;  // 0 content-length, 1 chunked
		size_t size = ro ? (size_t) vop_arg(ro, 2, 10) : 10;
		int    bad  = ro ? (int) vop_arg(ro, 3, 0) : 0;  // 0 good; 1 bad chunk size digit; 2 missing CRLF after chunk data; 3 malformed status line; 4 header without colon
		long   shape = ro ? vop_arg(ro, 4, 3) : 3;       // chunking pattern seed
		if (code != 200 && code != 404 && code != 500)
			code = 200;
		if (size > 70000)
			size = 70000;
		if (bad < 0 || bad > 4)
			bad = 0;
		if ((bad == 1 || bad == 2) && enc == 0)
			enc = 1;
		Bytes       body = pattern(size, 99);
		std::string res;
		res += bad == 3 ? "HTTP/1.1 2x0 OK\r\n" : code == 200 ? "HTTP/1.1 200 OK\r\n" : code == 404 ? "HTTP/1.1 404 Not Found\r\n" : "HTTP/1.1 500 Oops\r\n";
		res += "Server: raw\r\n";
		if (bad == 4)
			res += "a header line without a colon\r\n";
		char tmp[64];
		if (enc == 0) {
			snprintf(tmp, sizeof tmp, "Content-Length: %zu\r\n\r\n", body.size());
			res += tmp;
			res.append((const char *) body.data(), body.size());
		} else {
			res += "Transfer-Encoding: chunked\r\n\r\n";
			size_t off = 0;
			int    k   = 0;
			bool   injected = false;
			while (off < body.size()) {
				size_t want = 1 + (size_t) ((shape * 7919 + k * 104729) % 3000);
				if (want > body.size() - off)
					want = body.size() - off;
				snprintf(tmp, sizeof tmp, (k & 1) ? "%zX" : "%zx", want);
				res += tmp;
				if (bad == 1 && !injected) {
					res += "g";
					injected = true;
				}
				if (k % 3 == 1)
					res += ";ext=1";
				res += "\r\n";
				res.append((const char *) body.data() + off, want);
				if (bad == 2 && !injected) {
					res += "xx";
					injected = true;
				} else
					res += "\r\n";
				off += want;
				k++;
			}
			if ((bad == 1 || bad == 2) && !injected)
				res += bad == 1 ? "zz\r\n" : "1\r\nAxx";
			res += "0\r\n";
			if (shape & 1)
				res += "X-Trailer: yes\r\n";
			res += "\r\n";
			if (k > 1)
				vr_tag("multi_chunk");
			vr_tag("chunked");
		}
		wr_seg(&r, Bytes(res.begin(), res.end()), seg);
		if (bad != 0)
			rp_shutdown_wr(&r); // nothing more will come: a parser waiting for more must not hang either
		vs_settle();
		nng_aio_wait(aio);
		int rv = nng_aio_result(aio);
		if (bad == 0) {
			VR_CHECK(rv == 0, "C16:http-transact", "a valid %s response (%zu body bytes, status %d) failed with %d (%s)", enc ? "chunked" : "content-length", body.size(), code, rv,
			    nng_strerror((nng_err) rv));
			VR_CHECK((int) nng_http_get_status(conn) == code, "C16:http-status", "status %d decoded as %d", code, (int) nng_http_get_status(conn));
			void  *bp = nullptr;
			size_t bl = 0;
			nng_http_get_body(conn, &bp, &bl);
			VR_CHECK(bl == body.size() && (bl == 0 || memcmp(bp, body.data(), bl) == 0), "C16:http-body", "decoded body of %zu bytes differs from the %zu bytes sent (%s)", bl, body.size(),
			    enc ? "chunked" : "content-length");
			vr_tag("good_answered");
		} else {
			VR_CHECK(rv != 0, "C16:bad-response-accepted", "malformed response variant %d was accepted (status %d)", bad, (int) nng_http_get_status(conn));
			vr_tag("error_status");
		}
		nng_http_close(conn);
		rp_close(&r);
		nng_aio_free(aio);
		nng_http_client_free(cli);
		nng_url_free(url);
	}
	h_end();
	return 0;
}

using namespace rc;

std::string
gen_c16h()
{
	std::ostringstream t;
	int mode = *pbt::welem<int>({{4, 0}, {2, 1}, {1, 2}, {1, 3}});
	t << "cfg " << *pbt::range<int>(1, 1000000) << " " << mode << " " << (mode == 3 ? *gen::element(5, 20, 50) : *gen::element(10, 30, 60)) << " " << *pbt::range<int>(0, 3) << " " << (mode == 3 ? *gen::element(60, 150, 400) : 600) << " 0\n";
	int world = *pbt::range<int>(0, 1);
	t << "world " << world << "\n";
	if (*pbt::welem<int>({{1, 0}, {5, 1}})) {
		auto seg = *gen::container<std::vector<int>>(gen::element(1, 1, 2, 3, 5, 7, 16, 17, 19, 60, 1000, 65536));
		if (!seg.empty()) {
			t << "seg";
			for (size_t i = 0; i < seg.size() && i < 12; i++)
				t << " " << seg[i];
			t << "\n";
		}
	}
	if (world == 0) {
		auto reqs = *gen::container<std::vector<std::string>>(gen::exec([]() {
			std::ostringstream o;
			o << "req " << *pbt::welem<int>({{4, 0}, {2, 1}, {4, 2}, {2, 3}, {1, 4}, {1, 5}, {1, 6}, {1, 7}, {1, 8}, {1, 9}}) << " " << *gen::element(0, 1, 10, 299, 4000, 8191, 8192, 65536);
			return o.str();
		}));
		for (auto &l : reqs)
			t << l << "\n";
	} else {
		if (*pbt::welem<int>({{2, 0}, {1, 1}}))
			t << "pad " << *gen::element(8158, 8159, 8160, 8160, 8161, 8162, 200, 4000, 8192, 9000) << "\n";
		t << "resp " << *gen::element(200, 200, 404, 500) << " " << *pbt::range<int>(0, 1) << " " << *gen::element(0, 1, 10, 2999, 3000, 3001, 8192, 70000) << " "
		  << *pbt::welem<int>({{6, 0}, {1, 1}, {1, 2}, {1, 3}, {1, 4}}) << " " << *pbt::range<int>(0, 1000) << "\n";
	}
	return t.str();
}

} // namespace

int
main(int argc, char **argv)
{
	pbt::PropSpec sp;
	sp.id         = "C16H";
	sp.gen        = gen_c16h;
	sp.exec       = exec_c16h;
	sp.watchdog_s = 90;
	sp.rule = "world 0: nng_http_server (static handler, POST echo handler collecting up to 64 KiB) and a raw TCP client sending a pipeline of up to 12 requests "
	          "(GET / HEAD static, POST echo with 0..65536-byte bodies, unknown path, wrong method, oversized body, request line without version, bad version "
	          "token, header line without colon, bare method) in generated segmentations; world 1: nng_http_client transaction (request head padded to 8158..8162 / 8192 / 9000 bytes around the connection's fixed 8160-byte buffer in a third of the cases) against a raw TCP server "
	          "answering with status 200/404/500 and a 0..70000-byte body by Content-Length or chunked (generated chunk sizes, upper/lower-case hex, "
	          "extensions, trailers) or malformed (bad chunk-size digit, missing CRLF after chunk data, malformed status line, header without colon), in "
	          "generated segmentations. Oracle: valid requests get 200 with the exact body, invalid ones an error status or a close, responses nng emits are "
	          "well-formed; valid responses decode to the exact status and body, malformed ones fail the transaction. Non-trivial = fine segmentation with a "
	          "pipeline, a chunked body or a malformed message; distinct by case hash";
	sp.nontrivial = [](const std::set<std::string> &t) { return t.count("finely_segmented") && (t.count("pipelined") || t.count("chunked") || t.count("error_status")); };
	return pbt::pbt_main(argc, argv, sp);
}
