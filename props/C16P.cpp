// C16P: the HTTP/1.1 chunked-body parser (nni_http_chunks_parse) decodes the same body however the stream is cut,
// agrees with a strict reference decoder on well-formed streams and rejects malformed ones.  In-process.
#include "pbt.hpp"
#include "chunk_oracle.hpp"

namespace {

int
exec_c16p(const vcase *vc)
{
	for (int i = 0; i < vc->nops; i++) {
		const vop *o = &vc->ops[i];
		if (strcmp(o->name, "in") != 0 || o->nd < 1)
			continue;
		vr_at(i, o->name);
		size_t              maxsz = (size_t) vop_arg(o, 0, 0);
		std::vector<size_t> cuts;
		for (int k = 1; k < o->na; k++)
			if (o->a[k] > 0 && (cuts.empty() || (size_t) o->a[k] > cuts.back()))
				cuts.push_back((size_t) o->a[k]);
		std::string in((const char *) o->d[0], o->dl[0]);
		if (!cuts.empty())
			vr_tag("split");
		chko::check(in, maxsz, cuts);
	}
	return 0;
}

using namespace rc;

std::string
gen_c16p()
{
	std::string s;
	std::vector<size_t> marks; // interesting cut positions: inside size lines, around CRLFs
	int  nchunks = *pbt::welem<int>({{1, 0}, {4, 1}, {4, 2}, {2, 3}, {1, 6}});
	int  mutate  = *pbt::welem<int>({{9, 0}, {1, 1}, {1, 2}, {1, 3}, {1, 4}, {1, 5}, {1, 6}, {1, 7}, {1, 8}, {1, 9}, {1, 10}, {1, 11}});
	int  mutat   = nchunks > 0 ? *pbt::range<int>(0, nchunks - 1) : 0; // which chunk carries the mutation
	size_t total = 0;
	auto crlf = [&](bool bad) {
		marks.push_back(s.size());
		s += bad ? "\n" : "\r\n";
		marks.push_back(s.size() - 1);
	};
	for (int c = 0; c < nchunks; c++) {
		size_t sz = (size_t) *pbt::welem<int>({{3, 1}, {3, 2}, {2, 9}, {2, 15}, {2, 16}, {2, 17}, {1, 255}, {1, 256}, {1, 4095}, {1, 4096}, {1, 70000}});
		char   hx[40];
		int    style = *pbt::range<int>(0, 3);
		snprintf(hx, sizeof hx, style == 0 ? "%zx" : style == 1 ? "%zX" : style == 2 ? "000%zx" : "%zx", sz);
		marks.push_back(s.size());
		std::string line = hx;
		bool        m    = mutate && c == mutat;
		if (m && mutate == 1)
			line += "g"; // not a hex digit
		if (m && mutate == 2)
			line = ""; // no size at all
		if (m && mutate == 9)
			line = "ffffffffffffffffff"; // overflows size_t
		s += line;
		marks.push_back(s.size());
		if (*pbt::range<int>(0, 3) == 0) {
			s += *gen::element<std::string>(";", ";name=value", ";a;b;c", "; x=\"q\"");
			if (m && mutate == 3)
				s += "\x01"; // control character in an extension
		}
		crlf(m && mutate == 4);
		size_t dstart = s.size();
		for (size_t k = 0; k < sz; k++)
			s += (char) ((k * 7 + c * 31 + (k >> 8)) & 0xff);
		marks.push_back(dstart + sz / 2);
		if (m && mutate == 5)
			s += "x"; // one data byte too many before the terminator
		if (m && mutate == 6)
			s.pop_back(); // one too few
		if (m && mutate == 10)
			s += "\rX"; // only the second terminator byte is wrong
		else if (m && mutate == 11)
			s += "X\n"; // only the first terminator byte is wrong
		else
			crlf(m && mutate == 7);
		total += sz;
	}
	// last chunk and trailers
	marks.push_back(s.size());
	s += *gen::element<std::string>("0", "00", "0;last");
	crlf(false);
	int ntr = *pbt::welem<int>({{4, 0}, {2, 1}, {1, 2}});
	for (int t = 0; t < ntr; t++) {
		s += *gen::element<std::string>("X-Trailer: 1", "Expires: never", "a:b");
		if (mutate == 8 && t == 0)
			s += "\x7f";
		crlf(false);
	}
	crlf(false);
	int tail = *pbt::welem<int>({{6, 0}, {2, 1}, {2, 2}});
	if (tail == 1)
		s += "GET / HTTP/1.1\r\n"; // bytes of the next message must be left alone
	if (tail == 2 && s.size() > 1)
		s.resize((size_t) *pbt::range<int>(0, (int) s.size() - 1)); // truncated stream
	size_t maxsz = 0;
	switch (*pbt::range<int>(0, 5)) {
	case 0: maxsz = total; break;
	case 1: maxsz = total > 0 ? total - 1 : 1; break;
	case 2: maxsz = total + 1; break;
	case 3: maxsz = 10; break;
	default: maxsz = 0; break;
	}
	// cuts: a generated mixture of interesting marks and arbitrary positions; sometimes every byte boundary of a short stream
	std::vector<size_t> cuts;
	int                 style = *pbt::range<int>(0, 3);
	if (style == 0 && s.size() <= 40) {
		for (size_t k = 1; k < s.size(); k++)
			cuts.push_back(k);
	} else if (style != 3) {
		int nc = *pbt::range<int>(1, 10);
		for (int k = 0; k < nc; k++) {
			if (!marks.empty() && *pbt::range<int>(0, 2)) {
				size_t mk = marks[(size_t) *pbt::range<int>(0, (int) marks.size() - 1)];
				cuts.push_back(mk + (size_t) *pbt::range<int>(0, 2));
			} else if (s.size() > 1)
				cuts.push_back((size_t) *pbt::range<int>(1, (int) s.size() - 1));
		}
		std::sort(cuts.begin(), cuts.end());
		cuts.erase(std::unique(cuts.begin(), cuts.end()), cuts.end());
	}
	if (cuts.size() > 40)
		cuts.resize(40);
	std::ostringstream t;
	t << "in " << maxsz;
	for (auto c : cuts)
		if (c > 0 && c < s.size())
			t << " " << c;
	t << " " << pbt::hexs(std::vector<uint8_t>(s.begin(), s.end())) << "\n";
	return t.str();
}

} // namespace

int
main(int argc, char **argv)
{
	pbt::PropSpec sp;
	sp.id         = "C16P";
	sp.gen        = gen_c16p;
	sp.exec       = exec_c16p;
	sp.child_init = [] { nng_init(NULL); };
	sp.rule = "chunked bodies from the RFC 9112 grammar (0..6 chunks of 1..70000 bytes, upper / lower case and zero-padded sizes, extensions, trailers, optional bytes of a next "
	          "message, optional truncation) with one of eleven mutations (non-hex size, missing size, control characters, bare LF, data one byte long / short, missing terminator, "
	          "terminator with exactly one wrong byte, overflowing size) and a size limit at / below / above the body size, fed to nni_http_chunks_parse in one piece and cut at generated positions (every byte boundary "
	          "for short streams, otherwise biased to size lines and CRLFs). Oracle: same verdict, consumed count and body for every segmentation (metamorphic); agreement with a "
	          "strict reference decoder (differential): well-formed => decoded exactly, truncated => needs more, malformed / over the limit => error, never delivery. "
	          "Non-trivial = the stream was cut at least once; distinct by case hash";
	sp.nontrivial = [](const std::set<std::string> &t) { return t.count("split") > 0; };
	return pbt::pbt_main(argc, argv, sp);
}
