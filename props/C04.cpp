// C04: REQ/REP - replies reach only the matching outstanding request; REP replies go to the
// connection and backtrace of the most recently received request; state machines reject misuse.
// World 0: REQ socket + contexts under test against raw REP wire peers (crafted reply ids).
// World 1: REP socket + contexts under test against raw REQ wire peers (backtraces, order).
#include "pbt.hpp"
#include "nngh.h"
#include "rawpeer.h"
#include <deque>

namespace {

using Bytes = std::vector<uint8_t>;

static void
put32(Bytes &b, uint32_t v)
{
	b.push_back(v >> 24);
	b.push_back(v >> 16);
	b.push_back(v >> 8);
	b.push_back(v);
}
static uint32_t
get32(const uint8_t *p)
{
	return ((uint32_t) p[0] << 24) | (p[1] << 16) | (p[2] << 8) | p[3];
}

struct AioBox {
	nng_aio *aio  = nullptr;
	int      done = 0;
};
static void
box_cb(void *arg)
{
	((AioBox *) arg)->done++;
}

// ======================================================================= World 0: REQ under test
enum { IDLE, QUEUED, OUTSTANDING, ANSWERED };

struct ReqCtx {
	bool     open = false;
	nng_ctx  ctx;
	int      st      = IDLE;
	uint32_t tag     = 0;       // body tag of the current request
	uint32_t id      = 0;       // wire id once a peer has read it (0 = not seen yet)
	uint32_t prev_id = 0;       // id of the previous (superseded/cancelled/answered) request
	uint32_t reply   = 0;       // tag of the stashed reply when ANSWERED
	uint32_t pred_id = 0;       // id this request is expected to carry (ids are issued sequentially), 0 = unknown
	AioBox   sndbox[2], rcv; // two send aios: a new request may be submitted while the old send is still queued
	int      cur         = 0;
	bool     snd_pending = false, rcv_pending = false;
};
#define snd sndbox[C.cur]

struct ReqWorld {
	nng_socket   s;
	nng_listener l;
	ReqCtx       c[4];
	rp           peer[2];
	bool         peer_up[2] = {false, false};
	uint32_t     seq        = 0;
	uint32_t     rseq       = 0;
	uint32_t     maxid      = 0;
	std::map<uint32_t, int> wire; // id -> ctx slot, for every request frame a peer has read
	int          delivered = 0, discarded = 0;
	// jam: the wire peer stops reading, so nng's pipe stays busy with a half-written request and later requests
	// wait in the REQ send queue although a connection exists
	bool         jammed   = false;
	bool         pred_ok  = true;
	uint32_t     last_alloc = 0; // highest request id known to have been issued
	// every request submission draws the next id of one sequence: once any frame has been read, the id of every
	// submission (also of those cancelled before they reached the wire) follows from its position
	std::map<uint32_t, long> subm; // tag -> submission index
	long                     nsubm = 0;
	bool                     base_known = false;
	long                     base_idx = 0;
	uint32_t                 base_id  = 0;
	uint32_t predict(long idx) const
	{
		if (!base_known || !pred_ok)
			return 0;
		long long v = (long long) base_id + (idx - base_idx);
		if (v <= 0x80000000ll || v > 0xfffffff0ll)
			return 0;
		return (uint32_t) v;
	}
};

static int
npeers(ReqWorld &W)
{
	return (int) W.peer_up[0] + (int) W.peer_up[1];
}

static void
req_submit_send(ReqWorld &W, int k, nng_msg *m)
{
	ReqCtx &C = W.c[k];
	if (!C.snd.aio)
		H_OK(nng_aio_alloc(&C.snd.aio, box_cb, &C.snd));
	C.snd.done = 0;
	nng_aio_set_timeout(C.snd.aio, NNG_DURATION_INFINITE);
	nng_aio_set_msg(C.snd.aio, m);
	if (k == 0)
		nng_socket_send(W.s, C.snd.aio);
	else
		nng_ctx_send(C.ctx, C.snd.aio);
}

static void
req_submit_recv(ReqWorld &W, int k, nng_duration tmo)
{
	ReqCtx &C = W.c[k];
	if (!C.rcv.aio)
		H_OK(nng_aio_alloc(&C.rcv.aio, box_cb, &C.rcv));
	C.rcv.done = 0;
	nng_aio_set_timeout(C.rcv.aio, tmo);
	if (k == 0)
		nng_socket_recv(W.s, C.rcv.aio);
	else
		nng_ctx_recv(C.ctx, C.rcv.aio);
}

// peers read whatever nng wrote; learn the ids of the requests on the wire
static void req_peers_read1(ReqWorld &W, bool *progress);
// read until nng has nothing more to write: a large request on a small kernel buffer needs several rounds
static void
req_peers_read(ReqWorld &W)
{
	if (W.jammed)
		return;
	for (int round = 0; round < 200; round++) {
		bool progress = false;
		req_peers_read1(W, &progress);
		if (!progress)
			break;
		vs_settle();
	}
}

static void
req_peers_read1(ReqWorld &W, bool *progress)
{
	for (int p = 0; p < 2; p++) {
		if (!W.peer_up[p])
			continue;
		for (;;) {
			uint8_t *pl;
			size_t   pn;
			long     rd0 = W.peer[p].rd_total;
			int      g   = rp_recv_msg(&W.peer[p], &pl, &pn);
			if (W.peer[p].rd_total != rd0)
				*progress = true;
			VR_CHECK(g >= 0, "C04:wire-garbage", "REQ wrote a malformed frame");
			if (g == 0)
				break;
			VR_CHECK(pn >= 8, "C04:wire-request-shape", "request frame of %zu bytes, expected id + body", pn);
			uint32_t id = get32(pl), tag = get32(pl + 4);
			for (size_t q = 8; q < pn; q++)
				VR_CHECK(pl[q] == (uint8_t) (tag * 31 + (q - 8) * 7), "C04:wire-body", "request body padding corrupted at offset %zu", q - 8);
			free(pl);
			if (id > W.last_alloc)
				W.last_alloc = id;
			if (W.subm.count(tag)) {
				if (W.base_known && W.predict(W.subm[tag]) != 0 && W.predict(W.subm[tag]) != id) {
					W.pred_ok = false; // the sequence assumption does not hold (wrapped id space): no more predictions
					vr_tag("id_prediction_off");
				}
				W.base_known = true;
				W.base_idx   = W.subm[tag];
				W.base_id    = id;
			}
			VR_CHECK(id & 0x80000000u, "C04:request-id-bit", "request id %x lacks the high bit", id);
			int k = (int) (tag >> 24);
			VR_CHECK(k >= 0 && k < 4, "C04:wire-body", "request body corrupted (%x)", tag);
			ReqCtx &C = W.c[k];
			auto    w = W.wire.find(id);
			if (w != W.wire.end())
				VR_CHECK(w->second == k, "C04:id-reuse", "request id %x used by context %d and %d", id, w->second, k);
			W.wire[id] = k;
			W.maxid    = std::max(W.maxid, id);
			if (C.open && C.tag == tag && (C.st == QUEUED || C.st == OUTSTANDING)) {
				if (C.id != 0 && C.id == C.pred_id && C.id != id) {
					W.pred_ok = false; // the harness mispredicted an id: predictions are not used any more
					vr_tag("id_prediction_off");
				} else if (C.id != 0)
					VR_CHECK(C.id == id, "C04:id-changed", "retransmission of request %x carries id %x, first transmission %x", tag, id, C.id);
				C.id = id;
				C.st = OUTSTANDING;
			}
			// (frames of superseded/cancelled requests may still be read: their ids stay unknown to the model -> stale)
		}
		if (W.peer[p].eof) {
			rp_close(&W.peer[p]);
			W.peer_up[p] = false;
		}
	}
}

static void
req_harvest_sends(ReqWorld &W)
{
	// completion of pending sends: with a peer attached every queued request is written at quiescence
	for (int k = 0; k < 4; k++) {
		ReqCtx &C = W.c[k];
		if (!C.open)
			continue;
		if (C.snd_pending && C.snd.done) {
			int rv = nng_aio_result(C.snd.aio);
			C.snd_pending = false;
			if (rv != 0) {
				nng_msg *m = nng_aio_get_msg(C.snd.aio);
				VR_CHECK(m != nullptr && at_is_live(m), "C04:failed-send-lost-message", "context %d: send failed with %d but the message is gone", k, rv);
				nng_msg_free(m);
				nng_aio_set_msg(C.snd.aio, NULL);
			}
		}
	}
}

static void
req_after_settle(ReqWorld &W)
{
	req_harvest_sends(W);
	if (W.jammed)
		for (int k = 0; k < 4; k++) {
			ReqCtx &C = W.c[k];
			if (C.open && C.st == QUEUED && !C.snd_pending && C.pred_id != 0 && C.id == 0) {
				C.id = C.pred_id;
				C.st = OUTSTANDING;
			}
		}
	req_peers_read(W);
	req_harvest_sends(W); // (draining a large request lets queued sends complete)
	req_peers_read(W);
	if (npeers(W) > 0)
		for (int k = 0; k < 4; k++)
			if (W.c[k].open && W.c[k].st == QUEUED && !W.c[k].snd_pending && W.c[k].id != 0)
				W.c[k].st = OUTSTANDING;
}

static void
req_finish_recv(ReqWorld &W, int k, const char *how)
{
	ReqCtx &C = W.c[k];
	if (!(C.rcv_pending && C.rcv.done))
		return;
	C.rcv_pending = false;
	int rv        = nng_aio_result(C.rcv.aio);
	if (rv == 0) {
		nng_msg *m = nng_aio_get_msg(C.rcv.aio);
		uint32_t body = nng_msg_len(m) >= 4 ? get32((uint8_t *) nng_msg_body(m)) : 0;
		VR_CHECK(C.st == ANSWERED, "C04:unexpected-reply", "%s: context %d received reply %x although no matching reply is due (state %d)", how, k, body, C.st);
		VR_CHECK(nng_msg_len(m) == 4 && body == C.reply, "C04:wrong-reply", "%s: context %d received reply %x, the matching reply was %x", how, k, body, C.reply);
		nng_msg_free(m);
		C.st = IDLE;
		W.delivered++;
		vr_tag("delivered");
	}
}

int
exec_req(const vcase *vc)
{
	ReqWorld W;
	H_OK(nng_req0_open(&W.s));
	H_OK(nng_listener_create(&W.l, W.s, "socket://"));
	H_OK(nng_listener_start(W.l, 0));
	W.c[0].open = true;
	auto attach = [&](int p) {
		H_OK(rp_attach_socket(&W.peer[p], W.l));
		uint16_t pp = 0;
		int      hr = rp_handshake(&W.peer[p], SP_REP, &pp);
		VR_CHECK(hr == 0 && pp == SP_REQ, "harness:handshake", "req wire handshake %d %x", hr, pp);
		vs_settle();
		W.peer_up[p] = true;
	};
	for (int i = 2; i < vc->nops; i++) {
		const vop  *o = &vc->ops[i];
		std::string n = o->name;
		vr_at(i, o->name);
		int k = (int) vop_arg(o, 0, 0), a1 = (int) vop_arg(o, 1, 0), a2 = (int) vop_arg(o, 2, 0);
		if (n == "rtime") { // rtime ctx ms : resend time of one context
			if (k < 0 || k > 3 || !W.c[k].open || a1 < 1)
				continue;
			if (k == 0)
				H_OK(nng_socket_set_ms(W.s, NNG_OPT_REQ_RESENDTIME, a1));
			else
				H_OK(nng_ctx_set_ms(W.c[k].ctx, NNG_OPT_REQ_RESENDTIME, a1));
			continue;
		}
		if (n == "rtick") {
			H_OK(nng_socket_set_ms(W.s, NNG_OPT_REQ_RESENDTICK, k > 0 && k <= 1000 ? k : 1000));
			continue;
		}
		if (n == "wait") { // virtual time passes (resend timers fire)
			vs_sleep(k > 0 && k <= 200 ? k : 1);
			vs_settle();
			req_after_settle(W);
			continue;
		}
		if (n == "jam") {
			// needs exactly one connection, nothing queued, and a known id sequence
			bool busy = false;
			for (int j = 0; j < 4; j++)
				if (W.c[j].open && (W.c[j].snd_pending || W.c[j].st == QUEUED))
					busy = true;
			if (W.jammed || npeers(W) != 1 || busy || W.predict(W.nsubm + 4) == 0)
				continue;
			req_peers_read(W);
			W.jammed = true;
			vr_tag("jammed");
			continue;
		}
		if (n == "unjam") {
			if (!W.jammed)
				continue;
			W.jammed = false;
			req_after_settle(W);
			continue;
		}
		if (W.jammed && (n == "attach" || n == "detach"))
			continue;
		if (n == "attach") {
			if (k < 0 || k > 1 || W.peer_up[k])
				continue;
			rp_socket_sndbuf = a1 ? 1 : 0;
			attach(k);
			rp_socket_sndbuf = 0;
			req_after_settle(W);
			continue;
		}
		if (n == "detach") {
			if (k < 0 || k > 1 || !W.peer_up[k])
				continue;
			req_peers_read(W);
			rp_close(&W.peer[k]);
			W.peer_up[k] = false;
			vs_settle();
			// requests that were outstanding on that pipe are queued again (resend time > 0) and go out on the
			// next ready pipe with the same id
			req_after_settle(W);
			vr_tag("peer_lost");
			continue;
		}
		if (n == "reply") { // reply peer kind ctx
			int p = k;
			if (p < 0 || p > 1 || !W.peer_up[p] || a2 < 0 || a2 > 3)
				continue;
			req_peers_read(W);
			ReqCtx  &C    = W.c[a2];
			uint32_t id   = 0;
			bool     shrt = false;
			int      dup  = 1;
			switch (a1) {
			case 0: id = C.id; break;                               // current id of ctx (0 if none known)
			case 1: id = C.prev_id; break;                          // stale id
			case 2: id = 0x80000000u | ((W.maxid + 7) & 0x7fffffffu); break; // never issued
			case 3: id = 0x80000000u | ((W.maxid + 1) & 0x7fffffffu); break; // predicted next
			case 4: id = C.id & 0x7fffffffu; break;                 // without the request bit
			case 5: shrt = true; break;                             // malformed: shorter than an id
			case 6: id = C.id; dup = 2; break;                      // duplicated reply
			case 7: // a neighbour of a known id: ids are issued sequentially, so this hits ids of requests that were
				// cancelled or superseded before they ever reached the wire
				id = 0x80000000u | (((C.id ? C.id : W.maxid) + (uint32_t) (W.rseq % 7) - 3) & 0x7fffffffu);
				break;
			case 8: // the id the context's current request will carry / carries, known from the sequence although no peer has read it
				id = W.pred_ok ? C.pred_id : 0;
				if (id != 0 && C.open && C.st == QUEUED && C.snd_pending)
					vr_tag("reply_to_request_still_queued");
				break;
			default: continue;
			}
			if (!shrt && id == 0)
				continue;
			for (int d = 0; d < dup; d++) {
				Bytes    f;
				uint32_t rtag = 0x52000000u | ++W.rseq;
				if (shrt) {
					f.assign((size_t) (a2 % 4), 0xAB);
				} else {
					put32(f, id);
					put32(f, rtag);
				}
				int wr = rp_send_msg(&W.peer[p], f.data(), f.size());
				VR_CHECK(wr == 0, "harness:write", "raw reply write failed %d", wr);
				vs_settle();
				if (shrt) {
					rp_pump(&W.peer[p]);
					VR_CHECK(W.peer[p].eof, "C04:malformed-reply-not-disconnected", "peer that sent a %zu-byte reply frame was not disconnected", f.size());
					rp_close(&W.peer[p]);
					W.peer_up[p] = false;
					vr_tag("malformed_reply");
					break;
				}
				// model: which context does this id answer?
				int target = -1;
				for (int j = 0; j < 4; j++)
					if (W.c[j].open && W.c[j].st == OUTSTANDING && W.c[j].id == id)
						target = j;
				if (target >= 0) {
					ReqCtx &T = W.c[target];
					T.st      = ANSWERED;
					T.reply   = rtag;
					T.prev_id = T.id;
					T.id      = 0;
					if (T.rcv_pending) {
						VR_CHECK(T.rcv.done == 1, "C04:reply-not-delivered", "context %d has a receive pending and its reply arrived, but the receive did not complete", target);
						req_finish_recv(W, target, "pending receive");
					}
					vr_tag("reply_matched");
				} else {
					W.discarded++;
					vr_tag("reply_discarded");
					if (a1 == 1)
						vr_tag("stale_reply");
					if (a1 == 6 && d == 1)
						vr_tag("duplicate_reply");
				}
				// no context may complete a receive because of a non-matching reply
				for (int j = 0; j < 4; j++)
					if (W.c[j].open && W.c[j].rcv_pending && W.c[j].rcv.done && j != target) {
						int rr = nng_aio_result(W.c[j].rcv.aio);
						if (rr == 0) {
							nng_msg *m = nng_aio_get_msg(W.c[j].rcv.aio);
							vr_fail("C04:misrouted-reply", "reply with id %x (kind %d, for context %d) completed the receive of context %d with body %x", id, a1,
							    a2, j, nng_msg_len(m) >= 4 ? get32((uint8_t *) nng_msg_body(m)) : 0);
						}
					}
			}
			req_after_settle(W);
			continue;
		}
		if (k < 0 || k > 3)
			continue;
		ReqCtx &C = W.c[k];
		if (n == "ctxopen") {
			if (k == 0 || C.open)
				continue;
			H_OK(nng_ctx_open(&C.ctx, W.s));
			C.open = true;
			C.st   = IDLE;
			H_OK(nng_ctx_set_ms(C.ctx, NNG_OPT_REQ_RESENDTIME, 60000));
			vr_tag("ctx");
			continue;
		}
		if (!C.open)
			continue;
		if (n == "send") {
			// a new request supersedes everything on this context
			if (C.rcv_pending)
				vr_tag("send_cancels_recv");
			if (C.st == OUTSTANDING || C.st == QUEUED)
				vr_tag("superseded");
			if (C.id)
				C.prev_id = C.id;
			bool had_rcv = C.rcv_pending, had_snd = C.snd_pending;
			AioBox  *oldb = &C.sndbox[C.cur];
			if (had_snd)
				C.cur ^= 1; // keep the queued send's aio alive, submit the new request on the other one
			uint32_t tag = ((uint32_t) k << 24) | ++W.seq;
			nng_msg *m   = h_msg(tag, W.jammed ? 20000 : 0);
			req_submit_send(W, k, m);
			W.subm[tag]   = W.nsubm++;
			uint32_t pred = W.predict(W.subm[tag]);
			vs_settle();
			if (had_snd) {
				VR_CHECK(oldb->done == 1 && nng_aio_result(oldb->aio) == NNG_ECANCELED, "C04:superseded-send-result",
				    "superseded pending send: done=%d result=%d", oldb->done, oldb->done ? nng_aio_result(oldb->aio) : -1);
				nng_msg *om = nng_aio_get_msg(oldb->aio);
				VR_CHECK(om != nullptr && at_is_live(om), "C04:failed-send-lost-message", "superseded send did not return its message");
				nng_msg_free(om);
				nng_aio_set_msg(oldb->aio, NULL);
			}
			C.snd_pending = !C.snd.done;
			if (C.snd.done) {
				int rv = nng_aio_result(C.snd.aio);
				VR_CHECK(rv == 0, "C04:send-result", "request send on context %d -> %d", k, rv);
			} else
				VR_CHECK(npeers(W) == 0 || W.jammed, "C04:send-stuck", "request send on context %d did not complete although a peer is connected", k);
			C.tag     = tag;
			C.pred_id = pred;
			C.id  = 0;
			C.st  = QUEUED;
			if (had_rcv) {
				VR_CHECK(C.rcv.done == 1 && nng_aio_result(C.rcv.aio) == NNG_ECANCELED, "C04:superseded-recv-result",
				    "new request did not cancel the pending receive (done=%d rv=%d)", C.rcv.done, C.rcv.done ? nng_aio_result(C.rcv.aio) : -1);
				C.rcv_pending = false;
			}
			req_after_settle(W);
		} else if (n == "nbsend") {
			// round 7: a request REFUSED at submission (zero timeout while no connection exists): the message stays with the
			// caller, whatever the context was doing is abandoned, and the context is idle - a receive must fail with NNG_ESTATE
			if (npeers(W) != 0 || W.jammed || C.snd_pending || C.rcv_pending)
				continue;
			uint32_t tag = ((uint32_t) k << 24) | ++W.seq;
			nng_msg *m   = h_msg(tag, 0);
			AioBox   b;
			H_OK(nng_aio_alloc(&b.aio, box_cb, &b));
			nng_aio_set_timeout(b.aio, 0);
			nng_aio_set_msg(b.aio, m);
			if (k == 0)
				nng_socket_send(W.s, b.aio);
			else
				nng_ctx_send(C.ctx, b.aio);
			nng_aio_wait(b.aio);
			int rv        = nng_aio_result(b.aio);
			W.subm[tag]   = W.nsubm++; // (the refused submission drew a request id as well)
			nng_msg *back = nng_aio_get_msg(b.aio);
			VR_CHECK(rv == NNG_ETIMEDOUT, "C04:refused-send-result", "zero-timeout request with no connection on context %d -> %d, expected NNG_ETIMEDOUT", k, rv);
			VR_CHECK(back == m && at_is_live(m), "C04:failed-send-lost-message", "refused send did not leave its message with the caller");
			nng_msg_free(m);
			nng_aio_free(b.aio);
			if (C.id)
				C.prev_id = C.id;
			C.id = 0;
			C.st = IDLE;
			vr_tag("refused_send");
			vs_settle();
		} else if (n == "recv") { // non-blocking receive
			if (C.rcv_pending) {
				// second concurrent receive must fail with ESTATE and leave the first alone
				AioBox b2;
				H_OK(nng_aio_alloc(&b2.aio, box_cb, &b2));
				nng_aio_set_timeout(b2.aio, 0);
				if (k == 0)
					nng_socket_recv(W.s, b2.aio);
				else
					nng_ctx_recv(C.ctx, b2.aio);
				nng_aio_wait(b2.aio);
				VR_CHECK(nng_aio_result(b2.aio) == NNG_ESTATE, "C04:second-recv", "second concurrent receive -> %d, expected NNG_ESTATE", nng_aio_result(b2.aio));
				nng_aio_free(b2.aio);
				vr_tag("second_recv_estate");
				continue;
			}
			req_submit_recv(W, k, 0);
			nng_aio_wait(C.rcv.aio);
			int rv = nng_aio_result(C.rcv.aio);
			switch (C.st) {
			case IDLE:
				VR_CHECK(rv == NNG_ESTATE, "C04:recv-before-send", "receive with no request outstanding -> %d, expected NNG_ESTATE", rv);
				vr_tag("recv_estate");
				break;
			case QUEUED:
			case OUTSTANDING:
				if (rv == 0) {
					nng_msg *m = nng_aio_get_msg(C.rcv.aio);
					vr_fail("C04:unexpected-reply", "context %d received %x but no matching reply was sent", k, nng_msg_len(m) >= 4 ? get32((uint8_t *) nng_msg_body(m)) : 0);
				}
				VR_CHECK(rv == NNG_ETIMEDOUT, "C04:recv-code", "non-blocking receive while waiting -> %d", rv);
				break;
			case ANSWERED:
				VR_CHECK(rv == 0, "C04:reply-lost", "context %d: the matching reply %x arrived but receive -> %d", k, C.reply, rv);
				C.rcv_pending = true;
				C.rcv.done    = 1;
				req_finish_recv(W, k, "receive");
				break;
			}
		} else if (n == "arecv") { // pending receive
			if (C.rcv_pending)
				continue;
			req_submit_recv(W, k, NNG_DURATION_INFINITE);
			vs_settle();
			C.rcv_pending = true;
			if (C.st == IDLE) {
				VR_CHECK(C.rcv.done && nng_aio_result(C.rcv.aio) == NNG_ESTATE, "C04:recv-before-send", "receive with no request outstanding: done=%d", C.rcv.done);
				C.rcv_pending = false;
				vr_tag("recv_estate");
			} else if (C.st == ANSWERED) {
				VR_CHECK(C.rcv.done == 1, "C04:reply-lost", "context %d: stashed reply not handed to receive", k);
				req_finish_recv(W, k, "receive");
			} else {
				VR_CHECK(!C.rcv.done, "C04:unexpected-completion", "receive completed (%d) while the request is unanswered", nng_aio_result(C.rcv.aio));
				vr_tag("pending_recv");
			}
		} else if (n == "cancel") {
			if (C.rcv_pending) {
				nng_aio_cancel(C.rcv.aio);
				nng_aio_wait(C.rcv.aio);
				VR_CHECK(nng_aio_result(C.rcv.aio) == NNG_ECANCELED, "C04:cancel-result", "cancelled receive -> %d", nng_aio_result(C.rcv.aio));
				C.rcv_pending = false;
				// cancelling the receive abandons the request
				if (C.id)
					C.prev_id = C.id;
				C.id = 0;
				C.st = IDLE;
				if (C.snd_pending) {
					vs_settle();
					VR_CHECK(C.snd.done && nng_aio_result(C.snd.aio) == NNG_ECANCELED, "C04:cancel-send-result", "cancelled receive left the queued send pending");
					nng_msg *om = nng_aio_get_msg(C.snd.aio);
					VR_CHECK(om != nullptr && at_is_live(om), "C04:failed-send-lost-message", "cancelled send did not return its message");
					nng_msg_free(om);
					nng_aio_set_msg(C.snd.aio, NULL);
					C.snd_pending = false;
				}
				vr_tag("cancelled");
			} else if (C.snd_pending) {
				nng_aio_cancel(C.snd.aio);
				nng_aio_wait(C.snd.aio);
				VR_CHECK(nng_aio_result(C.snd.aio) == NNG_ECANCELED, "C04:cancel-result", "cancelled send -> %d", nng_aio_result(C.snd.aio));
				nng_msg *om = nng_aio_get_msg(C.snd.aio);
				VR_CHECK(om != nullptr && at_is_live(om), "C04:failed-send-lost-message", "cancelled send did not return its message");
				nng_msg_free(om);
				nng_aio_set_msg(C.snd.aio, NULL);
				C.snd_pending = false;
				C.st          = IDLE;
				C.id          = 0;
				vr_tag("cancelled");
			}
		}
	}
	if (W.jammed) {
		W.jammed = false;
		req_after_settle(W);
	}
	if (W.delivered && W.discarded)
		vr_tag("delivered_and_discarded");
	int outstanding = 0;
	for (int k = 0; k < 4; k++)
		if (W.c[k].open && W.c[k].st == OUTSTANDING)
			outstanding++;
	if (outstanding >= 2)
		vr_tag("two_outstanding");
	// teardown
	for (int k = 0; k < 4; k++) {
		ReqCtx &C = W.c[k];
		if (!C.open)
			continue;
		if (C.rcv_pending || C.snd_pending) {
			// (only cancel what is still pending: a late cancel overwrites a completed aio's result)
			if (C.rcv.aio && C.rcv_pending && !C.rcv.done)
				nng_aio_cancel(C.rcv.aio);
			if (C.snd_pending && !C.snd.done)
				nng_aio_cancel(C.snd.aio);
			vs_settle();
		}
		if (C.rcv.aio) {
			nng_aio_wait(C.rcv.aio);
			if (nng_aio_result(C.rcv.aio) == 0 && C.rcv_pending) {
				nng_msg *m = nng_aio_get_msg(C.rcv.aio);
				if (m)
					nng_msg_free(m);
			}
			nng_aio_free(C.rcv.aio);
		}
		for (int b = 0; b < 2; b++) {
			AioBox &B = C.sndbox[b];
			if (!B.aio)
				continue;
			nng_aio_wait(B.aio);
			if (nng_aio_result(B.aio) != 0) {
				nng_msg *m = nng_aio_get_msg(B.aio);
				if (m)
					nng_msg_free(m);
			}
			nng_aio_free(B.aio);
		}
		if (k)
			nng_ctx_close(C.ctx);
	}
	for (int p = 0; p < 2; p++)
		if (W.peer_up[p])
			rp_close(&W.peer[p]);
	nng_socket_close(W.s);
	return 0;
}

// ======================================================================= World 1: REP under test (shared replier world)
} // namespace
#include "replier_world.hpp"
namespace {
static const replier::Flavor kRepFlavor = {"C04", nng_rep0_open, SP_REQ, SP_REP};

int
exec_c04(const vcase *vc)
{
	h_cfg cfg;
	if (vc->nops < 2 || strcmp(vc->ops[0].name, "cfg") != 0 || strcmp(vc->ops[1].name, "world") != 0)
		return 0;
	h_cfg_from_op(&cfg, &vc->ops[0]);
	int w = (int) vop_arg(&vc->ops[1], 0, 0);
	if (h_begin(&cfg) != 0)
		return 0;
	vr_tagf("world%d", w);
	int rv = w == 0 ? exec_req(vc) : replier::exec_rep(vc, &kRepFlavor);
	h_end();
	return rv;
}

using namespace rc;

Gen<std::string>
genReqOp()
{
	return gen::exec([]() {
		std::ostringstream o;
		int k = *gen::weightedElement<int>({{4, 0}, {3, 1}, {2, 2}, {1, 3}});
		int t = *gen::weightedElement<int>({{10, 0}, {12, 1}, {6, 2}, {4, 3}, {3, 4}, {3, 5}, {1, 6}, {3, 7}, {2, 8}, {1, 9}, {1, 10}, {2, 11}});
		switch (t) {
		case 11: // a refused request (possibly while another one is outstanding or answered), then a receive
			o << "detach 0\ndetach 1\nnbsend " << k << "\n" << (*pbt::range<int>(0, 1) ? "recv " : "arecv ") << k;
			break;
		case 0: o << "send " << k; break;
		case 1: o << "reply " << *pbt::range<int>(0, 1) << " " << *gen::weightedElement<int>({{8, 0}, {4, 1}, {2, 2}, {2, 3}, {2, 4}, {1, 5}, {3, 6}, {5, 7}, {5, 8}}) << " " << k; break;
		case 2: o << "recv " << k; break;
		case 3: o << "arecv " << k; break;
		case 4: o << "cancel " << k; break;
		case 5: o << "attach " << *pbt::range<int>(0, 1) << " " << *pbt::range<int>(0, 1); break;
		case 6: o << "detach " << *pbt::range<int>(0, 1); break;
		case 7: o << "ctxopen " << *pbt::range<int>(1, 3); break;
		case 8: // the peer stops reading, two or three large requests pile up, a reply names the id of one that is still queued
			o << "jam\nsend " << k << "\nsend " << (k + 1) % 4 << "\nsend " << (k + 2) % 4 << "\narecv " << (k + 2) % 4 << "\nreply 0 8 " << (k + *pbt::range<int>(1, 2)) % 4
			  << "\nreply 1 8 " << (k + 2) % 4;
			break;
		case 9: o << "unjam"; break;
		case 10: // a request that is outstanding falls due for retransmission while the pipe is busy (it waits in the send queue
			 // again), then its reply arrives, then the queue drains
			o << "rtick 5\nrtime " << k << " 10\nsend " << k << "\njam\nsend " << (k + 1) % 4 << "\nsend " << (k + 2) % 4 << "\nwait " << *gen::element(15, 40) << "\nreply 0 0 " << k << "\nreply 1 0 " << k
			  << "\nunjam\nrecv " << k << "\nrtime " << k << " 60000\nrtick 1000";
			break;
		}
		return o.str();
	});
}

Gen<std::string>
genRepOp()
{
	return gen::exec([]() {
		std::ostringstream o;
		int k = *gen::weightedElement<int>({{4, 0}, {2, 1}, {1, 2}});
		int p = *pbt::range<int>(0, 2);
		int t = *gen::weightedElement<int>({{12, 0}, {10, 1}, {8, 2}, {3, 3}, {1, 4}, {2, 5}, {1, 6}, {1, 7}, {2, 8}});
		switch (t) {
		case 0: o << "req " << p << " " << *gen::weightedElement<int>({{6, 0}, {3, 1}, {2, 2}, {1, 6}, {1, 7}, {1, 8}, {1, 14}, {1, 15}}); break;
		case 1: o << "recv " << k; break;
		case 2: o << "send " << k << " " << *pbt::welem<int>({{4, 0}, {1, 1}, {1, 2}}) << " " << *pbt::range<int>(0, 1); break;
		case 3: o << "attach " << p; break;
		case 4: o << "detach " << p; break;
		case 5: o << "ctxopen " << *pbt::range<int>(1, 2); break;
		case 6: o << "ttl " << *gen::element(1, 2, 3, 8, 15); break;
		case 7: o << "badreq " << p << " " << *pbt::range<int>(0, 2); break;
		case 8: o << "jamrep " << *pbt::range<int>(2, 4) << " " << *pbt::range<int>(0, 4); break;
		}
		return o.str();
	});
}

std::string
gen_c04()
{
	std::ostringstream t;
	int mode = *pbt::welem<int>({{3, 0}, {2, 1}, {2, 2}, {2, 3}});
	int w    = *pbt::welem<int>({{3, 0}, {2, 1}});
	t << "cfg " << *pbt::range<int>(1, 1000000) << " " << mode << " " << (mode == 3 ? *gen::element(5, 20, 50) : *gen::element(10, 30, 60)) << " " << *pbt::range<int>(1, 3) << " " << (mode == 3 ? *gen::element(60, 150, 400) : 600) << " 0\n";
	t << "world " << w << "\n";
	if (*pbt::welem<int>({{1, 0}, {5, 1}}))
		t << "attach 0 " << *pbt::range<int>(0, 1) << "\n";
	if (w == 0 && *pbt::welem<int>({{1, 0}, {2, 1}}))
		t << "ctxopen 1\nctxopen 2\n";
	auto ops = *gen::container<std::vector<std::string>>(w == 0 ? genReqOp() : genRepOp());
	for (auto &l : ops)
		t << l << "\n";
	return t.str();
}

} // namespace

int
main(int argc, char **argv)
{
	pbt::PropSpec sp;
	sp.id   = "C04";
	sp.gen  = gen_c04;
	sp.exec = exec_c04;
	sp.rule = "world 0: a REQ socket with up to 3 extra contexts against 1-2 raw REP wire peers over socket://: send / non-blocking and "
	          "pending receive / cancel / new request per context, peers attach/detach, replies with the current, stale, never-issued, "
	          "predicted-next, bit-stripped, duplicated or malformed id; exact per-context model {idle, queued, outstanding(id), answered}. "
	          "world 1: a REP socket with up to 2 extra contexts against up to 3 raw REQ wire peers: requests with 0..15-hop backtraces, "
	          "unterminated backtraces, MAXTTL changes, receive/send in any order; model: oldest pending deliverable request first, reply on "
	          "the connection and with the backtrace of the request that context last received, ESTATE on misuse. Non-trivial = >= 1 delivered "
	          "and >= 1 discarded reply, or >= 2 contexts outstanding at once, or >= 2 REP exchanges with a backtrace; distinct by case hash";
	sp.nontrivial = [](const std::set<std::string> &t) {
		return t.count("delivered_and_discarded") || t.count("two_outstanding") || (t.count("two_exchanges") && t.count("backtrace"));
	};
	return pbt::pbt_main(argc, argv, sp);
}
