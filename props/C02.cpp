// C02: every asynchronous operation completes exactly once.
// One operation (sleep, socket/context send or receive on several protocols, dialer start, device) is
// submitted on a monitored aio; harness actors (completer, canceller/aborter, stopper/free/wait, closer)
// act at generated virtual times - equal times are the interesting ones - under fifo/random/PCT schedules;
// the callback may resubmit.  History invariant: one callback per submission, one final result, timeouts
// not early, no callback after stop/free returned, results consistent with message ownership.
#include "pbt.hpp"
#include "nngh.h"
#include "rawpeer.h"
#include "wsref.hpp"
#include <nng/http.h>
#include <unistd.h>

namespace {

enum { K_SLEEP, K_RECV_PAIR, K_RECV_PULL, K_RECV_SUB, K_RECV_REP, K_RECV_BUS, K_SEND_PUSH, K_SEND_PAIR, K_RECV_REQCTX, K_DIAL, K_DEVICE, K_RECV_SURVEYOR, K_STREAM_RECV, K_STREAM_SEND, K_STREAM_ACCEPT, K_HTTP_TRANSACT, K_WS_DIAL, K_SEND_XREQ, K_RECV_RESPONDENT, K_RECV_PAIR1, K_RECV_XREP, K_RECV_XSUB, K_RECV_SUBCTX, K_RECV_REPCTX, K_RECV_SURVCTX, K_SEND_REQ, K_SEND_REQCTX, K_SEND_PAIR1, K_NKINDS };
static const char *kKindName[] = {"sleep", "recv_pair", "recv_pull", "recv_sub", "recv_rep", "recv_bus", "send_push", "send_pair", "recv_reqctx", "dial", "device", "recv_surveyor", "stream_recv", "stream_send", "stream_accept", "http_transact", "ws_dial", "send_xreq", "recv_respondent", "recv_pair1", "recv_xrep", "recv_xsub", "recv_subctx", "recv_repctx", "recv_survctx", "send_req", "send_reqctx", "send_pair1"};

static bool
kind_uses_ctx(int k)
{
	return k == K_RECV_REQCTX || k == K_RECV_SUBCTX || k == K_RECV_REPCTX || k == K_RECV_SURVCTX || k == K_SEND_REQCTX;
}

struct Mon {
	nng_aio   *aio = nullptr;
	int        kind = 0;
	int        callbacks = 0, submissions = 0;
	int        resub = 0; // remaining re-submissions from inside the callback
	int        T = 0;     // aio timeout (0 = none/infinite, -1 = zero timeout)
	uint64_t   t_submit = 0;
	uint64_t   t_sub[8] = {0}; // submit time of the i-th submission (completions of one aio come in order)
	int        results[8];
	uint64_t   times[8];
	bool       stop_returned = false;
	bool       in_callback   = false;
	int        overlaps      = 0;
	int        active_cbs    = 0;
	bool       freed = false;
	bool       phase2 = false, harness_cancel = false;
	nng_socket s, peer;
	nng_ctx    ctx;
	bool       have_ctx = false;
	nng_dialer dialer;
	nng_socket dev2;
	// byte streams (nng_stream over ipc / tcp) with a raw peer at the other end
	nng_stream_listener *sl = nullptr;
	nng_stream          *st = nullptr;
	rp                   raw;
	bool                 have_raw = false;
	bool                 have_feeder = false;
	std::vector<nng_stream *> accepted;
	uint8_t              rbuf[16];
	uint8_t             *bigbuf = nullptr;
	int                  stream_port = 0;
	int        lfd = -1;
	std::string path;
	// HTTP client transaction / WebSocket stream dial against a raw TCP server run by the harness
	nng_http_client   *hcli = nullptr;
	nng_http          *http = nullptr;
	nng_url           *hurl = nullptr;
	nng_stream_dialer *wsd  = nullptr;
	std::vector<nng_stream *> dialed;
	int                hvariant = 0;
	int                hwrites  = 0; // responses written by the raw server so far
	// raw REQ send queue (nni_msgq): filler sends that occupy the pipe, the buffer and the head of the writers' queue
	nng_aio           *fill[8] = {nullptr, nullptr, nullptr, nullptr, nullptr, nullptr, nullptr, nullptr};
	bool               in_presleep = false;
	bool               presleep = false; // the aio was used for a sleep that ran to its natural end first
	bool               closer_present = false;
	bool               dialed_peer = false;
	const char *fail_sig = nullptr;
	char        fail_msg[300];
};

static void submit(Mon *M);

static void
mon_fail(Mon *M, const char *sig, const char *fmt, ...)
{
	if (M->fail_sig)
		return;
	va_list ap;
	va_start(ap, fmt);
	vsnprintf(M->fail_msg, sizeof M->fail_msg, fmt, ap);
	va_end(ap);
	M->fail_sig = sig;
}

static void
mon_cb(void *arg)
{
	Mon *M = (Mon *) arg;
	if (M->in_presleep) { // the harness-internal sleep that precedes the monitored operation: only counted
		M->callbacks++;
		return;
	}
	if (M->stop_returned)
		mon_fail(M, "C02:callback-after-stop", "%s: callback ran after nng_aio_stop/nng_aio_free/nng_aio_wait had returned", kKindName[M->kind]);
	// (a callback for a re-submission may start on another task thread before the callback that re-submitted has
	// returned: the property does not forbid that overlap, so it is only counted)
	if (M->in_callback)
		M->overlaps++;
	M->in_callback = true;
	M->active_cbs++;
	int i = M->callbacks++;
	if (M->callbacks > M->submissions)
		mon_fail(M, "C02:completed-twice", "%s: callback #%d for %d submission(s)", kKindName[M->kind], M->callbacks, M->submissions);
	int rv = nng_aio_result(M->aio);
	vr_trace("cb #%d rv=%d now=%llu", i + 1, rv, (unsigned long long) vs_now());
	if (i < 8) {
		M->results[i] = rv;
		M->times[i]   = vs_now();
	}
	// (a SURVEYOR receive is additionally bounded by the survey deadline, 30 ms here: C07 judges that)
	if (rv == NNG_ETIMEDOUT && M->T > 0 && M->kind != K_RECV_SURVEYOR && M->kind != K_RECV_SURVCTX && i < 8 && vs_now() < M->t_sub[i] + (uint64_t) M->T) {
		// One history is a recorded finding with its own signature: an earlier submission on this aio completed at or
		// after its own deadline, so the expire thread may already have taken that submission's cancel function; when it
		// finally calls it, the provider finds the *re-submitted* operation pending on the same aio and times it out.
		// (any earlier submission qualifies: the late cancel call hits whatever is pending on the aio when it finally runs)
		bool stale = false;
		for (int j = 0; j < i; j++)
			if (M->times[j] >= M->t_sub[j] + (uint64_t) M->T)
				stale = true;
		mon_fail(M, stale ? "C02:stale-expiry-hits-resubmission" : "C02:early-timeout", "%s: submission #%d timed out after %llu ms with a %d ms timeout", kKindName[M->kind],
		    i + 1, (unsigned long long) (vs_now() - M->t_sub[i]), M->T);
	}
	// an operation without a timeout (infinite / socket default, which is infinite here) cannot time out - whatever the aio was used for before
	if (rv == NNG_ETIMEDOUT && M->T == 0 && M->kind != K_RECV_SURVEYOR && M->kind != K_RECV_SURVCTX && M->kind != K_SLEEP && M->kind != K_DIAL && M->kind != K_WS_DIAL && M->kind != K_HTTP_TRANSACT)
		mon_fail(M, "C02:timeout-without-timeout", "%s: completed with NNG_ETIMEDOUT after %llu ms although no timeout is configured%s", kKindName[M->kind],
		    (unsigned long long) (vs_now() - M->t_sub[i < 8 ? i : 0]), M->presleep ? " (the aio was used for a sleep before)" : "");
	// second operation on the same aio after an idle-time cancel/abort: the stale cancel must have no effect on it
	if (M->phase2 && !M->harness_cancel && (rv == NNG_ECANCELED || rv == NNG_EINTERNAL))
		mon_fail(M, "C02:stale-cancel-hits-next-operation", "%s: a cancel/abort issued while the aio was idle failed the next operation with %d", kKindName[M->kind], rv);
	if (M->kind == K_STREAM_ACCEPT && rv == 0) {
		nng_stream *ns = (nng_stream *) nng_aio_get_output(M->aio, 0);
		if (ns == nullptr)
			mon_fail(M, "C02:success-without-output", "stream accept completed with success but no stream");
		else
			M->accepted.push_back(ns);
	}
	if (M->kind == K_WS_DIAL || M->kind == K_HTTP_TRANSACT)
		vr_tagf("%s_rv_%s", kKindName[M->kind], rv == 0 ? "ok" : rv == NNG_ETIMEDOUT ? "timedout" : rv == NNG_ECANCELED ? "canceled" : rv == NNG_ECLOSED ? "closed" : "error");
	if (M->kind == K_WS_DIAL && rv == 0) {
		nng_stream *ns = (nng_stream *) nng_aio_get_output(M->aio, 0);
		if (ns == nullptr)
			mon_fail(M, "C02:success-without-output", "websocket dial completed with success but no stream");
		else
			M->dialed.push_back(ns);
		if (M->hvariant % 3 != 0)
			mon_fail(M, "C02:ws-dial-succeeded-on-refusal", "websocket dial succeeded although the server answered %s", M->hvariant % 3 == 1 ? "403" : "with a wrong accept key");
	}
	if (M->kind == K_HTTP_TRANSACT && rv == 0) {
		int st = (int) nng_http_get_status(M->http);
		if ((M->hvariant % 5 == 0 || M->hvariant % 5 == 1) && st != 200)
			mon_fail(M, "C02:http-result", "transaction succeeded with status %d, the server sent 200", st);
		if (M->hvariant % 5 >= 3 && M->hwrites <= 1) // (several truncated responses in a row can add up to a complete one)
			mon_fail(M, "C02:http-result", "transaction succeeded although the response was %s", M->hvariant % 5 == 3 ? "malformed (bad chunk size)" : "cut short");
		void  *body = nullptr;
		size_t bl   = 0;
		nng_http_get_body(M->http, &body, &bl);
		if (M->hvariant % 5 <= 1 && (bl != 5 || memcmp(body, M->hvariant % 5 == 0 ? "hello" : "abcde", 5) != 0))
			mon_fail(M, "C02:http-result", "transaction succeeded with a %zu-byte body, the server sent 5 bytes", bl);
	}
	if ((M->kind == K_STREAM_RECV || M->kind == K_STREAM_SEND) && rv == 0 && nng_aio_count(M->aio) == 0)
		mon_fail(M, "C02:success-without-bytes", "%s completed with success and a count of 0", kKindName[M->kind]);
	bool is_recv = M->kind == K_RECV_PAIR || M->kind == K_RECV_PULL || M->kind == K_RECV_SUB || M->kind == K_RECV_REP || M->kind == K_RECV_BUS || M->kind == K_RECV_REQCTX ||
	    M->kind == K_RECV_SURVEYOR || (M->kind >= K_RECV_RESPONDENT && M->kind <= K_RECV_SURVCTX);
	bool is_send = M->kind == K_SEND_PUSH || M->kind == K_SEND_PAIR || M->kind == K_SEND_XREQ || M->kind == K_SEND_REQ || M->kind == K_SEND_REQCTX || M->kind == K_SEND_PAIR1;
	if (is_recv) {
		nng_msg *m = nng_aio_get_msg(M->aio);
		if (rv == 0) {
			if (m == nullptr)
				mon_fail(M, "C02:success-without-message", "%s: receive completed with success but no message", kKindName[M->kind]);
			else
				nng_msg_free(m);
			nng_aio_set_msg(M->aio, NULL);
		}
	}
	if (is_send) {
		nng_msg *m = nng_aio_get_msg(M->aio);
		if (rv != 0) {
			if (m == nullptr || !at_is_live(m))
				mon_fail(M, "C02:failed-send-lost-message", "%s: send failed with %d but the message is no longer attached", kKindName[M->kind], rv);
			else
				nng_msg_free(m);
			nng_aio_set_msg(M->aio, NULL);
		}
	}
	if (M->resub > 0 && rv != NNG_ESTOPPED && rv != NNG_ECLOSED && !(M->kind == K_HTTP_TRANSACT && rv != 0)) {
		M->resub--;
		submit(M); // re-submission from inside the callback
	}
	M->in_callback = false;
	M->active_cbs--;
}

static void
submit(Mon *M)
{
	if (M->submissions < 8)
		M->t_sub[M->submissions] = vs_now();
	M->submissions++;
	M->t_submit = vs_now();
	vr_trace("submit #%d now=%llu", M->submissions, (unsigned long long) vs_now());
	switch (M->kind) {
	case K_SLEEP: nng_sleep_aio(M->T > 0 ? M->T : 20, M->aio); break;
	case K_RECV_PAIR:
	case K_RECV_PULL:
	case K_RECV_SUB:
	case K_RECV_REP:
	case K_RECV_BUS:
	case K_RECV_RESPONDENT:
	case K_RECV_PAIR1:
	case K_RECV_XREP:
	case K_RECV_XSUB:
	case K_RECV_SURVEYOR: nng_socket_recv(M->s, M->aio); break;
	case K_RECV_SUBCTX:
	case K_RECV_REPCTX:
	case K_RECV_SURVCTX:
	case K_RECV_REQCTX: nng_ctx_recv(M->ctx, M->aio); break;
	case K_SEND_REQCTX: nng_aio_set_msg(M->aio, h_msg(0x02000000u | (uint32_t) M->submissions, 4)); nng_ctx_send(M->ctx, M->aio); break;
	case K_SEND_REQ:
	case K_SEND_PAIR1:
	case K_SEND_PUSH:
	case K_SEND_PAIR: nng_aio_set_msg(M->aio, h_msg(0x02000000u | (uint32_t) M->submissions, 4)); nng_socket_send(M->s, M->aio); break;
	case K_DIAL: nng_dialer_start_aio(M->dialer, NNG_FLAG_NONBLOCK, M->aio); break;
	case K_DEVICE: nng_device_aio(M->aio, M->s, M->dev2); break;
	case K_STREAM_RECV: {
		nng_iov iov = {M->rbuf, sizeof M->rbuf};
		nng_aio_set_iov(M->aio, 1, &iov);
		nng_stream_recv(M->st, M->aio);
		break;
	}
	case K_STREAM_SEND: {
		nng_iov iov = {M->bigbuf, (size_t) 8 << 20};
		nng_aio_set_iov(M->aio, 1, &iov);
		nng_stream_send(M->st, M->aio);
		break;
	}
	case K_STREAM_ACCEPT: nng_stream_listener_accept(M->sl, M->aio); break;
	case K_HTTP_TRANSACT:
		nng_http_reset(M->http);
		nng_http_set_method(M->http, "GET");
		nng_http_set_uri(M->http, "/x", NULL);
		nng_http_transact(M->http, M->aio);
		break;
	case K_WS_DIAL: nng_stream_dialer_dial(M->wsd, M->aio); break;
	case K_SEND_XREQ: {
		nng_msg *m = h_msg(0x02000000u | (uint32_t) M->submissions, 4);
		nng_msg_header_append_u32(m, 0x80000100u + (uint32_t) M->submissions);
		nng_aio_set_msg(M->aio, m);
		nng_socket_send(M->s, M->aio);
		break;
	}
	}
}

// a crowd of plain timed operations sharing the expire queue with the monitored one
struct Crowd {
	nng_aio *aio = nullptr;
	int      callbacks = 0, rv = -1;
	uint64_t t_done = 0;
	bool     is_sleep = false;
};

static void
crowd_cb(void *arg)
{
	Crowd *c = (Crowd *) arg;
	c->callbacks++;
	c->rv     = nng_aio_result(c->aio);
	c->t_done = vs_now();
}

struct Actor {
	Mon *M;
	int  what; // 0 completer, 1 cancel, 2 abort, 3 stop, 4 wait-only, 5 close, 6 free
	int  at;
	bool done = false;
};

static void
actor_main(void *arg)
{
	Actor *A = (Actor *) arg;
	Mon   *M = A->M;
	if (A->at > 0)
		vs_sleep(A->at);
	switch (A->what) {
	case 0: // make the operation completable
		switch (M->kind) {
		case K_DEVICE: // not completable, but the forwarder gets a message it cannot deliver
			if (M->have_feeder) {
				nng_msg *m = h_msg(0x01000009u, 3);
				if (nng_sendmsg(M->peer, m, NNG_FLAG_NONBLOCK) != 0)
					nng_msg_free(m);
				else
					vr_tag("device_blocked_in_send");
			}
			break;
		case K_RECV_SURVCTX: { // a respondent answers the context's survey
			nng_msg *m;
			if (nng_recvmsg(M->peer, &m, NNG_FLAG_NONBLOCK) == 0 && nng_sendmsg(M->peer, m, NNG_FLAG_NONBLOCK) != 0)
				nng_msg_free(m);
			break;
		}
		case K_SEND_REQ:
		case K_SEND_REQCTX: // a replier becomes reachable
			if (!M->dialed_peer) {
				M->dialed_peer = true;
				nng_dial(M->peer, "inproc://c02", NULL, NNG_FLAG_NONBLOCK);
			}
			break;
		case K_RECV_RESPONDENT:
		case K_RECV_PAIR1:
		case K_RECV_XREP:
		case K_RECV_XSUB:
		case K_RECV_SUBCTX:
		case K_RECV_REPCTX:
		case K_RECV_PAIR:
		case K_RECV_PULL:
		case K_RECV_SUB:
		case K_RECV_BUS: {
			nng_msg *m = h_msg(0x01000001u, 3);
			if (nng_sendmsg(M->peer, m, NNG_FLAG_NONBLOCK) != 0)
				nng_msg_free(m);
			break;
		}
		case K_RECV_REP: {
			nng_msg *m = h_msg(0x01000002u, 3);
			if (nng_sendmsg(M->peer, m, NNG_FLAG_NONBLOCK) != 0)
				nng_msg_free(m);
			break;
		}
		case K_STREAM_RECV:
			if (M->have_raw)
				rp_write(&M->raw, "12345678", 8);
			break;
		case K_STREAM_SEND: // the peer starts reading
			for (int k = 0; k < 60 && M->have_raw; k++) {
				uint8_t tmp[65536];
				rp_pump(&M->raw);
				while (rp_consume(&M->raw, tmp, sizeof tmp) > 0) {
				}
				vs_sleep(1);
			}
			break;
		case K_STREAM_ACCEPT: { // somebody connects
			rp *r = new rp;
			int ok = M->stream_port ? rp_connect_tcp(r, M->stream_port) : rp_connect_ipc(r, M->path.c_str());
			if (ok == 0) {
				vs_settle();
				rp_close(r);
			}
			delete r;
			break;
		}
		case K_HTTP_TRANSACT: { // the server answers (by Content-Length, chunked, or with garbage)
			if (!M->have_raw)
				break;
			rp_pump(&M->raw);
			static const char *resp[] = {"HTTP/1.1 200 OK\r\nContent-Length: 5\r\n\r\nhello",
			    "HTTP/1.1 200 OK\r\nTransfer-Encoding: chunked\r\n\r\n3\r\nabc\r\n2\r\nde\r\n0\r\n\r\n", "HTTP/1.1 404 Not Found\r\nContent-Length: 0\r\n\r\n",
			    "HTTP/1.1 200 OK\r\nTransfer-Encoding: chunked\r\n\r\nzz\r\n", "HTTP/1.1 200 OK\r\nContent-Length: 50\r\n\r\nshort"};
			const char *r = resp[M->hvariant % 5];
			M->hwrites++;
			rp_write(&M->raw, r, strlen(r));
			break;
		}
		case K_WS_DIAL: { // the server accepts the TCP connection and answers the upgrade request
			if (M->lfd < 0)
				break;
			if (!M->have_raw) {
				if (rp_accept(&M->raw, M->lfd, RP_TCP) != 0)
					break;
				M->have_raw = true;
			}
			for (int k = 0; k < 10; k++) {
				rp_pump(&M->raw);
				wsref::Bytes b(M->raw.rx, M->raw.rx + M->raw.rxlen);
				size_t       he = wsref::head_end(b);
				if (he == 0) {
					vs_sleep(1);
					continue;
				}
				wsref::Head h = wsref::parse_head(b, he);
				rp_consume(&M->raw, NULL, he);
				std::string key = h.get("Sec-WebSocket-Key");
				std::string r;
				switch (M->hvariant % 3) {
				case 0:
					r = "HTTP/1.1 101 Switching Protocols\r\nUpgrade: websocket\r\nConnection: Upgrade\r\nSec-WebSocket-Accept: " + wsref::accept_key(key) + "\r\n\r\n";
					break;
				case 1: r = "HTTP/1.1 403 Forbidden\r\nContent-Length: 0\r\n\r\n"; break;
				default: r = "HTTP/1.1 101 Switching Protocols\r\nUpgrade: websocket\r\nConnection: Upgrade\r\nSec-WebSocket-Accept: bm90IHRoZSBrZXk=\r\n\r\n"; break;
				}
				rp_write(&M->raw, r.data(), r.size());
				break;
			}
			break;
		}
		case K_SEND_XREQ: { // the peer drains what is queued
			nng_msg *m;
			for (int k = 0; k < 6; k++) {
				if (nng_recvmsg(M->peer, &m, NNG_FLAG_NONBLOCK) == 0)
					nng_msg_free(m);
				vs_sleep(1);
			}
			break;
		}
		case K_SEND_PAIR1:
		case K_SEND_PUSH:
		case K_SEND_PAIR: { // a receiver shows up
			nng_msg *m;
			if (nng_recvmsg(M->peer, &m, NNG_FLAG_NONBLOCK) == 0)
				nng_msg_free(m);
			break;
		}
		default: break;
		}
		break;
	case 1: nng_aio_cancel(M->aio); break;
	case 2: nng_aio_abort(M->aio, NNG_EINTERNAL); break;
	case 3:
		nng_aio_stop(M->aio);
		if (M->active_cbs > 0)
			mon_fail(M, "C02:stop-returned-during-callback", "%s: nng_aio_stop returned while the callback is running", kKindName[M->kind]);
		M->stop_returned = true;
		break;
	case 4:
		nng_aio_wait(M->aio);
		if (nng_aio_busy(M->aio) && M->resub == 0 && M->callbacks >= M->submissions)
			mon_fail(M, "C02:busy-after-wait", "%s: nng_aio_busy is true after nng_aio_wait returned", kKindName[M->kind]);
		break;
	case 5: // close the underlying object
		switch (M->kind) {
		case K_RECV_SUBCTX:
		case K_RECV_REPCTX:
		case K_RECV_SURVCTX:
		case K_SEND_REQCTX:
		case K_RECV_REQCTX: nng_ctx_close(M->ctx); M->have_ctx = false; break;
		case K_DIAL: nng_dialer_close(M->dialer); break;
		case K_STREAM_RECV:
		case K_STREAM_SEND: nng_stream_close(M->st); break;
		case K_STREAM_ACCEPT: nng_stream_listener_close(M->sl); break;
		case K_HTTP_TRANSACT: // the server goes away (the connection object itself is closed by its owner at the end)
			if (M->have_raw) {
				rp_close(&M->raw);
				M->have_raw = false;
			}
			break;
		case K_WS_DIAL: nng_stream_dialer_close(M->wsd); break;
		case K_SLEEP: break;
		case K_DEVICE: break;
		default: nng_socket_close(M->s); break;
		}
		break;
	case 6:
		nng_aio_free(M->aio);
		if (M->active_cbs > 0)
			mon_fail(M, "C02:free-returned-during-callback", "%s: nng_aio_free returned while the callback is running", kKindName[M->kind]);
		M->stop_returned = true;
		M->freed         = true;
		break;
	}
	A->done = true;
}

int
exec_c02(const vcase *vc)
{
	h_cfg cfg;
	if (vc->nops < 2 || strcmp(vc->ops[0].name, "cfg") != 0 || strcmp(vc->ops[1].name, "op") != 0)
		return 0;
	h_cfg_from_op(&cfg, &vc->ops[0]);
	cfg.task_threads = 3;
	const vop *o     = &vc->ops[1];
	Mon        M;
	M.kind  = (int) vop_arg(o, 0, 0);
	int pre = (int) vop_arg(o, 1, 0); // 0 fresh, 1 zero timeout, 2 timeout T, 3 already stopped
	int T   = (int) vop_arg(o, 2, 20);
	M.resub = (int) vop_arg(o, 3, 0);
	if (M.kind < 0 || M.kind >= K_NKINDS || M.resub < 0 || M.resub > 3)
		return 0;
	if (h_begin(&cfg) != 0)
		return 0;
	vr_tagf("kind_%s", kKindName[M.kind]);
	H_OK(nng_aio_alloc(&M.aio, mon_cb, &M));
	const char *url = "inproc://c02";
	// world
	auto pairup = [&](int (*a)(nng_socket *), int (*b)(nng_socket *), bool connect) {
		H_OK(a(&M.s));
		H_OK(b(&M.peer));
		H_OK(nng_listen(M.s, url, NULL, 0));
		if (connect)
			H_OK(nng_dial(M.peer, url, NULL, 0));
	};
	switch (M.kind) {
	case K_RECV_PAIR: pairup(nng_pair0_open, nng_pair0_open, true); break;
	case K_RECV_PULL: pairup(nng_pull0_open, nng_push0_open, true); break;
	case K_RECV_SUB: pairup(nng_sub0_open, nng_pub0_open, true); nng_sub0_socket_subscribe(M.s, "", 0); break;
	case K_RECV_REP: pairup(nng_rep0_open, nng_req0_open, true); break;
	case K_RECV_BUS: pairup(nng_bus0_open, nng_bus0_open, true); break;
	case K_RECV_SURVEYOR:
		pairup(nng_surveyor0_open, nng_respondent0_open, true);
		nng_socket_set_ms(M.s, NNG_OPT_SURVEYOR_SURVEYTIME, 30);
		break;
	case K_SEND_PUSH: pairup(nng_push0_open, nng_pull0_open, vop_arg(o, 4, 0) != 0); break;
	case K_SEND_PAIR: pairup(nng_pair0_open, nng_pair0_open, true); break;
	case K_SEND_PAIR1:
	case K_RECV_PAIR1: pairup(nng_pair1_open, nng_pair1_open, true); break;
	case K_RECV_RESPONDENT: pairup(nng_respondent0_open, nng_surveyor0_open, true); break;
	case K_RECV_XREP: pairup(nng_rep0_open_raw, nng_req0_open, true); break;
	case K_RECV_XSUB: pairup(nng_sub0_open_raw, nng_pub0_open, true); break;
	case K_RECV_SUBCTX:
		pairup(nng_sub0_open, nng_pub0_open, true);
		H_OK(nng_ctx_open(&M.ctx, M.s));
		M.have_ctx = true;
		nng_sub0_ctx_subscribe(M.ctx, "", 0);
		break;
	case K_RECV_REPCTX:
		pairup(nng_rep0_open, nng_req0_open, true);
		H_OK(nng_ctx_open(&M.ctx, M.s));
		M.have_ctx = true;
		break;
	case K_RECV_SURVCTX:
		pairup(nng_surveyor0_open, nng_respondent0_open, true);
		H_OK(nng_ctx_open(&M.ctx, M.s));
		M.have_ctx = true;
		nng_ctx_set_ms(M.ctx, NNG_OPT_SURVEYOR_SURVEYTIME, 30);
		break;
	case K_SEND_REQ:
	case K_SEND_REQCTX: // a request submitted while no replier is connected waits in the REQ send queue
		pairup(nng_req0_open, nng_rep0_open, vop_arg(o, 4, 0) % 2 != 0);
		M.dialed_peer = vop_arg(o, 4, 0) % 2 != 0;
		if (M.kind == K_SEND_REQCTX) {
			H_OK(nng_ctx_open(&M.ctx, M.s));
			M.have_ctx = true;
		}
		break;
	case K_SEND_XREQ: {
		// raw REQ with a one-slot send queue towards a raw REP that does not read: one request sits in the pipe, one in the
		// queue, one writer waits; then the peer takes one message, which frees a slot without waking the waiting writer
		H_OK(nng_req0_open_raw(&M.s));
		H_OK(nng_rep0_open_raw(&M.peer));
		H_OK(nng_socket_set_int(M.s, NNG_OPT_SENDBUF, 1));
		H_OK(nng_socket_set_int(M.peer, NNG_OPT_RECVBUF, 1));
		H_OK(nng_listen(M.s, url, NULL, 0));
		H_OK(nng_dial(M.peer, url, NULL, 0));
		vs_settle();
		// (the peer absorbs two requests - its receive queue and its pipe -, this socket's pipe one, its send queue one: from
		// the fifth filler on, writers wait)
		int nfill = 3 + (int) (vop_arg(o, 4, 0) % 6); // 3..8 fillers
		for (int k = 0; k < nfill && k < 8; k++) {
			H_OK(nng_aio_alloc(&M.fill[k], NULL, NULL));
			nng_msg *m = h_msg(0x04000000u | (uint32_t) k, 4);
			nng_msg_header_append_u32(m, 0x80000001u + (uint32_t) k);
			nng_aio_set_msg(M.fill[k], m);
			nng_socket_send(M.s, M.fill[k]);
			vs_settle();
		}
		int waiting = 0;
		for (int k = 0; k < 8; k++)
			if (M.fill[k] && nng_aio_busy(M.fill[k]))
				waiting++;
		if (waiting >= 1 && vop_arg(o, 5, 0) % 4 != 0) {
			// the peer takes 1..3 messages: each frees one slot somewhere along the path
			for (int q = 0; q < (int) (vop_arg(o, 5, 0) % 4); q++) {
				nng_msg *m;
				if (nng_recvmsg(M.peer, &m, NNG_FLAG_NONBLOCK) == 0)
					nng_msg_free(m);
				vs_settle();
			}
			int still = 0;
			for (int k = 0; k < 8; k++)
				if (M.fill[k] && nng_aio_busy(M.fill[k]))
					still++;
			vr_tagf("xreq_writers_waiting_%d", still > 2 ? 2 : still);
		}
		break;
	}
	case K_RECV_REQCTX:
		pairup(nng_req0_open, nng_rep0_open, true);
		H_OK(nng_ctx_open(&M.ctx, M.s));
		M.have_ctx = true;
		break;
	case K_DIAL: {
		H_OK(nng_pair0_open(&M.s));
		char pb[96];
		snprintf(pb, sizeof pb, "/tmp/verif-c02-%d", (int) getpid());
		M.path = pb;
		if (vop_arg(o, 4, 0) != 0) { // somebody listens (but never completes the SP handshake)
			M.lfd = rp_listen_ipc(pb);
		} else
			unlink(pb);
		H_OK(nng_dialer_create(&M.dialer, M.s, (std::string("ipc://") + pb).c_str()));
		break;
	}
	case K_DEVICE:
		if (vop_arg(o, 4, 0) != 0) {
			// a one-way forwarder (raw PULL -> raw PUSH) with nothing downstream: once the feeder sends, the device's
			// path sits in a send that cannot make progress
			H_OK(nng_pull0_open_raw(&M.s));
			H_OK(nng_push0_open_raw(&M.dev2));
			H_OK(nng_push0_open(&M.peer));
			H_OK(nng_listen(M.s, url, NULL, 0));
			H_OK(nng_dial(M.peer, url, NULL, 0));
			M.have_feeder = true;
			vr_tag("device_forwarder");
		} else {
			H_OK(nng_pair1_open_raw(&M.s));
			H_OK(nng_pair1_open_raw(&M.dev2));
		}
		break;
	case K_HTTP_TRANSACT: {
		int port = 0;
		M.lfd    = rp_listen_tcp(&port);
		if (M.lfd < 0) {
			nng_aio_free(M.aio);
			h_end();
			return 0;
		}
		char ub[96];
		snprintf(ub, sizeof ub, "http://127.0.0.1:%d/x", port);
		H_OK(nng_url_parse(&M.hurl, ub));
		H_OK(nng_http_client_alloc(&M.hcli, M.hurl));
		nng_aio *ca;
		H_OK(nng_aio_alloc(&ca, NULL, NULL));
		nng_http_client_connect(M.hcli, ca);
		for (int k = 0; k < 50 && !M.have_raw; k++) {
			vs_settle();
			if (rp_accept(&M.raw, M.lfd, RP_TCP) == 0)
				M.have_raw = true;
			else
				vs_sleep(1);
		}
		nng_aio_wait(ca);
		if (nng_aio_result(ca) != 0 || !M.have_raw) {
			nng_aio_free(ca);
			nng_http_client_free(M.hcli);
			nng_url_free(M.hurl);
			close(M.lfd);
			nng_aio_free(M.aio);
			h_end();
			return 0; // (no connection to be had: not the subject)
		}
		M.http = (nng_http *) nng_aio_get_output(ca, 0);
		nng_aio_free(ca);
		M.hvariant = (int) vop_arg(o, 4, 0);
		break;
	}
	case K_WS_DIAL: {
		int port = 0;
		M.lfd    = rp_listen_tcp(&port);
		if (M.lfd < 0) {
			nng_aio_free(M.aio);
			h_end();
			return 0;
		}
		char ub[96];
		snprintf(ub, sizeof ub, "ws://127.0.0.1:%d/x", port);
		H_OK(nng_stream_dialer_alloc(&M.wsd, ub));
		M.hvariant = (int) vop_arg(o, 4, 0);
		break;
	}
	case K_STREAM_RECV:
	case K_STREAM_SEND:
	case K_STREAM_ACCEPT: {
		char pb[96], ub[128];
		bool tcp = vop_arg(o, 4, 0) != 0;
		snprintf(pb, sizeof pb, "/tmp/verif-c02s-%d", (int) getpid());
		unlink(pb);
		M.path = pb;
		snprintf(ub, sizeof ub, "ipc://%s", pb);
		H_OK(nng_stream_listener_alloc(&M.sl, tcp ? "tcp://127.0.0.1:0" : ub));
		H_OK(nng_stream_listener_listen(M.sl));
		if (tcp)
			H_OK(nng_stream_listener_get_int(M.sl, NNG_OPT_BOUND_PORT, &M.stream_port));
		vr_tag(tcp ? "stream_tcp" : "stream_ipc");
		if (M.kind != K_STREAM_ACCEPT) {
			nng_aio *aa;
			H_OK(nng_aio_alloc(&aa, NULL, NULL));
			nng_stream_listener_accept(M.sl, aa);
			vs_settle();
			int ok = tcp ? rp_connect_tcp(&M.raw, M.stream_port) : rp_connect_ipc(&M.raw, pb);
			if (ok != 0) {
				nng_aio_cancel(aa);
				nng_aio_wait(aa);
				nng_aio_free(aa);
				nng_stream_listener_free(M.sl);
				nng_aio_free(M.aio);
				unlink(pb);
				h_end();
				return 0; // (no port to be had: not the subject)
			}
			M.have_raw = true;
			nng_aio_wait(aa);
			H_OK(nng_aio_result(aa));
			M.st = (nng_stream *) nng_aio_get_output(aa, 0);
			nng_aio_free(aa);
			if (M.kind == K_STREAM_SEND)
				M.bigbuf = (uint8_t *) calloc(1, (size_t) 8 << 20);
		}
		break;
	}
	default: break;
	}
	vs_settle();
	if (M.kind == K_RECV_REQCTX) {
		// a request must be outstanding for a receive to be legal
		nng_aio *sa;
		H_OK(nng_aio_alloc(&sa, NULL, NULL));
		nng_aio_set_msg(sa, h_msg(0x03000001u, 0));
		nng_ctx_send(M.ctx, sa);
		nng_aio_wait(sa);
		nng_aio_free(sa);
	}
	if (M.kind == K_RECV_SURVCTX) {
		nng_aio *sa;
		H_OK(nng_aio_alloc(&sa, NULL, NULL));
		nng_aio_set_msg(sa, h_msg(0x03000004u, 0));
		nng_ctx_send(M.ctx, sa);
		nng_aio_wait(sa);
		if (nng_aio_result(sa) != 0)
			nng_msg_free(nng_aio_get_msg(sa));
		nng_aio_free(sa);
	}
	if (M.kind == K_RECV_SURVEYOR) {
		nng_msg *m = h_msg(0x03000002u, 0);
		if (nng_sendmsg(M.s, m, 0) != 0)
			nng_msg_free(m);
	}
	for (int i = 2; i < vc->nops; i++)
		if (strcmp(vc->ops[i].name, "presleep") == 0 && M.kind != K_SLEEP) {
			// the monitored aio first serves a sleep that runs to its natural end (harness-internal: not counted as a submission)
			int      ms = (int) vop_arg(&vc->ops[i], 0, 3);
			nng_aio *sa;
			(void) sa;
			M.stop_returned = false;
			int cb0 = M.callbacks, sub0 = M.submissions;
			M.submissions++; // the callback counter will see one completion
			M.in_presleep = true;
			nng_sleep_aio(ms > 0 && ms < 50 ? ms : 3, M.aio);
			nng_aio_wait(M.aio);
			vs_settle();
			M.in_presleep = false;
			if (M.callbacks != cb0 + 1 || nng_aio_result(M.aio) != 0)
				vr_fail("C02:presleep", "a plain sleep on the aio completed %d time(s) with %d", M.callbacks - cb0, nng_aio_result(M.aio));
			M.callbacks   = cb0;
			M.submissions = sub0;
			M.presleep    = true;
			vr_tag("aio_reused_after_sleep");
			break;
		}
	switch (pre) {
	case 1: nng_aio_set_timeout(M.aio, 0); M.T = -1; vr_tag("pre_zero_timeout"); break;
	case 2: nng_aio_set_timeout(M.aio, T); M.T = T; vr_tag("pre_timeout"); break;
	case 3: nng_aio_stop(M.aio); vr_tag("pre_stopped"); break;
	default: break;
	}
	if (M.kind == K_SLEEP && pre != 1)
		M.T = T; // (with a zero aio timeout the sleep legitimately ends at once with NNG_ETIMEDOUT)
	// crowd: N further timed operations (sleeps and receives on a peerless PULL socket) that all fall due together
	std::vector<Crowd> crowd;
	nng_socket         crowd_sock = NNG_SOCKET_INITIALIZER;
	int                crowd_T    = 0;
	uint64_t           crowd_t0   = 0;
	for (int i = 2; i < vc->nops; i++)
		if (strcmp(vc->ops[i].name, "crowd") == 0 && crowd.empty()) {
			int n   = (int) vop_arg(&vc->ops[i], 0, 0);
			crowd_T = (int) vop_arg(&vc->ops[i], 1, 5);
			int smod = (int) vop_arg(&vc->ops[i], 2, 0); // every smod-th member is a sleep (own deadline); 0 = receives only
			if (n < 1 || n > 400 || crowd_T < 1 || crowd_T > 100)
				break;
			H_OK(nng_pull0_open(&crowd_sock));
			crowd.resize(n);
			crowd_t0 = vs_now();
			// (one absolute deadline for the receives, so that all of them are due in the same scan of the expire thread)
			nng_time deadline = nng_clock() + (nng_duration) crowd_T;
			for (int k = 0; k < n; k++) {
				Crowd &c = crowd[k];
				H_OK(nng_aio_alloc(&c.aio, crowd_cb, &c));
				c.is_sleep = smod > 0 && (k % smod) == 0;
				if (c.is_sleep)
					nng_sleep_aio(crowd_T, c.aio);
				else {
					nng_aio_set_expire(c.aio, deadline);
					nng_socket_recv(crowd_sock, c.aio);
				}
			}
			vr_tagf("crowd_%s", n > 100 ? "over_batch" : "small");
		}
	// actors
	std::vector<Actor> actors;
	bool               have_free = false;
	int                latest    = 0;
	for (int i = 2; i < vc->nops && actors.size() < 6; i++) {
		const vop *a = &vc->ops[i];
		if (strcmp(a->name, "actor") != 0)
			continue;
		Actor A;
		A.M    = &M;
		A.what = (int) vop_arg(a, 0, 0);
		A.at   = (int) vop_arg(a, 1, 0);
		if (A.what < 0 || A.what > 6 || A.at < 0 || A.at > 200)
			continue;
		if (A.what == 6) {
			if (have_free)
				continue;
			have_free = true;
		}
		actors.push_back(A);
		latest = std::max(latest, A.at);
	}
	if (have_free) {
		// nothing else may touch the aio once it is being freed (documented precondition): keep only actors that work on sockets
		std::vector<Actor> keep;
		for (auto &A : actors)
			if (A.what == 6 || A.what == 0 || A.what == 5)
				keep.push_back(A);
		actors = keep;
		M.resub = 0;
	}
	int racers = 0;
	for (auto &A : actors)
		if (A.what != 4)
			racers++;
	submit(&M);
	std::vector<int> handles;
	for (auto &A : actors)
		handles.push_back(vs_spawn(actor_main, &A));
	vs_sleep(latest + (T > 0 ? T : 0) + 60);
	vs_settle();
	// the operation may still be legitimately pending (nobody completes, cancels or closes it), possibly with an
	// actor blocked in nng_aio_wait / nng_aio_stop / nng_aio_free on it: finish it now, then collect the actors
	M.resub = 0; // no further re-submission: the harness is winding the case down
	{
		// round 7: once the close of the socket / context / dialer the operation is pending on has RETURNED and the library is
		// quiescent, the operation must have completed - judged before the harness cancels what is left (its cancel would run
		// the provider's cancel function on the destroyed object and look like the recorded cancel hand-off finding)
		bool closed_obj = false;
		for (auto &A : actors)
			closed_obj = closed_obj || (A.what == 5 && A.done);
		bool close_kind = !(M.kind == K_SLEEP || M.kind == K_DEVICE || M.kind == K_HTTP_TRANSACT || M.kind == K_WS_DIAL || M.kind == K_STREAM_RECV || M.kind == K_STREAM_SEND ||
		    M.kind == K_STREAM_ACCEPT);
		if (closed_obj && close_kind && !M.freed && M.callbacks < M.submissions && M.fail_sig == nullptr)
			vr_fail("C02:pending-after-close", "%s: the object the operation was pending on has been closed (the close returned, the library is quiescent) but the operation is still pending: %d submission(s), %d callback(s)",
			    kKindName[M.kind], M.submissions, M.callbacks);
		if (closed_obj && close_kind)
			vr_tag("object_closed_while_tracked");
	}
	bool all_done = true;
	for (auto &A : actors)
		all_done = all_done && A.done;
	if (!M.freed && (M.callbacks < M.submissions || !all_done)) {
		if (M.callbacks < M.submissions)
			vr_tag("still_pending_at_end");
		bool freeing = false;
		for (auto &A : actors)
			if (A.what == 6 && !A.done)
				freeing = true; // nng_aio_free is already waiting for the operation: it aborts it by itself
		if (!freeing)
			nng_aio_cancel(M.aio);
		vs_settle();
	}
	for (auto h : handles)
		vs_join(h);
	vs_settle();
	if (!M.freed) {
		nng_aio_wait(M.aio);
		if (nng_aio_busy(M.aio))
			mon_fail(&M, "C02:busy-after-wait", "%s: busy after wait", kKindName[M.kind]);
	}
	vs_settle();
	if (M.fail_sig)
		vr_fail(M.fail_sig, "%s", M.fail_msg);
	VR_CHECK(M.callbacks == M.submissions, "C02:callback-count", "%s (pre-state %d): %d submission(s) but %d callback(s); results %d %d %d", kKindName[M.kind], pre,
	    M.submissions, M.callbacks, M.callbacks > 0 ? M.results[0] : -1, M.callbacks > 1 ? M.results[1] : -1, M.callbacks > 2 ? M.results[2] : -1);
	// an operation submitted on a stopped aio must not stay pending: it completes at once, with NNG_ESTOPPED unless the
	// provider could finish it synchronously (several fast paths never look at the aio state; not judged here)
	// (a crowd keeps the clock creeping while it is processed: the promptness bounds are only judged without one)
	if (pre == 3 && crowd.empty())
		VR_CHECK(M.times[0] <= M.t_submit + 5 && (M.results[0] == NNG_ESTOPPED || M.results[0] == 0 || M.results[0] == NNG_ESTATE), "C02:stopped-aio-result",
		    "%s: operation on a stopped aio completed with %d after %llu ms", kKindName[M.kind], M.results[0], (unsigned long long) (M.times[0] - M.t_submit));
	if (pre == 1 && M.kind != K_SLEEP && M.kind != K_DEVICE && crowd.empty())
		VR_CHECK(M.callbacks >= 1 && M.times[0] <= M.t_submit + 5, "C02:zero-timeout-blocked", "%s: zero-timeout operation took %llu ms", kKindName[M.kind],
		    (unsigned long long) (M.times[0] - M.t_submit));
	// every crowd operation timed out exactly once, never early, and none was forgotten by the expire thread
	if (!crowd.empty()) {
		int lost = 0, early = 0, twice = 0, wrong = 0;
		for (auto &c : crowd) {
			if (c.callbacks == 0)
				lost++;
			else if (c.callbacks > 1)
				twice++;
			else if (c.t_done < crowd_t0 + (uint64_t) crowd_T)
				early++;
			else if (c.rv != (c.is_sleep ? 0 : NNG_ETIMEDOUT))
				wrong++;
		}
		VR_CHECK(lost == 0 && early == 0 && twice == 0 && wrong == 0, "C02:crowd-timeouts",
		    "%d operations with a %d ms timeout, %llu ms later: %d never completed, %d completed early, %d completed twice, %d with a wrong result", (int) crowd.size(),
		    crowd_T, (unsigned long long) (vs_now() - crowd_t0), lost, early, twice, wrong);
		for (auto &c : crowd)
			nng_aio_free(c.aio);
		nng_socket_close(crowd_sock);
	}
	// phase 2 (not for streams whose close actor ran): the aio is idle again; a cancel/abort issued now "has no effect", in particular not on the next operation
	for (int i = 2; i < vc->nops; i++) {
		const vop *ag = &vc->ops[i];
		if (strcmp(ag->name, "again") != 0)
			continue;
		if (M.freed || M.stop_returned || pre == 3 || M.fail_sig || M.kind == K_DEVICE || M.kind == K_DIAL || M.kind == K_HTTP_TRANSACT || M.kind == K_WS_DIAL)
			break;
		int idle = (int) vop_arg(ag, 0, 0);
		if (idle == 1)
			nng_aio_cancel(M.aio);
		else if (idle == 2)
			nng_aio_abort(M.aio, NNG_EINTERNAL);
		if (idle)
			vr_tag("idle_cancel_then_resubmit");
		vs_settle();
		if (M.kind == K_RECV_REQCTX && M.have_ctx) {
			nng_aio *sa;
			H_OK(nng_aio_alloc(&sa, NULL, NULL));
			nng_aio_set_msg(sa, h_msg(0x03000003u, 0));
			nng_ctx_send(M.ctx, sa);
			nng_aio_wait(sa);
			if (nng_aio_result(sa) != 0)
				nng_msg_free(nng_aio_get_msg(sa));
			nng_aio_free(sa);
		}
		if (kind_uses_ctx(M.kind) && !M.have_ctx)
			break; // the context handle is gone: nothing to submit on
		M.phase2 = true;
		int before = M.callbacks;
		submit(&M);
		Actor A2;
		A2.M    = &M;
		A2.what = 0;
		A2.at   = 1;
		int h2  = vs_spawn(actor_main, &A2);
		vs_sleep((T > 0 ? T : 0) + 30);
		vs_join(h2);
		vs_settle();
		if (M.callbacks == before) {
			M.harness_cancel = true;
			nng_aio_cancel(M.aio);
		}
		nng_aio_wait(M.aio);
		vs_settle();
		if (M.fail_sig)
			vr_fail(M.fail_sig, "%s", M.fail_msg);
		VR_CHECK(M.callbacks == M.submissions, "C02:callback-count", "%s second operation: %d submission(s) but %d callback(s)", kKindName[M.kind], M.submissions, M.callbacks);
		break;
	}
	if (racers >= 2)
		vr_tag("two_racers");
	if (M.overlaps)
		vr_tag("overlapping_callbacks");
	if (M.submissions > 1)
		vr_tag("resubmitted");
	std::set<int> ats;
	for (auto &A : actors)
		if (!ats.insert(A.at).second)
			vr_tag("equal_times");
	// teardown
	if (!M.freed)
		nng_aio_free(M.aio);
	if (M.have_ctx)
		nng_ctx_close(M.ctx);
	if (M.kind == K_STREAM_RECV || M.kind == K_STREAM_SEND || M.kind == K_STREAM_ACCEPT) {
		if (M.st != nullptr)
			nng_stream_free(M.st);
		for (auto *ns : M.accepted)
			nng_stream_free(ns);
		nng_stream_listener_free(M.sl);
		if (M.have_raw)
			rp_close(&M.raw);
		free(M.bigbuf);
	} else if (M.kind == K_SEND_XREQ) {
		for (auto *fa : M.fill)
			if (fa) {
				nng_aio_cancel(fa);
				nng_aio_wait(fa);
				if (nng_aio_result(fa) != 0 && nng_aio_get_msg(fa))
					nng_msg_free(nng_aio_get_msg(fa));
				nng_aio_free(fa);
			}
		nng_socket_close(M.s);
		nng_socket_close(M.peer);
	} else if (M.kind == K_HTTP_TRANSACT) {
		nng_http_close(M.http);
		nng_http_client_free(M.hcli);
		nng_url_free(M.hurl);
		if (M.have_raw)
			rp_close(&M.raw);
	} else if (M.kind == K_WS_DIAL) {
		for (auto *ns : M.dialed)
			nng_stream_free(ns);
		nng_stream_dialer_free(M.wsd);
		if (M.have_raw)
			rp_close(&M.raw);
	} else if (M.kind == K_DEVICE) {
		nng_socket_close(M.s);
		nng_socket_close(M.dev2);
		if (M.have_feeder)
			nng_socket_close(M.peer);
	} else if (M.kind != K_SLEEP) {
		nng_socket_close(M.s);
		if (M.kind != K_DIAL)
			nng_socket_close(M.peer);
	}
	if (M.lfd >= 0)
		close(M.lfd);
	if (!M.path.empty())
		unlink(M.path.c_str());
	h_end();
	return 0;
}

using namespace rc;

std::string
gen_c02()
{
	std::ostringstream t;
	int mode = *pbt::welem<int>({{2, 0}, {3, 1}, {3, 2}, {2, 3}});
	t << "cfg " << *pbt::range<int>(1, 1000000) << " " << mode << " " << (mode == 3 ? *gen::element(5, 20, 50) : *gen::element(10, 30, 60)) << " " << *pbt::range<int>(0, 3) << " " << (mode == 3 ? *gen::element(60, 150, 400) : 300) << " 0\n";
	int T = *gen::element(1, 5, 20, 50);
	t << "op " << *pbt::range<int>(0, K_NKINDS - 1) << " " << *pbt::welem<int>({{4, 0}, {1, 1}, {4, 2}, {1, 3}}) << " " << T << " " << *pbt::welem<int>({{5, 0}, {2, 1}, {1, 2}, {1, 3}}) << " "
	  << *pbt::range<int>(0, 5) << " " << *pbt::range<int>(0, 3) << "\n";
	int na = *pbt::range<int>(1, 4);
	for (int i = 0; i < na; i++) {
		int what = *pbt::welem<int>({{5, 0}, {4, 1}, {2, 2}, {4, 3}, {2, 4}, {4, 5}, {1, 6}});
		int at   = *gen::weightedOneOf<int>({{5, gen::element(0, 1, T - 1 > 0 ? T - 1 : 0, T, T + 1)}, {1, pbt::range<int>(0, 60)}});
		t << "actor " << what << " " << at << "\n";
	}
	if (*pbt::welem<int>({{4, 0}, {1, 1}}))
		t << "presleep " << *gen::element(1, 3, 10) << "\n";
	if (*pbt::welem<int>({{3, 0}, {1, 1}}))
		t << "again " << *pbt::welem<int>({{1, 0}, {2, 1}, {2, 2}}) << "\n";
	if (*pbt::welem<int>({{7, 0}, {1, 1}}))
		t << "crowd " << *gen::element(20, 99, 100, 101, 130, 250) << " " << *gen::element(1, 5, T) << " " << *gen::element(0, 0, 3, 8) << "\n";
	return t.str();
}

} // namespace

int
main(int argc, char **argv)
{
	pbt::PropSpec sp;
	sp.id   = "C02";
	sp.gen  = gen_c02;
	sp.exec = exec_c02;
	sp.rule = "one operation of 28 kinds (sleep; receive on pair/pair1/pull/sub/rep/bus/surveyor/respondent sockets, raw rep/sub sockets and req/rep/sub/surveyor contexts; blocked send on push/pair/pair1, queued request on a REQ socket / context without a replier, raw REQ send queue with waiting writers; HTTP transaction and WebSocket dial against a raw server; dialer start towards "
	          "nobody or a stalling listener; device; nng_stream receive, blocked 8 MiB send and accept over ipc / tcp against a raw peer) on an aio that is fresh, zero-timeout, timed (1..50 ms) or already stopped, optionally re-submitted "
	          "1-3 times from its callback, raced by 1-4 actors (completer, cancel, abort, stop, wait, close of the underlying object, free) acting at "
	          "virtual times chosen from {0,1,T-1,T,T+1} under fifo / random / PCT schedules; optionally a crowd of 20..250 sleeps/receives falling due together on the "
	          "same expire queue (each must time out exactly once, never early, none forgotten), and optionally a second operation on the same aio after an "
	          "idle-time cancel/abort (which must have no effect on it). Non-trivial = at least two racers (completion, cancel/abort, "
	          "expiry, stop, close) were armed for the same operation; distinct by case hash";
	sp.nontrivial = [](const std::set<std::string> &t) { return t.count("two_racers") || (t.count("pre_timeout") && !t.count("still_pending_at_end")); };
	return pbt::pbt_main(argc, argv, sp);
}
