// C01: whole-message integrity on every transport, under any segmentation.
// World 0: nng <-> nng over inproc / ipc / tcp / socket-fd / ws, with short-transfer injection (E2) on
//          every readv/writev/sendmsg/send of the library, cooked and raw protocols (headers re-parsed).
// World 1: raw SP wire peer <-> nng over socket-fd / ipc / tcp: the harness cuts the byte stream at
//          generated (and, for small frames, all) positions and checks the wire format nng emits.
#include "pbt.hpp"
#include "nngh.h"
#include "rawpeer.h"
#include "iowrap.h"
#include <deque>
#include <unistd.h>

namespace {

using Bytes = std::vector<uint8_t>;

static Bytes
payload(uint32_t seed, size_t n)
{
	Bytes b(n);
	uint32_t x = seed * 2654435761u + 12345;
	for (size_t i = 0; i < n; i++) {
		x    = x * 1664525u + 1013904223u;
		b[i] = (uint8_t) (x >> 24);
	}
	return b;
}

static std::string
unique_path(const char *tag)
{
	char buf[128];
	snprintf(buf, sizeof buf, "/tmp/verif-c01-%d-%s", (int) getpid(), tag);
	return buf;
}

enum { T_INPROC, T_IPC, T_TCP, T_SOCKET, T_WS };
enum { P_PAIR0, P_PAIR1, P_XPAIR1, P_XREQREP };

struct Sent {
	Bytes body, hdr; // hdr: raw protocols only (what the sender put in the header)
};

static void
set_plan(const vop *o, bool write)
{
	int v[IO_MAXPLAN], n = 0;
	for (int i = 0; i < o->na && n < IO_MAXPLAN; i++)
		v[n++] = (int) o->a[i];
	static int wp[IO_MAXPLAN], rp_[IO_MAXPLAN], nwp = 0, nrp = 0;
	if (write) {
		memcpy(wp, v, sizeof(int) * n);
		nwp = n;
	} else {
		memcpy(rp_, v, sizeof(int) * n);
		nrp = n;
	}
	io_plan(wp, nwp, rp_, nrp, 0); // not cycling: the plan is re-armed before every message, large bodies then flow freely
}

// ---------------------------------------------------------------------------- world 0
int
exec_nn(const vcase *vc, int tr, int pr)
{
	nng_socket   s[2];
	nng_listener l[2];
	std::string  url;
	switch (pr) {
	case P_PAIR0: H_OK(nng_pair0_open(&s[0])); H_OK(nng_pair0_open(&s[1])); break;
	case P_PAIR1: H_OK(nng_pair1_open(&s[0])); H_OK(nng_pair1_open(&s[1])); break;
	case P_XPAIR1: H_OK(nng_pair1_open_raw(&s[0])); H_OK(nng_pair1_open_raw(&s[1])); break;
	default: H_OK(nng_req0_open_raw(&s[0])); H_OK(nng_rep0_open_raw(&s[1])); break;
	}
	for (int i = 0; i < 2; i++) {
		nng_socket_set_int(s[i], NNG_OPT_SENDBUF, 8);
		nng_socket_set_int(s[i], NNG_OPT_RECVBUF, 8);
		nng_socket_set_int(s[i], NNG_OPT_MAXTTL, 15);
		nng_socket_set_size(s[i], NNG_OPT_RECVMAXSZ, 0);
	}
	int fds[2] = {-1, -1};
	if (tr == T_SOCKET) {
		H_OK(nng_socket_pair(fds));
		for (int i = 0; i < 2; i++) {
			H_OK(nng_listener_create(&l[i], s[i], "socket://"));
			H_OK(nng_listener_start(l[i], 0));
			H_OK(nng_listener_set_int(l[i], NNG_OPT_SOCKET_FD, fds[i]));
		}
	} else {
		switch (tr) {
		case T_INPROC: url = "inproc://c01"; break;
		case T_IPC: url = "ipc://" + unique_path("ipc"); break;
		case T_TCP: url = "tcp://127.0.0.1:0"; break;
		default: url = "ws://127.0.0.1:0/c01"; break;
		}
		H_OK(nng_listener_create(&l[0], s[0], url.c_str()));
		H_OK(nng_listener_start(l[0], 0));
		if (tr == T_TCP || tr == T_WS) {
			int port = 0;
			H_OK(nng_listener_get_int(l[0], NNG_OPT_BOUND_PORT, &port));
			char b[64];
			snprintf(b, sizeof b, tr == T_TCP ? "tcp://127.0.0.1:%d" : "ws://127.0.0.1:%d/c01", port);
			url = b;
		}
	}
	bool connected = tr == T_SOCKET;
	bool tiny_frames = false;
	nng_dialer d;
	auto ensure_connected = [&]() {
		if (!connected) {
			H_OK(nng_dial(s[1], url.c_str(), &d, 0));
			connected = true;
			vs_settle();
		}
	};
	std::deque<Sent> fly[2]; // fly[dir]: sent by side dir, not yet received by the other side
	uint32_t nsent = 0, nrecv = 0;
	auto drain = [&](int rx, bool all) {
		// receive everything (or at least what is there) on side rx and compare with what side 1-rx sent
		std::deque<Sent> &q = fly[1 - rx];
		for (int guard = 0; guard < 600; guard++) {
			nng_msg *m  = nullptr;
			int      rv = nng_recvmsg(s[rx], &m, NNG_FLAG_NONBLOCK);
			if (rv == NNG_EAGAIN) {
				if (!all || q.empty())
					return;
				// data may still be in flight (clamped transfers need several poller rounds)
				vs_sleep(1);
				vs_settle();
				if (guard > 400)
					vr_fail("C01:message-lost", "side %d: %zu message(s) sent over a live connection never arrived (first has %zu bytes)", rx, q.size(),
					    q.front().body.size());
				continue;
			}
			VR_CHECK(rv == 0, "C01:recv-error", "receive -> %d", rv);
			if (q.empty())
				vr_fail("C01:phantom-message", "side %d received a %zu-byte message that was never sent (duplicate or invented)", rx, nng_msg_len(m));
			Sent &e = q.front();
			size_t bl = nng_msg_len(m);
			if (bl != e.body.size() || (bl && memcmp(nng_msg_body(m), e.body.data(), bl) != 0)) {
				size_t i = 0;
				const uint8_t *p = (const uint8_t *) nng_msg_body(m);
				while (i < bl && i < e.body.size() && p[i] == e.body[i])
					i++;
				vr_fail("C01:body-mismatch", "side %d: message #%u arrived with %zu bytes, sent %zu; first difference at offset %zu (truncated, merged, altered or reordered)",
				    rx, nrecv, bl, e.body.size(), i);
			}
			if (pr == P_XPAIR1) {
				// hop word travels in front of the body and comes back as header, incremented
				VR_CHECK(nng_msg_header_len(m) == 4, "C01:header-reparse", "raw pair1 header length %zu", nng_msg_header_len(m));
				uint32_t hs = ((uint32_t) e.hdr[0] << 24) | (e.hdr[1] << 16) | (e.hdr[2] << 8) | e.hdr[3];
				const uint8_t *h = (const uint8_t *) nng_msg_header(m);
				uint32_t hr = ((uint32_t) h[0] << 24) | (h[1] << 16) | (h[2] << 8) | h[3];
				VR_CHECK(hr == hs + 1, "C01:header-reparse", "raw pair1 hop word %u arrived as %u", hs, hr);
			} else if (pr == P_XREQREP && rx == 1) {
				// xrep: [pipe id] + the backtrace the sender put into its header; nothing may leak into the body
				size_t hl = nng_msg_header_len(m);
				VR_CHECK(hl == e.hdr.size() + 4, "C01:header-reparse", "xrep header is %zu bytes for a %zu-byte backtrace", hl, e.hdr.size());
				VR_CHECK(e.hdr.empty() || memcmp((const uint8_t *) nng_msg_header(m) + 4, e.hdr.data(), e.hdr.size()) == 0, "C01:header-reparse",
				    "backtrace bytes altered in transit");
			}
			nng_msg_free(m);
			q.pop_front();
			nrecv++;
		}
	};
	for (int i = 2; i < vc->nops; i++) {
		const vop  *o = &vc->ops[i];
		std::string n = o->name;
		vr_at(i, o->name);
		if (n == "wplan" || n == "rplan") {
			set_plan(o, n == "wplan");
			io_enable(1);
		} else if (n == "wsmax") {
			if (tr == T_WS && !connected) {
				size_t v = (size_t) vop_arg(o, 0, 0);
				nng_listener_set_size(l[0], NNG_OPT_WS_SENDMAXFRAME, v);
				if (v > 0 && v < 100)
					tiny_frames = true; // one frame per byte or two: keep messages small or the case takes minutes
				vr_tagf("wsmax");
			}
		} else if (n == "premsg") { // queue a message on the listening side before anybody connects: it is written the
			// moment the connection comes up, i.e. back to back with the transport's own handshake bytes
			if (connected || (pr != P_PAIR0 && pr != P_PAIR1))
				continue;
			size_t sz = (size_t) vop_arg(o, 0, 0);
			if (sz > 300000)
				sz = 300000;
			if (tiny_frames && sz > 3000)
				sz = 3000;
			Sent e;
			e.body = payload((uint32_t) vop_arg(o, 1, 1) + nsent, sz);
			nng_msg *m;
			H_OK(nng_msg_alloc(&m, 0));
			if (sz)
				H_OK(nng_msg_append(m, e.body.data(), sz));
			int rv = nng_sendmsg(s[0], m, NNG_FLAG_NONBLOCK);
			if (rv != 0) {
				nng_msg_free(m);
				continue;
			}
			fly[0].push_back(e);
			nsent++;
			vr_tag("queued_before_connect");
		} else if (n == "msg") { // msg dir size seed hdrwords
			ensure_connected();
			int    dir = (int) vop_arg(o, 0, 0) & 1;
			size_t sz  = (size_t) vop_arg(o, 1, 0);
			if (sz > 300000)
				sz = 300000;
			if (tiny_frames && sz > 3000)
				sz = 3000;
			io_rearm();
			if (pr == P_XREQREP)
				dir = 0; // requests only (replies need routing state)
			Sent     e;
			e.body = payload((uint32_t) vop_arg(o, 2, 1) + nsent, sz);
			nng_msg *m;
			H_OK(nng_msg_alloc(&m, 0));
			if (sz)
				H_OK(nng_msg_append(m, e.body.data(), sz));
			if (pr == P_XPAIR1) {
				uint32_t hop = 1 + (uint32_t) (vop_arg(o, 3, 0) % 10);
				e.hdr        = {0, 0, 0, (uint8_t) hop};
				nng_msg_header_append_u32(m, hop);
			} else if (pr == P_XREQREP) {
				int words = (int) (vop_arg(o, 3, 0) % 14);
				for (int w = 0; w < words; w++) {
					uint32_t v = 0x00010000u + (uint32_t) w;
					nng_msg_header_append_u32(m, v);
					e.hdr.push_back(v >> 24); e.hdr.push_back(v >> 16); e.hdr.push_back(v >> 8); e.hdr.push_back(v);
				}
				uint32_t id = 0x80000000u | (nsent + 1);
				nng_msg_header_append_u32(m, id);
				e.hdr.push_back(id >> 24); e.hdr.push_back(id >> 16); e.hdr.push_back(id >> 8); e.hdr.push_back(id);
				if (words)
					vr_tag("raw_header");
			}
			if (((uint32_t) vop_arg(o, 2, 1) + nsent) % 3 == 0) {
				// round 7: the application keeps its original and sends a duplicate (header and body must travel as they were)
				nng_msg *d = nullptr;
				H_OK(nng_msg_dup(&d, m));
				nng_msg_free(m);
				m = d;
				vr_tag("sent_duplicate");
			}
			int rv = nng_sendmsg(s[dir], m, NNG_FLAG_NONBLOCK);
			if (rv == NNG_EAGAIN) {
				// buffers full: drain the other side and retry once with a timeout
				nng_msg_free(m);
				drain(1 - dir, true);
				continue;
			}
			VR_CHECK(rv == 0, "C01:send-error", "send -> %d", rv);
			fly[dir].push_back(e);
			nsent++;
			if (sz == 0)
				vr_tag("empty_message");
			if (sz >= 65536)
				vr_tag("large_message");
			vs_settle();
		} else if (n == "recv") {
			ensure_connected();
			drain((int) vop_arg(o, 0, 0) & 1, false);
		} else if (n == "sync") {
			ensure_connected();
			drain(0, true);
			drain(1, true);
		}
	}
	ensure_connected();
	drain(0, true);
	drain(1, true);
	long cw = io_clamped_writes(), crd = io_clamped_reads();
	io_enable(0);
	vr_count(1, cw);
	vr_count(2, crd);
	if ((cw > 0 || crd > 0) && nrecv > 0 && tr != T_INPROC)
		vr_tag("short_transfers");
	if (nrecv >= 2)
		vr_tag("multi");
	nng_socket_close(s[1]);
	nng_socket_close(s[0]);
	if (tr == T_IPC)
		unlink(unique_path("ipc").c_str());
	return 0;
}

// ---------------------------------------------------------------------------- world 1
int
exec_raw(const vcase *vc, int tr, int pr)
{
	nng_socket   a;
	nng_listener l;
	rp           P;
	bool         up = false;
	uint16_t     proto = pr == P_PAIR0 ? SP_PAIR0 : SP_PAIR1;
	if (pr == P_PAIR0)
		H_OK(nng_pair0_open(&a));
	else if (pr == P_PAIR1)
		H_OK(nng_pair1_open(&a));
	else
		H_OK(nng_pair1_open_raw(&a));
	nng_socket_set_int(a, NNG_OPT_RECVBUF, 8);
	nng_socket_set_int(a, NNG_OPT_SENDBUF, 8);
	nng_socket_set_size(a, NNG_OPT_RECVMAXSZ, 0);
	std::string path = unique_path("raw");
	int         port = 0;
	if (tr == T_SOCKET) {
		H_OK(nng_listener_create(&l, a, "socket://"));
		H_OK(nng_listener_start(l, 0));
	} else if (tr == T_IPC) {
		H_OK(nng_listener_create(&l, a, ("ipc://" + path).c_str()));
		H_OK(nng_listener_start(l, 0));
	} else {
		H_OK(nng_listener_create(&l, a, "tcp://127.0.0.1:0"));
		H_OK(nng_listener_start(l, 0));
		H_OK(nng_listener_get_int(l, NNG_OPT_BOUND_PORT, &port));
	}
	int  kind    = tr == T_SOCKET ? RP_SOCKET : tr == T_IPC ? RP_IPC : RP_TCP;
	int  hdrlen  = pr == P_PAIR0 ? 0 : 4; // pair1 carries a hop word in front of the body
	auto connect = [&]() {
		int rv = tr == T_SOCKET ? rp_attach_socket(&P, l) : tr == T_IPC ? rp_connect_ipc(&P, path.c_str()) : rp_connect_tcp(&P, port);
		VR_CHECK(rv == 0, "harness:connect", "raw connect failed %d", rv);
		uint16_t pp = 0;
		int      hr = rp_handshake(&P, proto, &pp);
		VR_CHECK(hr == 0 && pp == proto, "harness:handshake", "handshake %d %x", hr, pp);
		vs_settle();
		up = true;
	};
	uint32_t seq = 0;
	// encode the wire frame for a body: [ipc type] len8 [hop word] body
	auto frame = [&](const Bytes &body, Bytes &out) {
		Bytes pl;
		if (hdrlen) {
			pl.push_back(0); pl.push_back(0); pl.push_back(0); pl.push_back(1);
		}
		pl.insert(pl.end(), body.begin(), body.end());
		out.resize(pl.size() + 9);
		size_t n = rp_frame(out.data(), kind, pl.data(), pl.size());
		out.resize(n);
	};
	auto expect_recv = [&](const Bytes &body, const char *how) {
		nng_msg *m  = nullptr;
		int      rv = NNG_EAGAIN;
		for (int g = 0; g < 200 && rv == NNG_EAGAIN; g++) {
			rv = nng_recvmsg(a, &m, NNG_FLAG_NONBLOCK);
			if (rv == NNG_EAGAIN) {
				vs_sleep(1);
				vs_settle();
			}
		}
		VR_CHECK(rv == 0, "C01:message-lost", "%s: complete %zu-byte frame written, receive -> %d", how, body.size(), rv);
		size_t bl = nng_msg_len(m);
		if (bl != body.size() || (bl && memcmp(nng_msg_body(m), body.data(), bl) != 0))
			vr_fail("C01:body-mismatch", "%s: received %zu bytes for a %zu-byte message (truncated, merged or altered)", how, bl, body.size());
		if (pr == P_XPAIR1) {
			const uint8_t *h = (const uint8_t *) nng_msg_header(m);
			VR_CHECK(nng_msg_header_len(m) == 4 && h[3] == 1 && h[0] == 0, "C01:header-reparse", "raw pair1 header not re-parsed from the wire");
		}
		nng_msg_free(m);
	};
	auto expect_nothing = [&](const char *how) {
		nng_msg *m;
		int      rv = nng_recvmsg(a, &m, NNG_FLAG_NONBLOCK);
		if (rv == 0)
			vr_fail("C01:partial-delivered", "%s: a message of %zu bytes was delivered although no complete frame was written", how, nng_msg_len(m));
	};
	long cuts_prefix = 0, cuts_body = 0;
	for (int i = 2; i < vc->nops; i++) {
		const vop  *o = &vc->ops[i];
		std::string n = o->name;
		vr_at(i, o->name);
		if (n == "wplan" || n == "rplan") {
			set_plan(o, n == "wplan");
			io_enable(1);
		} else if (n == "in") { // in size seed chunk...  : one frame, written in the given chunks
			if (!up)
				connect();
			size_t sz = (size_t) vop_arg(o, 0, 0);
			if (sz > 300000)
				sz = 300000;
			Bytes body = payload((uint32_t) vop_arg(o, 1, 1) + ++seq, sz), f;
			frame(body, f);
			io_rearm();
			int chunks[16], nc = 0;
			size_t off = 0;
			for (int k = 2; k < o->na && nc < 16; k++) {
				chunks[nc++] = (int) o->a[k];
				off += (size_t) o->a[k];
				if (o->a[k] > 0 && off < f.size()) {
					if (off < (size_t) (kind == RP_IPC ? 9 : 8))
						cuts_prefix++;
					else
						cuts_body++;
				}
			}
			int wr = rp_write_chunked(&P, f.data(), f.size(), chunks, nc);
			VR_CHECK(wr == 0, "harness:write", "raw write failed %d", wr);
			vs_settle();
			expect_recv(body, "chunked frame");
			vr_tag("inbound");
		} else if (n == "in2") { // two frames in one stream, cut at arbitrary positions (merging)
			if (!up)
				connect();
			Bytes b1 = payload(++seq, (size_t) vop_arg(o, 0, 0) % 5000), b2 = payload(++seq, (size_t) vop_arg(o, 1, 0) % 5000), f1, f2;
			frame(b1, f1);
			frame(b2, f2);
			f1.insert(f1.end(), f2.begin(), f2.end());
			int chunks[16], nc = 0;
			for (int k = 2; k < o->na && nc < 16; k++)
				chunks[nc++] = (int) o->a[k];
			int wr = rp_write_chunked(&P, f1.data(), f1.size(), chunks, nc);
			VR_CHECK(wr == 0, "harness:write", "raw write failed %d", wr);
			vs_settle();
			expect_recv(b1, "first of two back-to-back frames");
			expect_recv(b2, "second of two back-to-back frames");
			vr_tag("back_to_back");
		} else if (n == "allcuts") { // every 2-way split of a small frame
			if (!up)
				connect();
			size_t sz = (size_t) vop_arg(o, 0, 0) % 40;
			for (size_t pos = 1;; pos++) {
				Bytes body = payload(++seq, sz), f;
				frame(body, f);
				if (pos >= f.size())
					break;
				int ch[1] = {(int) pos};
				int wr    = rp_write_chunked(&P, f.data(), f.size(), ch, 1);
				VR_CHECK(wr == 0, "harness:write", "raw write failed %d", wr);
				vs_settle();
				expect_recv(body, "frame split at every position");
				if (pos < (size_t) (kind == RP_IPC ? 9 : 8))
					cuts_prefix++;
				else
					cuts_body++;
			}
			vr_tag("all_cut_positions");
		} else if (n == "trunc") { // write only a prefix of a frame, then disconnect: nothing may be delivered
			if (!up)
				connect();
			size_t sz = (size_t) vop_arg(o, 0, 0) % 3000;
			Bytes  body = payload(++seq, sz), f;
			frame(body, f);
			size_t cut = (size_t) vop_arg(o, 1, 1) % f.size();
			int    wr  = rp_write(&P, f.data(), cut);
			VR_CHECK(wr == 0, "harness:write", "raw write failed %d", wr);
			vs_settle();
			expect_nothing("truncated frame (before close)");
			rp_close(&P);
			up = false;
			vs_settle();
			vs_sleep(2);
			vs_settle();
			expect_nothing("truncated frame (after close)");
			vr_tag("truncated");
		} else if (n == "out") { // nng sends; the wire must carry len8 + [hop word] + body, nothing else
			if (!up)
				connect();
			size_t sz = (size_t) vop_arg(o, 0, 0);
			if (sz > 300000)
				sz = 300000;
			Bytes    body = payload((uint32_t) vop_arg(o, 1, 1) + ++seq, sz);
			nng_msg *m;
			io_rearm();
			H_OK(nng_msg_alloc(&m, 0));
			if (sz)
				H_OK(nng_msg_append(m, body.data(), sz));
			if (pr == P_XPAIR1)
				nng_msg_header_append_u32(m, 0);
			nng_aio *aio;
			H_OK(nng_aio_alloc(&aio, NULL, NULL));
			nng_aio_set_timeout(aio, 5000);
			nng_aio_set_msg(aio, m);
			nng_socket_send(a, aio);
			// read while nng writes (large frames exceed the socket buffer)
			uint8_t *pl = nullptr;
			size_t   pn = 0;
			int      g  = 0;
			for (int it = 0; it < 20000 && g == 0; it++) {
				vs_settle();
				g = rp_recv_msg(&P, &pl, &pn);
				if (g == 0 && !vs_enabled())
					usleep(100);
				if (g == 0 && it > 50)
					vs_sleep(1);
			}
			nng_aio_wait(aio);
			VR_CHECK(nng_aio_result(aio) == 0, "C01:send-error", "send -> %d", nng_aio_result(aio));
			nng_aio_free(aio);
			VR_CHECK(g == 1, "C01:wire-frame", "no complete well-formed frame on the wire (%d)", g);
			VR_CHECK(pn == body.size() + (size_t) hdrlen, "C01:wire-length", "frame payload %zu bytes for a %zu-byte body (+%d header)", pn, body.size(), hdrlen);
			if (hdrlen)
				VR_CHECK(pl[0] == 0 && pl[1] == 0 && pl[2] == 0 && pl[3] == 1, "C01:wire-header", "hop word on the wire is not 1");
			VR_CHECK(body.empty() || memcmp(pl + hdrlen, body.data(), body.size()) == 0, "C01:wire-body", "body bytes altered on the wire");
			free(pl);
			rp_pump(&P);
			VR_CHECK(P.rxlen == 0, "C01:wire-extra", "%zu stray bytes follow the frame on the wire", P.rxlen);
			vr_tag("outbound");
		}
	}
	long cw = io_clamped_writes(), crd = io_clamped_reads();
	io_enable(0);
	vr_count(1, cw);
	vr_count(2, crd);
	vr_count(3, cuts_prefix);
	vr_count(4, cuts_body);
	if (cuts_prefix > 0)
		vr_tag("cut_in_length_prefix");
	if (cuts_body > 0)
		vr_tag("cut_in_body");
	if (cw > 0 || crd > 0)
		vr_tag("short_transfers");
	if (up)
		rp_close(&P);
	nng_socket_close(a);
	if (tr == T_IPC)
		unlink(path.c_str());
	return 0;
}

int
exec_c01(const vcase *vc)
{
	h_cfg cfg;
	if (vc->nops < 2 || strcmp(vc->ops[0].name, "cfg") != 0 || strcmp(vc->ops[1].name, "world") != 0)
		return 0;
	h_cfg_from_op(&cfg, &vc->ops[0]);
	int w = (int) vop_arg(&vc->ops[1], 0, 0), tr = (int) vop_arg(&vc->ops[1], 1, 0), pr = (int) vop_arg(&vc->ops[1], 2, 0);
	if (tr < 0 || tr > T_WS || pr < 0 || pr > P_XREQREP)
		return 0;
	if (w == 1 && (tr == T_INPROC || tr == T_WS))
		tr = T_SOCKET;
	if (w == 1 && pr == P_XREQREP)
		pr = P_XPAIR1;
	if (tr == T_TCP || tr == T_WS)
		cfg.grace_ms = 2;
	if (h_begin(&cfg) != 0)
		return 0;
	static const char *tn[] = {"inproc", "ipc", "tcp", "socket", "ws"};
	vr_tagf("w%d_%s", w, tn[tr]);
	vr_tagf("proto%d", pr);
	int rv = w == 0 ? exec_nn(vc, tr, pr) : exec_raw(vc, tr, pr);
	h_end();
	return rv;
}

using namespace rc;

Gen<long>
genSize()
{
	return gen::weightedOneOf<long>({
	    {10, gen::element<long>(0, 1, 2, 7, 8, 9, 31, 32, 33, 125, 126, 127, 128, 1023, 1024, 1025)},
	    {3, gen::element<long>(4096, 8191, 8192, 8193, 65535, 65536, 65537)},
	    {1, gen::element<long>(131072, 200000, 262144)},
	    {4, gen::map(pbt::range<int>(0, 3000), [](int v) { return (long) v; })},
	});
}

std::string
genChunks(int n)
{
	std::ostringstream o;
	for (int i = 0; i < n; i++)
		o << " " << *gen::weightedElement<int>({{6, 1}, {4, 2}, {3, 3}, {3, 4}, {3, 5}, {3, 7}, {3, 8}, {3, 9}, {2, 16}, {2, 100}, {1, 1000}, {2, 0}});
	return o.str();
}

std::string
gen_c01()
{
	std::ostringstream t;
	int mode = *pbt::welem<int>({{5, 0}, {1, 1}});
	int w    = *pbt::welem<int>({{1, 0}, {1, 1}});
	int tr   = *pbt::welem<int>({{1, 0}, {3, 1}, {2, 2}, {3, 3}, {3, 4}});
	int pr   = *pbt::welem<int>({{3, 0}, {3, 1}, {2, 2}, {2, 3}});
	t << "cfg " << *pbt::range<int>(1, 1000000) << " " << mode << " 20 1 600 0\n";
	t << "world " << w << " " << tr << " " << pr << "\n";
	if (*pbt::welem<int>({{1, 0}, {4, 1}}))
		t << "wplan" << genChunks(*pbt::range<int>(1, 40)) << "\n";
	if (*pbt::welem<int>({{1, 0}, {4, 1}}))
		t << "rplan" << genChunks(*pbt::range<int>(1, 40)) << "\n";
	if (w == 0 && tr == T_WS && *pbt::welem<int>({{1, 0}, {2, 1}}))
		t << "wsmax " << *gen::element(1, 2, 125, 126, 127, 65536, 0) << "\n";
	if (w == 0 && *pbt::welem<int>({{2, 0}, {1, 1}})) {
		int np = *pbt::range<int>(1, 4);
		for (int i = 0; i < np; i++)
			t << "premsg " << *genSize() << " " << *pbt::range<int>(1, 1000) << "\n";
	}
	int nops = *pbt::range<int>(1, 12);
	for (int i = 0; i < nops; i++) {
		if (w == 0) {
			int k = *gen::weightedElement<int>({{10, 0}, {3, 1}, {1, 2}});
			if (k == 0)
				t << "msg " << *pbt::range<int>(0, 1) << " " << *genSize() << " " << *pbt::range<int>(1, 1000) << " " << *pbt::range<int>(0, 13) << "\n";
			else if (k == 1)
				t << "recv " << *pbt::range<int>(0, 1) << "\n";
			else
				t << "sync\n";
		} else {
			int k = *gen::weightedElement<int>({{8, 0}, {3, 1}, {1, 2}, {2, 3}, {6, 4}});
			if (k == 0)
				t << "in " << *genSize() << " " << *pbt::range<int>(1, 1000) << genChunks(*pbt::range<int>(0, 8)) << "\n";
			else if (k == 1)
				t << "in2 " << *pbt::range<int>(0, 4000) << " " << *pbt::range<int>(0, 4000) << genChunks(*pbt::range<int>(1, 8)) << "\n";
			else if (k == 2)
				t << "allcuts " << *pbt::range<int>(0, 39) << "\n";
			else if (k == 3)
				t << "trunc " << *pbt::range<int>(0, 2999) << " " << *pbt::range<int>(1, 3000) << "\n";
			else
				t << "out " << *genSize() << " " << *pbt::range<int>(1, 1000) << "\n";
		}
	}
	return t.str();
}

} // namespace

int
main(int argc, char **argv)
{
	pbt::PropSpec sp;
	sp.id         = "C01";
	sp.gen        = gen_c01;
	sp.exec       = exec_c01;
	sp.watchdog_s = 45;
	sp.rule = "world 0: nng<->nng over inproc/ipc/tcp/socket-fd/ws with pair0, pair1, raw pair1 and raw req->rep (0..13 backtrace words), "
	          "message sizes from {0,1,2,7,8,9,31..33,125..128,1023..1025,4096,8191..8193,65535..65537,128K..256K, random<3000}, both "
	          "directions, with generated clamp plans on every readv/writev/sendmsg/send of the library (sizes 1..9 dominate) and "
	          "ws SENDMAXFRAME in {1,2,125,126,127,65536,0}; oracle: received sequence == sent sequence byte for byte, headers re-parsed. "
	          "world 1: raw wire peer over socket-fd/ipc/tcp: single frames and back-to-back frames written in generated chunks, every "
	          "2-way split of frames < 49 bytes, truncated frames followed by disconnect, and the exact wire format of what nng sends. "
	          "Non-trivial = at least one transfer was actually cut short (clamped call or harness chunk inside a frame); distinct by case hash";
	sp.nontrivial = [](const std::set<std::string> &t) {
		return t.count("short_transfers") || t.count("cut_in_length_prefix") || t.count("cut_in_body") || t.count("truncated");
	};
	return pbt::pbt_main(argc, argv, sp);
}
