// wsref: reference pieces for RFC 6455 / RFC 7230 written from the RFCs, not from nng's code:
// SHA-1, base64, the accept-key computation, a frame encoder that can produce every malformation the
// property lists, an incremental frame parser for what nng emits, and a small HTTP head parser.
#pragma once
#include <cstdint>
#include <cstring>
#include <string>
#include <vector>

namespace wsref {

using Bytes = std::vector<uint8_t>;

// ---- SHA-1 (FIPS 180-4)
inline void
sha1(const uint8_t *data, size_t len, uint8_t out[20])
{
	uint32_t h[5] = {0x67452301u, 0xEFCDAB89u, 0x98BADCFEu, 0x10325476u, 0xC3D2E1F0u};
	Bytes    m(data, data + len);
	m.push_back(0x80);
	while (m.size() % 64 != 56)
		m.push_back(0);
	uint64_t bits = (uint64_t) len * 8;
	for (int i = 7; i >= 0; i--)
		m.push_back((uint8_t) (bits >> (8 * i)));
	auto rol = [](uint32_t v, int s) { return (v << s) | (v >> (32 - s)); };
	for (size_t off = 0; off < m.size(); off += 64) {
		uint32_t w[80];
		for (int i = 0; i < 16; i++)
			w[i] = ((uint32_t) m[off + 4 * i] << 24) | ((uint32_t) m[off + 4 * i + 1] << 16) | ((uint32_t) m[off + 4 * i + 2] << 8) | m[off + 4 * i + 3];
		for (int i = 16; i < 80; i++)
			w[i] = rol(w[i - 3] ^ w[i - 8] ^ w[i - 14] ^ w[i - 16], 1);
		uint32_t a = h[0], b = h[1], c = h[2], d = h[3], e = h[4];
		for (int i = 0; i < 80; i++) {
			uint32_t f, k;
			if (i < 20) {
				f = (b & c) | (~b & d);
				k = 0x5A827999u;
			} else if (i < 40) {
				f = b ^ c ^ d;
				k = 0x6ED9EBA1u;
			} else if (i < 60) {
				f = (b & c) | (b & d) | (c & d);
				k = 0x8F1BBCDCu;
			} else {
				f = b ^ c ^ d;
				k = 0xCA62C1D6u;
			}
			uint32_t t = rol(a, 5) + f + e + k + w[i];
			e = d;
			d = c;
			c = rol(b, 30);
			b = a;
			a = t;
		}
		h[0] += a;
		h[1] += b;
		h[2] += c;
		h[3] += d;
		h[4] += e;
	}
	for (int i = 0; i < 5; i++) {
		out[4 * i]     = (uint8_t) (h[i] >> 24);
		out[4 * i + 1] = (uint8_t) (h[i] >> 16);
		out[4 * i + 2] = (uint8_t) (h[i] >> 8);
		out[4 * i + 3] = (uint8_t) h[i];
	}
}

inline std::string
base64(const uint8_t *d, size_t n)
{
	static const char *t = "ABCDEFGHIJKLMNOPQRSTUVWXYZabcdefghijklmnopqrstuvwxyz0123456789+/";
	std::string        o;
	for (size_t i = 0; i < n; i += 3) {
		uint32_t v = (uint32_t) d[i] << 16;
		if (i + 1 < n)
			v |= (uint32_t) d[i + 1] << 8;
		if (i + 2 < n)
			v |= d[i + 2];
		o += t[(v >> 18) & 63];
		o += t[(v >> 12) & 63];
		o += i + 1 < n ? t[(v >> 6) & 63] : '=';
		o += i + 2 < n ? t[v & 63] : '=';
	}
	return o;
}

inline std::string
accept_key(const std::string &key)
{
	std::string s = key + "258EAFA5-E914-47DA-95CA-C5AB0DC85B11";
	uint8_t     dg[20];
	sha1((const uint8_t *) s.data(), s.size(), dg);
	return base64(dg, 20);
}

// ---- frames
enum { OP_CONT = 0, OP_TEXT = 1, OP_BIN = 2, OP_CLOSE = 8, OP_PING = 9, OP_PONG = 10 };

struct FrameSpec {
	bool     fin = true;
	int      rsv = 0; // 3 bits
	int      op  = OP_BIN;
	bool     masked = false;
	int      lenform = 0; // 0 minimal, 1 force 16-bit form, 2 force 64-bit form
	Bytes    payload;
	uint32_t maskkey = 0x12345678u;
};

inline void
encode(const FrameSpec &f, Bytes &out)
{
	out.push_back((uint8_t) ((f.fin ? 0x80 : 0) | ((f.rsv & 7) << 4) | (f.op & 15)));
	size_t  n  = f.payload.size();
	uint8_t mb = f.masked ? 0x80 : 0;
	int     form = f.lenform;
	if (form == 0)
		form = n < 126 ? 0 : n < 65536 ? 1 : 2;
	else if (form == 1 && n >= 65536)
		form = 2;
	if (form == 0 && n < 126)
		out.push_back((uint8_t) (mb | n));
	else if (form == 1) {
		out.push_back((uint8_t) (mb | 126));
		out.push_back((uint8_t) (n >> 8));
		out.push_back((uint8_t) n);
	} else {
		out.push_back((uint8_t) (mb | 127));
		for (int i = 7; i >= 0; i--)
			out.push_back((uint8_t) ((uint64_t) n >> (8 * i)));
	}
	if (f.masked) {
		uint8_t k[4] = {(uint8_t) (f.maskkey >> 24), (uint8_t) (f.maskkey >> 16), (uint8_t) (f.maskkey >> 8), (uint8_t) f.maskkey};
		out.insert(out.end(), k, k + 4);
		for (size_t i = 0; i < n; i++)
			out.push_back((uint8_t) (f.payload[i] ^ k[i % 4]));
	} else
		out.insert(out.end(), f.payload.begin(), f.payload.end());
}

struct Parsed {
	bool  fin;
	int   rsv, op;
	bool  masked;
	bool  minimal;
	Bytes payload; // unmasked
};

// Parses one frame from buf[pos..]; returns 1 and advances pos when complete, 0 when more bytes are needed.
inline int
parse(const Bytes &buf, size_t &pos, Parsed &f)
{
	size_t p = pos;
	if (buf.size() - p < 2)
		return 0;
	uint8_t b0 = buf[p], b1 = buf[p + 1];
	p += 2;
	f.fin    = (b0 & 0x80) != 0;
	f.rsv    = (b0 >> 4) & 7;
	f.op     = b0 & 15;
	f.masked = (b1 & 0x80) != 0;
	uint64_t n = b1 & 0x7f;
	f.minimal  = true;
	if (n == 126) {
		if (buf.size() - p < 2)
			return 0;
		n = ((uint64_t) buf[p] << 8) | buf[p + 1];
		p += 2;
		f.minimal = n >= 126;
	} else if (n == 127) {
		if (buf.size() - p < 8)
			return 0;
		n = 0;
		for (int i = 0; i < 8; i++)
			n = (n << 8) | buf[p + i];
		p += 8;
		f.minimal = n >= 65536;
	}
	uint8_t k[4] = {0, 0, 0, 0};
	if (f.masked) {
		if (buf.size() - p < 4)
			return 0;
		memcpy(k, &buf[p], 4);
		p += 4;
	}
	if (buf.size() - p < n)
		return 0;
	f.payload.assign(buf.begin() + (long) p, buf.begin() + (long) (p + n));
	if (f.masked)
		for (size_t i = 0; i < f.payload.size(); i++)
			f.payload[i] ^= k[i % 4];
	pos = p + (size_t) n;
	return 1;
}

// ---- HTTP head: returns the offset just past CRLFCRLF, or 0 when incomplete
inline size_t
head_end(const Bytes &b)
{
	for (size_t i = 0; i + 3 < b.size(); i++)
		if (b[i] == '\r' && b[i + 1] == '\n' && b[i + 2] == '\r' && b[i + 3] == '\n')
			return i + 4;
	return 0;
}

struct Head {
	std::string first;
	std::vector<std::pair<std::string, std::string>> hdrs;
	bool        wellformed = true;
	std::string
	get(const char *name) const
	{
		for (auto &h : hdrs)
			if (strcasecmp(h.first.c_str(), name) == 0)
				return h.second;
		return "";
	}
};

inline Head
parse_head(const Bytes &b, size_t end)
{
	Head        h;
	std::string s((const char *) b.data(), end);
	size_t      pos = 0;
	bool        first = true;
	while (pos < s.size()) {
		size_t e = s.find("\r\n", pos);
		if (e == std::string::npos) {
			h.wellformed = false;
			break;
		}
		std::string line = s.substr(pos, e - pos);
		pos              = e + 2;
		if (line.empty())
			break;
		if (first) {
			h.first = line;
			first   = false;
			continue;
		}
		size_t c = line.find(':');
		if (c == std::string::npos || c == 0 || line[0] == ' ' || line[0] == '\t') {
			h.wellformed = false;
			continue;
		}
		std::string name = line.substr(0, c), val = line.substr(c + 1);
		for (char ch : name)
			if (ch <= ' ' || ch >= 127)
				h.wellformed = false;
		while (!val.empty() && (val[0] == ' ' || val[0] == '\t'))
			val.erase(0, 1);
		while (!val.empty() && (val.back() == ' ' || val.back() == '\t'))
			val.pop_back();
		h.hdrs.push_back({name, val});
	}
	return h;
}

} // namespace wsref
