// C12: REQ keeps retrying until answered; no hang when retry is disabled.
// A REQ socket (+contexts) faces raw REP wire peers that come and go; the virtual clock drives the resend
// timers.  "Eventually" is decided in bounded form: each enabling event (pipe loss with another pipe
// available, a peer becoming available, RESENDTIME elapsing) creates an obligation "the same id and body
// are seen on a wire within <bound> virtual ms", checked against the wire log.
#include "pbt.hpp"
#include "nngh.h"
#include "rawpeer.h"
#include <deque>
#include <poll.h>
#include <unistd.h>

namespace {

using Bytes = std::vector<uint8_t>;

static uint32_t
get32(const uint8_t *p)
{
	return ((uint32_t) p[0] << 24) | (p[1] << 16) | (p[2] << 8) | p[3];
}

struct AioBox {
	nng_aio *aio  = nullptr;
	int      done = 0;
	uint64_t done_at = 0;
};
static void
box_cb(void *arg)
{
	AioBox *b  = (AioBox *) arg;
	b->done++;
	b->done_at = vs_now();
}

struct Ctx {
	bool     open = false;
	nng_ctx  ctx;
	bool     active = false; // a request is outstanding (not answered / cancelled / reset)
	uint32_t tag    = 0;
	uint32_t id     = 0;
	int      retry  = 0;     // resend time captured when the request was sent (<=0: disabled)
	int      cfg_retry = 60000; // resend time currently configured on this context
	int      ntx    = 0;     // transmissions observed
	int      last_peer = -1; // peer that read the most recent transmission
	uint64_t last_tx   = 0;  // observation time of the most recent transmission
	uint64_t due       = 0;  // obligation: another transmission must be observed by this time (0 = none)
	const char *why    = "";
	bool     expect_reset = false; // retry disabled and its connection was lost: receive must fail with ECONNRESET
	bool     sent_ok = false;      // the send operation completed (request handed to a pipe at least once)
	AioBox   rcv, snd;
	bool     rcv_pending = false, snd_pending = false;
	uint64_t rcv_t0 = 0;
	int      rcv_tmo = 0;
};

struct World {
	nng_socket   s;
	nng_listener l;
	Ctx          c[3];
	rp           peer[2];
	bool         up[2] = {false, false};
	uint64_t     up_since[2] = {0, 0};
	int          rtime = 60000, tick = 1000;
	uint32_t     seq = 0, rseq = 0;
	std::set<uint32_t> dead; // tags of cancelled / replaced / answered requests: must never be (re)transmitted
	int          retx_loss = 0, retx_timer = 0;
	// dial world: REQ dials an ipc listener run by the harness
	bool         dial = false;
	bool         lipc = false;
	int          junk = 0; // round 7: REQ listens on ipc:// (a real accept loop) instead of socket://
	int          lfd  = -1;
	std::string  path;
	int          rmax = 20;       // NNG_OPT_RECONNMAXT
	uint64_t     redial_due = 0;  // a new connection attempt must reach the harness listener by then (0 = none)
	int          redials = 0;
};

static bool
conn_pending(World &W)
{
	struct pollfd pf = {W.lfd, POLLIN, 0};
	return poll(&pf, 1, 0) > 0;
}

static int
npeers(World &W)
{
	return (int) W.up[0] + (int) W.up[1];
}

static void
pump(World &W)
{
	for (int p = 0; p < 2; p++) {
		if (!W.up[p])
			continue;
		for (;;) {
			uint8_t *pl;
			size_t   pn;
			int      g = rp_recv_msg(&W.peer[p], &pl, &pn);
			VR_CHECK(g >= 0, "C12:wire-garbage", "REQ wrote a malformed frame");
			if (g == 0)
				break;
			VR_CHECK(pn == 8, "C12:wire-shape", "request frame of %zu bytes", pn);
			uint32_t id = get32(pl), tag = get32(pl + 4);
			free(pl);
			int k = (int) (tag >> 24);
			VR_CHECK(k >= 0 && k < 3 && (id & 0x80000000u), "C12:wire-body", "request frame corrupted (id %x tag %x)", id, tag);
			VR_CHECK(!W.dead.count(tag), "C12:dead-request-transmitted", "request %x was transmitted after it had been answered, cancelled or replaced", tag);
			Ctx &C = W.c[k];
			if (!(C.open && C.active && C.tag == tag))
				continue; // (a frame written before the request was replaced; its tag is not dead-listed yet only if pump ran first)
			if (C.ntx > 0)
				VR_CHECK(C.id == id, "C12:id-changed", "retransmission of %x carries id %x, first transmission %x", tag, id, C.id);
			C.id = id;
			C.ntx++;
			if (C.ntx > 1) {
				if (C.why[0] == 'l' || C.why[0] == 'p')
					W.retx_loss++;
				else
					W.retx_timer++;
				vr_tag("retransmission");
			}
			VR_CHECK(!(C.retry <= 0 && C.ntx > 1), "C12:resend-when-disabled", "request %x was put on the wire %d times although resending is disabled", tag, C.ntx);
			C.last_peer = p;
			C.last_tx   = vs_now();
			C.due       = C.retry > 0 ? vs_now() + (uint64_t) C.retry + (uint64_t) W.tick + 10 : 0;
			C.why       = "timer: RESENDTIME elapsed without a reply";
		}
		if (W.peer[p].eof) {
			rp_close(&W.peer[p]);
			W.up[p] = false;
		}
	}
}

static void
finish_recv(World &W, int k)
{
	Ctx &C = W.c[k];
	if (!(C.rcv_pending && C.rcv.done))
		return;
	C.rcv_pending = false;
	int rv        = nng_aio_result(C.rcv.aio);
	if (rv == 0) {
		nng_msg *m = nng_aio_get_msg(C.rcv.aio);
		VR_CHECK(false, "C12:unexpected-reply", "context %d received a %zu-byte reply that nobody sent", k, nng_msg_len(m));
	} else if (rv == NNG_ECONNRESET) {
		VR_CHECK(C.expect_reset, "C12:spurious-connreset", "context %d: receive failed with NNG_ECONNRESET although resending is enabled / the connection is up", k);
		C.expect_reset = false;
		C.active       = false;
		W.dead.insert(C.tag);
		vr_tag("econnreset");
	} else if (rv == NNG_ETIMEDOUT) {
		VR_CHECK(C.rcv_tmo > 0 && C.rcv.done_at >= C.rcv_t0 + (uint64_t) C.rcv_tmo, "C12:early-timeout", "receive timed out after %llu ms (timeout %d)",
		    (unsigned long long) (C.rcv.done_at - C.rcv_t0), C.rcv_tmo);
		VR_CHECK(C.rcv.done_at <= C.rcv_t0 + (uint64_t) C.rcv_tmo + 30, "C12:late-timeout", "receive outlived its timeout: %llu ms (timeout %d)",
		    (unsigned long long) (C.rcv.done_at - C.rcv_t0), C.rcv_tmo);
		// a timed-out receive abandons the request
		C.active = false;
		C.due    = 0;
		W.dead.insert(C.tag);
		vr_tag("recv_timeout");
	} else
		vr_fail("C12:recv-result", "context %d: pending receive finished with %d", k, rv);
}

static void
obligations(World &W, const char *when)
{
	if (W.dial && W.redial_due != 0) {
		if (conn_pending(W)) {
			W.redial_due = 0;
			vr_tag("redial_seen");
		} else if (vs_now() > W.redial_due)
			vr_fail("C12:no-redial", "%s: the dialer's connection was lost / dropped during negotiation but no new connection attempt reached the listener within "
			    "RECONNMAXT (%d ms) + 15 ms", when, W.rmax);
	}
	for (int k = 0; k < 3; k++) {
		Ctx &C = W.c[k];
		if (!C.open)
			continue;
		finish_recv(W, k);
		if (C.snd_pending && C.snd.done) {
			C.snd_pending = false;
			if (nng_aio_result(C.snd.aio) == 0)
				C.sent_ok = true;
			else {
				nng_msg *m = nng_aio_get_msg(C.snd.aio);
				if (m)
					nng_msg_free(m);
				nng_aio_set_msg(C.snd.aio, NULL);
			}
		}
		if (C.active && C.due != 0 && npeers(W) > 0 && vs_now() > C.due)
			vr_fail("C12:retransmission-missing", "%s: context %d request %x (id %x, %d transmission(s), resend time %d, tick %d) was not seen on any wire by +%llu ms (%s)", when,
			    k, C.tag, C.id, C.ntx, C.retry, W.tick, (unsigned long long) (vs_now() - C.due), C.why);
		if (C.expect_reset && C.rcv_pending && !C.rcv.done)
			vr_fail("C12:no-connreset", "context %d: resending is disabled and the connection carrying request %x was lost, but the pending receive is still waiting", k, C.tag);
	}
}

int
exec_c12(const vcase *vc)
{
	World W;
	h_cfg cfg;
	if (vc->nops < 1 || strcmp(vc->ops[0].name, "cfg") != 0)
		return 0;
	h_cfg_from_op(&cfg, &vc->ops[0]);
	cfg.max_virtual_ms = 600000;
	if (h_begin(&cfg) != 0)
		return 0;
	H_OK(nng_req0_open(&W.s));
	W.dial = vc->nops > 1 && strcmp(vc->ops[1].name, "dialworld") == 0;
	if (W.dial) {
		char pb[96];
		snprintf(pb, sizeof pb, "/tmp/verif-c12-%d", (int) getpid());
		W.path = pb;
		W.lfd  = rp_listen_ipc(pb);
		VR_CHECK(W.lfd >= 0, "harness:listen", "cannot listen on %s", pb);
		W.rmax = (int) vop_arg(&vc->ops[1], 0, 20);
		H_OK(nng_socket_set_ms(W.s, NNG_OPT_RECONNMINT, W.rmax > 4 ? W.rmax / 2 : 1));
		H_OK(nng_socket_set_ms(W.s, NNG_OPT_RECONNMAXT, W.rmax));
		H_OK(nng_dial(W.s, ("ipc://" + W.path).c_str(), NULL, NNG_FLAG_NONBLOCK));
		vs_settle();
		vr_tag("dial_world");
	} else if (vc->nops > 1 && strcmp(vc->ops[1].name, "listenipc") == 0) {
		char pb[96];
		snprintf(pb, sizeof pb, "/tmp/verif-c12l-%d", (int) getpid());
		unlink(pb);
		W.path = pb;
		W.lipc = true;
		H_OK(nng_listener_create(&W.l, W.s, ("ipc://" + W.path).c_str()));
		H_OK(nng_listener_start(W.l, 0));
		vr_tag("listen_ipc_world");
	} else {
		H_OK(nng_listener_create(&W.l, W.s, "socket://"));
		H_OK(nng_listener_start(W.l, 0));
	}
	W.c[0].open = true;
	for (int i = 1; i < vc->nops; i++) {
		const vop  *o = &vc->ops[i];
		std::string n = o->name;
		vr_at(i, o->name);
		int k = (int) vop_arg(o, 0, 0), a1 = (int) vop_arg(o, 1, 0);
		if (n == "rtime") {
			if (W.c[0].active || W.c[1].active || W.c[2].active)
				continue; // (changing it mid-request is C03's business)
			H_OK(nng_socket_set_ms(W.s, NNG_OPT_REQ_RESENDTIME, k));
			for (int j = 1; j < 3; j++)
				if (W.c[j].open)
					H_OK(nng_ctx_set_ms(W.c[j].ctx, NNG_OPT_REQ_RESENDTIME, k));
			W.rtime = k;
			for (int j = 0; j < 3; j++)
				W.c[j].cfg_retry = k;
			if (k <= 0)
				vr_tag("retry_disabled");
		} else if (n == "ctime") { // ctime ctx R : resend time of one context only
			if (k < 0 || k > 2 || !W.c[k].open || W.c[k].active)
				continue;
			int rv = k == 0 ? nng_socket_set_ms(W.s, NNG_OPT_REQ_RESENDTIME, a1) : nng_ctx_set_ms(W.c[k].ctx, NNG_OPT_REQ_RESENDTIME, a1);
			VR_CHECK(rv == 0, "C12:resendtime-set", "set RESENDTIME -> %d", rv);
			W.c[k].cfg_retry = a1;
			if (k == 0)
				W.rtime = a1; // new contexts inherit the socket's value
			vr_tag("per_context_resend_time");
		} else if (n == "rtick") {
			if (k < 1)
				continue;
			H_OK(nng_socket_set_ms(W.s, NNG_OPT_REQ_RESENDTICK, k));
			W.tick = k;
		} else if (n == "attach") {
			if (k < 0 || k > 1 || W.up[k])
				continue;
			pump(W);
			if (W.dial) {
				if (npeers(W) > 0 || rp_accept(&W.peer[k], W.lfd, RP_IPC) != 0)
					continue; // a dialer owns one pipe at a time / nothing is knocking
				W.redial_due = 0;
				W.redials++;
			} else if (W.lipc) {
				if (rp_connect_ipc(&W.peer[k], W.path.c_str()) != 0)
					continue;
			} else
				H_OK(rp_attach_socket(&W.peer[k], W.l));
			if (W.lipc && W.junk > 0) {
				// (the accept loop backs off for 100 ms after a failed negotiation: give it that time)
				vs_sleep(170);
				vs_settle();
			}
			uint16_t pp = 0;
			int      hr = rp_handshake(&W.peer[k], SP_REP, &pp);
			if (W.lipc)
				VR_CHECK(hr == 0 && pp == SP_REQ, "C12:replier-not-accepted", "a replier connected to the REQ socket's ipc listener but the connection was never taken up (%d junk connection(s) before it)", W.junk);
			VR_CHECK(hr == 0 && pp == SP_REQ, "harness:handshake", "handshake %d %x", hr, pp);
			vs_settle();
			W.up[k]       = true;
			W.up_since[k] = vs_now();
			// requests waiting for a pipe must go out now
			for (int j = 0; j < 3; j++) {
				Ctx &C = W.c[j];
				if (C.open && C.active && C.retry > 0 && (C.last_peer < 0 || !W.up[C.last_peer]) && (C.due == 0 || C.due > vs_now() + (uint64_t) W.tick + 10)) {
					C.due = vs_now() + (uint64_t) W.tick + 10;
					C.why = "peer: a replier became reachable while the request had no live connection";
				}
			}
		} else if (n == "detach") {
			if (k < 0 || k > 1 || !W.up[k])
				continue;
			pump(W);
			rp_close(&W.peer[k]);
			W.up[k] = false;
			vs_settle();
			vr_tag("connection_lost");
			if (W.dial) {
				W.redial_due = vs_now() + (uint64_t) W.rmax + 15;
			}
			for (int j = 0; j < 3; j++) {
				Ctx &C = W.c[j];
				if (!(C.open && C.active && C.last_peer == k))
					continue;
				if (C.retry > 0) {
					if (npeers(W) > 0) {
						C.due = vs_now() + (uint64_t) W.tick + 10;
						C.why = "loss: the connection that carried the request was lost and another one is up";
					} else
						C.due = 0; // re-armed when a peer attaches
				} else {
					C.expect_reset = true;
					vr_tag("loss_with_retry_disabled");
				}
				C.last_peer = -1;
			}
		} else if (n == "junk") { // a connection that is not a replier reaches the REQ socket's listener: junk bytes, or nothing, then it is gone
			if (!W.lipc)
				continue;
			rp tmp;
			if (rp_connect_ipc(&tmp, W.path.c_str()) != 0)
				continue;
			if (k & 1)
				rp_write(&tmp, "GET / HT", 8);
			else if (k & 2)
				rp_write(&tmp, "\0SP", 3);
			vs_settle();
			rp_close(&tmp);
			vs_settle();
			W.junk++;
			vr_tag("junk_connection_at_listener");
		} else if (n == "dropnego") { // accept a knocking connection and drop it during the SP handshake
			if (!W.dial || npeers(W) > 0)
				continue;
			rp tmp;
			if (rp_accept(&tmp, W.lfd, RP_IPC) != 0)
				continue;
			W.redials++;
			if (k & 4) {
				// a peer of another protocol answers at the address: the handshake completes, the REQ socket turns the
				// connection away itself - and must keep dialing, the replier may come up later
				uint16_t pp = 0;
				int      hr = rp_handshake(&tmp, (k & 1) ? SP_PAIR0 : SP_PUB, &pp);
				vs_settle();
				rp_pump(&tmp);
				VR_CHECK(hr != 0 || tmp.eof, "C12:wrong-protocol-peer-kept", "a peer announcing protocol %s completed the handshake and the REQ socket kept the connection",
				    (k & 1) ? "PAIR0" : "PUB");
				rp_close(&tmp);
				vs_settle();
				W.redial_due = vs_now() + (uint64_t) W.rmax + 15;
				vr_tag("wrong_protocol_peer_at_address");
				continue;
			}
			if (k & 1) {
				vs_settle();
				rp_pump(&tmp); // read nng's header first
			}
			if (k & 2)
				rp_shutdown_wr(&tmp);
			rp_close(&tmp);
			vs_settle();
			W.redial_due = vs_now() + (uint64_t) W.rmax + 15;
			vr_tag("dropped_during_negotiation");
		} else if (n == "wait") {
			int ms = k > 0 ? k : 1;
			// advance in small steps so that transmissions are time-stamped closely
			while (ms > 0) {
				int step = ms > 7 ? 7 : ms;
				vs_sleep(step);
				vs_settle();
				pump(W);
				obligations(W, "wait");
				ms -= step;
			}
		} else if (n == "reply") { // reply peer ctx
			if (k < 0 || k > 1 || !W.up[k] || a1 < 0 || a1 > 2)
				continue;
			pump(W);
			Ctx &C = W.c[a1];
			if (!(C.open && C.active && C.ntx > 0) || C.expect_reset)
				continue; // (a request whose connection was lost with resending disabled is already dead)
			uint32_t rtag = 0x52000000u | ++W.rseq;
			uint8_t  f[8] = {(uint8_t) (C.id >> 24), (uint8_t) (C.id >> 16), (uint8_t) (C.id >> 8), (uint8_t) C.id, (uint8_t) (rtag >> 24), (uint8_t) (rtag >> 16),
			    (uint8_t) (rtag >> 8), (uint8_t) rtag};
			VR_CHECK(rp_send_msg(&W.peer[k], f, 8) == 0, "harness:write", "reply write failed");
			vs_settle();
			// (c) once any peer answers the current id, receive returns that reply
			nng_msg *m = nullptr;
			int      rv;
			if (C.rcv_pending) {
				VR_CHECK(C.rcv.done, "C12:reply-not-delivered", "context %d: reply to the current id arrived but the pending receive did not complete", a1);
				rv = nng_aio_result(C.rcv.aio);
				m  = rv == 0 ? nng_aio_get_msg(C.rcv.aio) : nullptr;
				C.rcv_pending = false;
			} else {
				nng_aio *a;
				H_OK(nng_aio_alloc(&a, NULL, NULL));
				nng_aio_set_timeout(a, 0);
				if (a1 == 0)
					nng_socket_recv(W.s, a);
				else
					nng_ctx_recv(C.ctx, a);
				nng_aio_wait(a);
				rv = nng_aio_result(a);
				m  = rv == 0 ? nng_aio_get_msg(a) : nullptr;
				nng_aio_free(a);
			}
			VR_CHECK(rv == 0 && m != nullptr, "C12:reply-lost", "context %d: a reply to the outstanding request %x arrived but receive -> %d", a1, C.tag, rv);
			VR_CHECK(nng_msg_len(m) == 4 && get32((uint8_t *) nng_msg_body(m)) == rtag, "C12:wrong-reply", "reply body altered");
			nng_msg_free(m);
			C.active = false;
			C.due    = 0;
			C.expect_reset = false;
			W.dead.insert(C.tag);
			vr_tag("answered");
		} else if (k < 0 || k > 2) {
			continue;
		} else if (n == "ctxopen") {
			Ctx &C = W.c[k];
			if (k == 0 || C.open)
				continue;
			H_OK(nng_ctx_open(&C.ctx, W.s));
			C.open = true;
			H_OK(nng_ctx_set_ms(C.ctx, NNG_OPT_REQ_RESENDTIME, W.rtime));
			C.cfg_retry = W.rtime;
			vr_tag("ctx");
		} else if (!W.c[k].open) {
			continue;
		} else if (n == "send") {
			Ctx &C = W.c[k];
			pump(W); // everything written for the old request is consumed before it is declared dead
			if (C.snd_pending)
				continue;
			if (C.active || C.tag)
				W.dead.insert(C.tag);
			if (C.rcv_pending) {
				// superseding request cancels the receive
				C.rcv_pending = false;
			}
			uint32_t tag = ((uint32_t) k << 24) | ++W.seq;
			if (!C.snd.aio)
				H_OK(nng_aio_alloc(&C.snd.aio, box_cb, &C.snd));
			C.snd.done = 0;
			nng_aio_set_timeout(C.snd.aio, NNG_DURATION_INFINITE);
			nng_aio_set_msg(C.snd.aio, h_msg(tag, 0));
			if (k == 0)
				nng_socket_send(W.s, C.snd.aio);
			else
				nng_ctx_send(C.ctx, C.snd.aio);
			vs_settle();
			C.snd_pending  = !C.snd.done;
			C.sent_ok      = C.snd.done && nng_aio_result(C.snd.aio) == 0;
			C.active       = true;
			C.tag          = tag;
			C.id           = 0;
			C.ntx          = 0;
			C.retry        = C.cfg_retry;
			C.last_peer    = -1;
			C.expect_reset = false;
			C.due          = npeers(W) > 0 ? vs_now() + (uint64_t) W.tick + 10 : 0;
			C.why          = "send: a replier is connected";
			if (C.rcv.aio && C.rcv.done == 0 && nng_aio_busy(C.rcv.aio)) {
				nng_aio_wait(C.rcv.aio);
			}
		} else if (n == "arecv") { // arecv ctx timeout (0 = infinite)
			Ctx &C = W.c[k];
			if (C.rcv_pending || !C.active)
				continue;
			if (!C.rcv.aio)
				H_OK(nng_aio_alloc(&C.rcv.aio, box_cb, &C.rcv));
			C.rcv.done = 0;
			C.rcv_tmo  = a1;
			C.rcv_t0   = vs_now();
			nng_aio_set_timeout(C.rcv.aio, a1 > 0 ? a1 : NNG_DURATION_INFINITE);
			if (k == 0)
				nng_socket_recv(W.s, C.rcv.aio);
			else
				nng_ctx_recv(C.ctx, C.rcv.aio);
			vs_settle();
			C.rcv_pending = true;
			if (C.expect_reset)
				VR_CHECK(C.rcv.done && nng_aio_result(C.rcv.aio) == NNG_ECONNRESET, "C12:no-connreset",
				    "context %d: resending is disabled and its connection was lost, but receive did not fail with NNG_ECONNRESET (done %d rv %d)", k, C.rcv.done,
				    C.rcv.done ? nng_aio_result(C.rcv.aio) : -1);
			vr_tag("pending_recv");
		} else if (n == "cancel") {
			Ctx &C = W.c[k];
			pump(W);
			if (C.rcv_pending && !C.rcv.done) {
				nng_aio_cancel(C.rcv.aio);
				nng_aio_wait(C.rcv.aio);
				C.rcv_pending = false;
				if (nng_aio_result(C.rcv.aio) == NNG_ECANCELED) {
					C.active = false;
					C.due    = 0;
					C.expect_reset = false;
					W.dead.insert(C.tag);
					vr_tag("cancelled");
				} else
					C.rcv.done = 1, C.rcv_pending = true;
			}
		}
		vs_settle();
		pump(W);
		obligations(W, o->name);
	}
	if (W.retx_loss && W.retx_timer)
		vr_tag("retx_loss_and_timer");
	if (W.retx_loss)
		vr_tag("retx_loss");
	if (W.retx_timer)
		vr_tag("retx_timer");
	for (int k = 0; k < 3; k++) {
		Ctx &C = W.c[k];
		if (!C.open)
			continue;
		for (AioBox *b : {&C.rcv, &C.snd}) {
			if (!b->aio)
				continue;
			if (!b->done)
				nng_aio_cancel(b->aio);
			nng_aio_wait(b->aio);
			nng_msg *m = nng_aio_get_msg(b->aio);
			if (m && ((b == &C.snd && nng_aio_result(b->aio) != 0) || (b == &C.rcv && nng_aio_result(b->aio) == 0 && C.rcv_pending)))
				nng_msg_free(m);
			nng_aio_free(b->aio);
		}
		if (k)
			nng_ctx_close(C.ctx);
	}
	for (int p = 0; p < 2; p++)
		if (W.up[p])
			rp_close(&W.peer[p]);
	nng_socket_close(W.s);
	if (W.dial) {
		close(W.lfd);
		unlink(W.path.c_str());
	}
	if (W.lipc)
		unlink(W.path.c_str());
	h_end();
	return 0;
}

using namespace rc;

Gen<std::string>
genOp()
{
	return gen::exec([]() {
		std::ostringstream o;
		int k = *gen::weightedElement<int>({{4, 0}, {2, 1}, {1, 2}});
		int p = *pbt::range<int>(0, 1);
		int t = *gen::weightedElement<int>({{8, 0}, {12, 1}, {5, 2}, {5, 3}, {4, 4}, {4, 5}, {2, 6}, {2, 7}, {3, 8}, {3, 9}, {2, 10}});
		switch (t) {
		case 10: o << "junk " << *pbt::range<int>(0, 3); break;
		case 0: o << "send " << k; break;
		case 1: o << "wait " << *gen::element(3, 10, 25, 60, 120, 300, 1100); break;
		case 2: o << "attach " << p; break;
		case 3: o << "detach " << p; break;
		case 4: o << "reply " << p << " " << k; break;
		case 5: o << "arecv " << k << " " << *gen::element(0, 0, 40, 150, 700); break;
		case 6: o << "cancel " << k; break;
		case 7: o << "ctxopen " << *pbt::range<int>(1, 2); break;
		case 8: o << "ctime " << k << " " << *gen::element(20, 50, 200, 1000, 60000, -1); break;
		case 9: o << "dropnego " << *pbt::range<int>(0, 7); break;
		}
		return o.str();
	});
}

std::string
gen_c12()
{
	std::ostringstream t;
	int mode = *pbt::welem<int>({{4, 0}, {1, 1}, {1, 2}, {1, 3}});
	t << "cfg " << *pbt::range<int>(1, 1000000) << " " << mode << " " << (mode == 3 ? 20 : 20) << " " << *pbt::range<int>(1, 3) << " " << (mode == 3 ? *gen::element(60, 150, 400) : 600) << " 0\n";
	int wk = *pbt::welem<int>({{4, 0}, {2, 1}, {1, 2}});
	if (wk == 1)
		t << "dialworld " << *gen::element(10, 20, 60) << "\n";
	else if (wk == 2)
		t << "listenipc\n" << (*pbt::range<int>(0, 1) ? "junk 1\n" : "");
	t << "rtick " << *gen::element(5, 10, 50, 200) << "\n";
	t << "rtime " << *gen::weightedElement<int>({{3, 20}, {3, 50}, {3, 200}, {2, 1000}, {3, -1}}) << "\n";
	if (*pbt::welem<int>({{1, 0}, {4, 1}}))
		t << "attach 0\n";
	if (*pbt::welem<int>({{2, 0}, {1, 1}}))
		t << "ctxopen 1\n";
	auto ops = *gen::container<std::vector<std::string>>(genOp());
	for (auto &l : ops)
		t << l << "\n";
	return t.str();
}

} // namespace

int
main(int argc, char **argv)
{
	pbt::PropSpec sp;
	sp.id   = "C12";
	sp.gen  = gen_c12;
	sp.exec = exec_c12;
	sp.rule = "a REQ socket with up to 2 extra contexts, RESENDTIME in {20,50,200,1000 ms, infinite} and RESENDTICK in {5,10,50,200 ms}, against "
	          "two raw REP wire peers over socket:// that attach, read, reply and disappear at generated moments, with virtual waits of 3..1100 ms. "
	          "Oracle (bounded liveness on the virtual clock, from the wire log): after loss of the connection carrying a request, after a replier "
	          "becomes reachable, and after RESENDTIME without reply, the same id+body is seen on a wire within tick+10 (resp. RESENDTIME+tick+10) ms; "
	          "a reply to the current id is delivered; with resending disabled at most one transmission and NNG_ECONNRESET on connection loss; dead "
	          "requests are never transmitted; receive timeouts are neither early nor late. Non-trivial = a retransmission caused by loss and one "
	          "by timer, or the disabled-retry path with a lost connection; distinct by case hash";
	sp.nontrivial = [](const std::set<std::string> &t) { return t.count("retx_loss_and_timer") || t.count("loss_with_retry_disabled") || (t.count("retx_loss") && t.count("answered")) || (t.count("retx_timer") && t.count("answered")); };
	return pbt::pbt_main(argc, argv, sp);
}
