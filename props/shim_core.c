// C shim exposing a few nng internals (lmq, msg refcounts) to the C++ drivers as opaque calls,
// so the drivers never depend on internal struct layouts.
#include "core/nng_impl.h"
#include <stdlib.h>

void *
sh_lmq_new(size_t cap)
{
	nni_lmq *q = malloc(sizeof(*q));
	nni_lmq_init(q, cap);
	return (q);
}
void
sh_lmq_free(void *q)
{
	nni_lmq_fini(q);
	free(q);
}
int    sh_lmq_put(void *q, nng_msg *m) { return (nni_lmq_put(q, m)); }
int    sh_lmq_get(void *q, nng_msg **m) { return (nni_lmq_get(q, m)); }
int    sh_lmq_resize(void *q, size_t cap) { return (nni_lmq_resize(q, cap)); }
void   sh_lmq_flush(void *q) { nni_lmq_flush(q); }
size_t sh_lmq_len(void *q) { return (nni_lmq_len(q)); }
size_t sh_lmq_cap(void *q) { return (nni_lmq_cap(q)); }
int    sh_lmq_full(void *q) { return (nni_lmq_full(q)); }
int    sh_lmq_empty(void *q) { return (nni_lmq_empty(q)); }
void   sh_msg_clone(nng_msg *m) { nni_msg_clone(m); }
int    sh_msg_shared(nng_msg *m) { return (nni_msg_shared(m)); }
