// C13: devices route replies back correctly and hop limits kill loops.
// World 0/1: REQ->(xrep|xreq)^n->REP and SURVEYOR->(xrespondent|xsurveyor)^n->RESPONDENT chains over
//            inproc, n = 0..17, MAXTTL per hop in {1,2,3,8,15}, 1-3 concurrent requesters, random body sizes.
// World 2:   one req/rep device between a raw REQ wire peer and a raw REP wire peer: crafted backtraces
//            (0..20 words, with/without terminator) in both directions.
// World 3:   reflector loop (a device whose back socket dials its own front): must die out by TTL.
#include "pbt.hpp"
#include "nngh.h"
#include "rawpeer.h"

namespace {

using Bytes = std::vector<uint8_t>;

static void
put32(Bytes &b, uint32_t v)
{
	b.push_back(v >> 24); b.push_back(v >> 16); b.push_back(v >> 8); b.push_back(v);
}
static uint32_t
get32(const uint8_t *p)
{
	return ((uint32_t) p[0] << 24) | (p[1] << 16) | (p[2] << 8) | p[3];
}

struct Dev {
	nng_socket front, back;
	nng_aio   *aio = nullptr;
	int        ttl = 8;
};

static Bytes
body_of(uint32_t tag, size_t n)
{
	Bytes b;
	put32(b, tag);
	for (size_t i = 0; i < n; i++)
		b.push_back((uint8_t) (tag * 13 + i * 5));
	return b;
}

// --------------------------------------------------------------------------- chains
int
exec_chain(const vcase *vc, bool survey)
{
	const vop *w   = &vc->ops[1];
	int        n   = (int) vop_arg(w, 1, 1);
	int        ncl = (int) vop_arg(w, 2, 1);
	if (n < 0 || n > 17 || ncl < 1 || ncl > 3)
		return 0;
	std::vector<Dev> dev((size_t) n);
	nng_socket       srv, cl[3];
	int              srv_ttl = 8;
	char             url[64];
	if (survey)
		H_OK(nng_respondent0_open(&srv));
	else
		H_OK(nng_rep0_open(&srv));
	snprintf(url, sizeof url, "inproc://c13-%d", n);
	H_OK(nng_listen(srv, url, NULL, 0));
	for (int i = n - 1; i >= 0; i--) {
		if (survey) {
			H_OK(nng_respondent0_open_raw(&dev[i].front));
			H_OK(nng_surveyor0_open_raw(&dev[i].back));
		} else {
			H_OK(nng_rep0_open_raw(&dev[i].front));
			H_OK(nng_req0_open_raw(&dev[i].back));
		}
		snprintf(url, sizeof url, "inproc://c13-%d", i);
		H_OK(nng_listen(dev[i].front, url, NULL, 0));
		snprintf(url, sizeof url, "inproc://c13-%d", i + 1);
		H_OK(nng_dial(dev[i].back, url, NULL, 0));
	}
	// per-hop TTL settings come as ops "ttl hop value" before traffic (hop n = server)
	for (int i = 2; i < vc->nops; i++) {
		const vop *o = &vc->ops[i];
		if (strcmp(o->name, "ttl") != 0)
			continue;
		int hop = (int) vop_arg(o, 0, 0), v = (int) vop_arg(o, 1, 8);
		if (v < 1 || v > 15)
			continue;
		if (hop >= 0 && hop < n) {
			H_OK(nng_socket_set_int(dev[hop].front, NNG_OPT_MAXTTL, v));
			dev[hop].ttl = v;
		} else if (hop == n) {
			H_OK(nng_socket_set_int(srv, NNG_OPT_MAXTTL, v));
			srv_ttl = v;
		}
	}
	// round 7: "devtimeo hop ms" - finite send / receive timeouts on a device's sockets (an application that used the sockets
	// before handing them to nng_device): a device runs until it is cancelled or a socket dies, however long it sits idle
	for (int i = 2; i < vc->nops; i++) {
		const vop *o = &vc->ops[i];
		if (strcmp(o->name, "devtimeo") != 0)
			continue;
		int hop = (int) vop_arg(o, 0, 0), v = (int) vop_arg(o, 1, 50);
		if (hop < 0 || hop >= n || v < 1)
			continue;
		H_OK(nng_socket_set_ms(dev[hop].front, NNG_OPT_RECVTIMEO, v));
		H_OK(nng_socket_set_ms(dev[hop].back, NNG_OPT_RECVTIMEO, v));
		H_OK(nng_socket_set_ms(dev[hop].front, NNG_OPT_SENDTIMEO, v));
		H_OK(nng_socket_set_ms(dev[hop].back, NNG_OPT_SENDTIMEO, v));
		vr_tag("device_socket_timeouts");
	}
	for (int i = 0; i < n; i++) {
		H_OK(nng_aio_alloc(&dev[i].aio, NULL, NULL));
		nng_device_aio(dev[i].aio, dev[i].front, dev[i].back);
	}
	for (int j = 0; j < ncl; j++) {
		if (survey) {
			H_OK(nng_surveyor0_open(&cl[j]));
			H_OK(nng_socket_set_ms(cl[j], NNG_OPT_SURVEYOR_SURVEYTIME, 300));
		} else {
			H_OK(nng_req0_open(&cl[j]));
			H_OK(nng_socket_set_ms(cl[j], NNG_OPT_REQ_RESENDTIME, NNG_DURATION_INFINITE));
		}
		H_OK(nng_socket_set_ms(cl[j], NNG_OPT_RECVTIMEO, 200));
		H_OK(nng_dial(cl[j], "inproc://c13-0", NULL, 0));
	}
	vs_settle();
	// the request reaches the server iff every hop accepts its backtrace length: at device i the request
	// carries i+1 words, at the server n+1
	bool reach = n + 1 <= srv_ttl;
	for (int i = 0; i < n; i++)
		reach = reach && (i + 1 <= dev[i].ttl);
	vr_tag(reach ? "chain_passes" : "chain_blocks_by_ttl");
	if (n >= 2)
		vr_tag("chain_ge2");
	uint32_t seq = 0;
	for (int i = 2; i < vc->nops; i++) {
		const vop  *o = &vc->ops[i];
		std::string nm = o->name;
		vr_at(i, o->name);
		if (nm == "idle") {
			vs_sleep((int) vop_arg(o, 0, 100));
			vs_settle();
			vr_tag("idle_gap");
			continue;
		}
		if (nm != "round")
			continue;
		// round: every client sends one request of the given size; the server answers all it gets; clients receive
		size_t   sz = (size_t) vop_arg(o, 0, 0) % 5000;
		uint32_t tags[3];
		for (int j = 0; j < ncl; j++) {
			tags[j]  = ((uint32_t) (j + 1) << 24) | ++seq;
			Bytes b  = body_of(tags[j], sz + (size_t) j);
			nng_msg *m;
			H_OK(nng_msg_alloc(&m, 0));
			H_OK(nng_msg_append(m, b.data(), b.size()));
			int rv = nng_sendmsg(cl[j], m, 0);
			VR_CHECK(rv == 0, "C13:client-send", "client %d send -> %d", j, rv);
		}
		vs_settle();
		int served = 0;
		for (int g = 0; g < 8; g++) {
			nng_msg *m  = nullptr;
			int      rv = nng_recvmsg(srv, &m, NNG_FLAG_NONBLOCK);
			if (rv != 0) {
				vs_sleep(2);
				vs_settle();
				if (served >= ncl || g > 4)
					break;
				continue;
			}
			VR_CHECK(reach, "C13:ttl-not-enforced", "a request crossed %d device(s) and was delivered although a hop's MAXTTL forbids it (server ttl %d)", n, srv_ttl);
			VR_CHECK(nng_msg_len(m) >= 4, "C13:body-altered", "request body truncated to %zu", nng_msg_len(m));
			uint32_t tag = get32((uint8_t *) nng_msg_body(m));
			int      j   = (int) (tag >> 24) - 1;
			VR_CHECK(j >= 0 && j < ncl && tag == tags[j], "C13:body-altered", "server received unknown tag %x", tag);
			Bytes exp = body_of(tag, sz + (size_t) j);
			VR_CHECK(nng_msg_len(m) == exp.size() && memcmp(nng_msg_body(m), exp.data(), exp.size()) == 0, "C13:body-altered",
			    "request body of client %d altered by the device chain (%zu vs %zu bytes)", j, nng_msg_len(m), exp.size());
			// reply: same body with the tag's top bit set
			((uint8_t *) nng_msg_body(m))[0] |= 0x80;
			rv = nng_sendmsg(srv, m, 0);
			VR_CHECK(rv == 0, "C13:server-send", "server reply -> %d", rv);
			served++;
			vs_settle();
		}
		if (reach)
			VR_CHECK(served == ncl, "C13:request-lost", "only %d of %d requests arrived at the server through %d device(s)", served, ncl, n);
		for (int j = 0; j < ncl; j++) {
			nng_msg *m  = nullptr;
			int      rv = nng_recvmsg(cl[j], &m, 0);
			if (!reach) {
				if (rv == 0)
					vr_fail("C13:ttl-not-enforced", "client %d got a reply although its request exceeds a hop limit", j);
				VR_CHECK(rv == NNG_ETIMEDOUT || (survey && rv == NNG_ESTATE), "C13:client-recv", "client %d receive -> %d", j, rv);
				continue;
			}
			VR_CHECK(rv == 0, "C13:reply-lost", "client %d did not get its reply back through %d device(s) (%d)", j, n, rv);
			Bytes exp = body_of(tags[j], sz + (size_t) j);
			exp[0] |= 0x80;
			VR_CHECK(nng_msg_len(m) == exp.size() && memcmp(nng_msg_body(m), exp.data(), exp.size()) == 0, "C13:misrouted-reply",
			    "client %d received a reply that is not the answer to its own request (got tag %x, expected %x)", j,
			    nng_msg_len(m) >= 4 ? get32((uint8_t *) nng_msg_body(m)) : 0, tags[j] | 0x80000000u);
			nng_msg_free(m);
			vr_tag("reply_returned");
		}
		if (survey) {
			vs_sleep(310); // let the survey expire before the next round
			vs_settle();
		}
	}
	for (int j = 0; j < ncl; j++)
		nng_socket_close(cl[j]);
	for (int i = 0; i < n; i++) {
		// a running device owns its sockets (closing them from outside answers NNG_EBUSY): stop the device instead
		VR_CHECK(nng_socket_close(dev[i].front) == NNG_EBUSY, "C13:device-socket-close", "closing a socket owned by a running device did not answer NNG_EBUSY");
		nng_aio_cancel(dev[i].aio);
		nng_aio_wait(dev[i].aio);
		VR_CHECK(nng_aio_result(dev[i].aio) == NNG_ECANCELED, "C13:device-cancel", "cancelled device finished with %d", nng_aio_result(dev[i].aio));
		nng_aio_free(dev[i].aio);
		VR_CHECK(nng_socket_close(dev[i].front) == NNG_ECLOSED, "C13:device-socket-close", "a stopped device did not close its front socket");
		VR_CHECK(nng_socket_close(dev[i].back) == NNG_ECLOSED, "C13:device-socket-close", "a stopped device did not close its back socket");
	}
	nng_socket_close(srv);
	return 0;
}

// --------------------------------------------------------------------------- raw injection around one device
int
exec_inject(const vcase *vc)
{
	Dev          d;
	nng_listener lf, lb;
	rp           cli, srvp;
	H_OK(nng_rep0_open_raw(&d.front));
	H_OK(nng_req0_open_raw(&d.back));
	H_OK(nng_listener_create(&lf, d.front, "socket://"));
	H_OK(nng_listener_start(lf, 0));
	H_OK(nng_listener_create(&lb, d.back, "socket://"));
	H_OK(nng_listener_start(lb, 0));
	{
		int t = (int) vop_arg(&vc->ops[1], 1, 8); // options cannot be changed once the device owns the sockets
		if (t >= 1 && t <= 15) {
			H_OK(nng_socket_set_int(d.front, NNG_OPT_MAXTTL, t));
			d.ttl = t;
		}
	}
	H_OK(nng_aio_alloc(&d.aio, NULL, NULL));
	nng_device_aio(d.aio, d.front, d.back);
	bool cup = false, sup = false;
	auto attach = [&](rp *p, nng_listener l, uint16_t proto, uint16_t expect, bool &flag) {
		H_OK(rp_attach_socket(p, l));
		uint16_t pp = 0;
		int      hr = rp_handshake(p, proto, &pp);
		VR_CHECK(hr == 0 && pp == expect, "harness:handshake", "handshake %d %x", hr, pp);
		vs_settle();
		flag = true;
	};
	uint32_t seq = 0, last_pipe_word = 0;
	Bytes    last_fwd_trace;
	for (int i = 2; i < vc->nops; i++) {
		const vop  *o = &vc->ops[i];
		std::string n = o->name;
		vr_at(i, o->name);
		int words = (int) vop_arg(o, 0, 0), term = (int) vop_arg(o, 1, 1);
		if (n == "request") { // request words terminated
			if (!cup)
				attach(&cli, lf, SP_REQ, SP_REP, cup);
			if (!sup)
				attach(&srvp, lb, SP_REP, SP_REQ, sup);
			if (words < 0 || words > 20)
				continue;
			Bytes f, trace;
			for (int k = 0; k < words; k++)
				put32(trace, 0x00100000u + (uint32_t) k);
			uint32_t id = 0x80000000u | ++seq;
			if (term)
				put32(trace, id);
			f = trace;
			uint32_t tag = 0x51000000u | seq;
			put32(f, tag);
			if (!term) {
				// make sure no later word accidentally terminates: body has no high bits
				f.resize(trace.size());
				put32(f, 0x00000001u);
				f.push_back(0x01);
			}
			VR_CHECK(rp_send_msg(&cli, f.data(), f.size()) == 0, "harness:write", "request write failed");
			vs_settle();
			vs_sleep(2);
			vs_settle();
			uint8_t *pl;
			size_t   pn;
			int      g       = rp_recv_msg(&srvp, &pl, &pn);
			int      total   = words + 1; // backtrace words incl. the request id
			bool     ok      = term && total <= d.ttl;
			bool     garbage = !term && words + 1 < d.ttl; // runs out of bytes before the hop limit stops the scan
			rp_pump(&cli);
			if (ok) {
				VR_CHECK(g == 1, "C13:request-not-forwarded", "well-formed request with %d backtrace word(s) (ttl %d) was not forwarded by the device", words, d.ttl);
				VR_CHECK(pn == trace.size() + 8, "C13:forward-shape", "forwarded frame has %zu bytes, expected pipe id + %zu-byte backtrace + body", pn, trace.size());
				last_pipe_word = get32(pl);
				VR_CHECK(!(last_pipe_word & 0x80000000u), "C13:forward-shape", "first forwarded word %x is not a pipe id", last_pipe_word);
				VR_CHECK(memcmp(pl + 4, trace.data(), trace.size()) == 0, "C13:backtrace-altered", "the device altered the backtrace");
				VR_CHECK(get32(pl + 4 + trace.size()) == tag, "C13:body-altered", "the device altered the body");
				last_fwd_trace = trace;
				free(pl);
				vr_tag("request_forwarded");
				if (words > 0)
					vr_tag("crafted_backtrace");
			} else {
				if (g == 1)
					vr_fail("C13:bad-request-forwarded", "request with %d word(s), terminated=%d, was forwarded although ttl is %d / it is malformed", words, term, d.ttl);
				if (garbage) {
					VR_CHECK(cli.eof, "C13:malformed-not-disconnected", "sender of an unterminated %d-word backtrace was not disconnected", words);
					rp_close(&cli);
					cup            = false;
					last_pipe_word = 0; // that pipe is gone: replies addressed to it are dropped
					vr_tag("malformed_request");
				} else {
					VR_CHECK(!cli.eof, "C13:over-ttl-disconnected", "request over the hop limit disconnected its sender");
					vr_tag("request_dropped_by_ttl");
				}
			}
		} else if (n == "reply") { // reply extra_words terminated : through the back (raw REQ) side
			if (!cup || !sup || last_pipe_word == 0)
				continue;
			if (words < 0 || words > 20)
				continue;
			Bytes f;
			put32(f, last_pipe_word);
			for (int k = 0; k < words; k++)
				put32(f, 0x00200000u + (uint32_t) k);
			uint32_t id = 0x80000000u | ++seq;
			if (term)
				put32(f, id);
			size_t   hdr_bytes = f.size();
			uint32_t tag       = 0x52000000u | seq;
			if (term)
				put32(f, tag);
			else {
				put32(f, 0x00000002u);
				f.push_back(0x02);
			}
			VR_CHECK(rp_send_msg(&srvp, f.data(), f.size()) == 0, "harness:write", "reply write failed");
			vs_settle();
			vs_sleep(2);
			vs_settle();
			uint8_t *pl;
			size_t   pn;
			int      g = rp_recv_msg(&cli, &pl, &pn);
			rp_pump(&srvp);
			int total = 1 + words + (term ? 1 : 0);
			if (term && total <= 16) {
				VR_CHECK(g == 1, "C13:reply-not-routed", "well-formed reply with %d header word(s) was not routed back to the requester", total);
				VR_CHECK(pn == hdr_bytes - 4 + 4 && memcmp(pl, f.data() + 4, hdr_bytes - 4) == 0 && get32(pl + hdr_bytes - 4) == tag, "C13:reply-altered",
				    "reply arrived altered (%zu bytes)", pn);
				free(pl);
				vr_tag("reply_routed");
				if (total >= 15)
					vr_tag("full_header");
			} else {
				if (g == 1)
					vr_fail("C13:bad-reply-routed", "reply with %d header word(s), terminated=%d, was delivered to the requester", total, term);
				// header capacity exceeded or no terminator: the replier is disconnected (or the message dropped)
				if (srvp.eof) {
					rp_close(&srvp);
					sup = false;
					vr_tag("replier_disconnected");
				}
				vr_tag("oversize_backtrace");
			}
		}
	}
	if (cup)
		rp_close(&cli);
	if (sup)
		rp_close(&srvp);
	nng_aio_cancel(d.aio);
	nng_aio_wait(d.aio);
	nng_aio_free(d.aio);
	nng_socket_close(d.front);
	nng_socket_close(d.back);
	return 0;
}

// --------------------------------------------------------------------------- reflector loop
int
exec_loop(const vcase *vc)
{
	Dev        d;
	nng_socket cl;
	int        ttl = (int) vop_arg(&vc->ops[1], 1, 8);
	if (ttl < 1 || ttl > 15)
		ttl = 8;
	H_OK(nng_rep0_open_raw(&d.front));
	H_OK(nng_req0_open_raw(&d.back));
	H_OK(nng_socket_set_int(d.front, NNG_OPT_MAXTTL, ttl));
	H_OK(nng_listen(d.front, "inproc://c13-loop", NULL, 0));
	H_OK(nng_dial(d.back, "inproc://c13-loop", NULL, 0)); // the device's back talks to its own front
	H_OK(nng_aio_alloc(&d.aio, NULL, NULL));
	nng_device_aio(d.aio, d.front, d.back);
	H_OK(nng_req0_open(&cl));
	H_OK(nng_socket_set_ms(cl, NNG_OPT_REQ_RESENDTIME, NNG_DURATION_INFINITE));
	H_OK(nng_socket_set_ms(cl, NNG_OPT_RECVTIMEO, 100));
	H_OK(nng_dial(cl, "inproc://c13-loop", NULL, 0));
	vs_settle();
	for (int i = 2; i < vc->nops; i++) {
		if (strcmp(vc->ops[i].name, "round") != 0)
			continue;
		vr_at(i, "round");
		long     s0, sw0, p0;
		vs_stats(&s0, &sw0, &p0);
		nng_msg *m = h_msg(0x4c000000u | (uint32_t) i, 8);
		VR_CHECK(nng_sendmsg(cl, m, 0) == 0, "C13:client-send", "loop client send failed");
		vs_settle(); // must reach quiescence: the looping request dies when its backtrace exceeds MAXTTL
		long s1, sw1, p1;
		vs_stats(&s1, &sw1, &p1);
		VR_CHECK(s1 - s0 < 200000, "C13:loop-not-dying", "a request in a forwarding loop kept the system busy for %ld scheduling steps (ttl %d)", s1 - s0, ttl);
		nng_msg *r  = nullptr;
		int      rv = nng_recvmsg(cl, &r, 0);
		if (rv == 0)
			nng_msg_free(r);
		VR_CHECK(rv == NNG_ETIMEDOUT || rv == 0, "C13:client-recv", "loop client receive -> %d", rv);
		vr_tag("loop_died_out");
	}
	nng_socket_close(cl);
	nng_aio_cancel(d.aio);
	nng_aio_wait(d.aio);
	nng_aio_free(d.aio);
	nng_socket_close(d.front);
	nng_socket_close(d.back);
	return 0;
}

int
exec_c13(const vcase *vc)
{
	h_cfg cfg;
	if (vc->nops < 2 || strcmp(vc->ops[0].name, "cfg") != 0 || strcmp(vc->ops[1].name, "world") != 0)
		return 0;
	h_cfg_from_op(&cfg, &vc->ops[0]);
	cfg.task_threads = 4;
	int w = (int) vop_arg(&vc->ops[1], 0, 0);
	if (h_begin(&cfg) != 0)
		return 0;
	vr_tagf("world%d", w);
	int rv = 0;
	switch (w) {
	case 0: rv = exec_chain(vc, false); break;
	case 1: rv = exec_chain(vc, true); break;
	case 2: rv = exec_inject(vc); break;
	default: rv = exec_loop(vc); break;
	}
	h_end();
	return rv;
}

using namespace rc;

std::string
gen_c13()
{
	std::ostringstream t;
	int mode = *pbt::welem<int>({{4, 0}, {1, 1}, {1, 2}, {1, 3}});
	int w    = *pbt::welem<int>({{4, 0}, {2, 1}, {4, 2}, {1, 3}});
	t << "cfg " << *pbt::range<int>(1, 1000000) << " " << mode << " " << (mode == 3 ? 20 : 20) << " " << *pbt::range<int>(1, 3) << " " << (mode == 3 ? *gen::element(60, 150, 400) : 800) << " 0\n";
	if (w <= 1) {
		int n = *gen::weightedElement<int>({{2, 0}, {4, 1}, {4, 2}, {4, 3}, {3, 4}, {2, 5}, {1, 8}, {1, 9}, {1, 10}, {1, 15}, {1, 16}, {1, 17}});
		t << "world " << w << " " << n << " " << *pbt::range<int>(1, 3) << "\n";
		int nt = *pbt::range<int>(0, 3);
		for (int i = 0; i < nt; i++)
			t << "ttl " << *pbt::range<int>(0, n) << " " << *gen::element(1, 2, 3, 4, 8, 15, n, n + 1, n + 2 > 15 ? 15 : n + 2) << "\n";
		if (n > 0 && *pbt::welem<int>({{2, 0}, {1, 1}}))
			t << "devtimeo " << *pbt::range<int>(0, n - 1) << " " << *gen::element(20, 50, 100) << "\n";
		int nr = *pbt::range<int>(1, 3);
		for (int i = 0; i < nr; i++) {
			if (*pbt::welem<int>({{2, 0}, {1, 1}}))
				t << "idle " << *gen::element(30, 120, 400) << "\n";
			t << "round " << *gen::element(0, 1, 27, 28, 29, 60, 61, 1000, 4000) << "\n";
		}
	} else if (w == 2) {
		t << "world 2 " << *gen::element(1, 2, 3, 8, 8, 15) << "\n";
		auto ops = *gen::container<std::vector<std::string>>(gen::exec([]() {
			std::ostringstream o;
			int k = *gen::weightedElement<int>({{8, 0}, {8, 1}});
			if (k == 0)
				o << "request " << *gen::weightedElement<int>({{4, 0}, {3, 1}, {2, 2}, {2, 6}, {2, 7}, {2, 8}, {1, 13}, {1, 14}, {1, 15}, {1, 16}, {1, 20}}) << " " << *gen::weightedElement<int>({{5, 1}, {1, 0}});
			else if (k == 1)
				o << "reply " << *gen::weightedElement<int>({{4, 0}, {3, 1}, {2, 5}, {2, 12}, {2, 13}, {3, 14}, {3, 15}, {2, 16}, {1, 20}}) << " " << *gen::weightedElement<int>({{6, 1}, {1, 0}});
			else
				o << "ttl " << *gen::element(1, 2, 3, 8, 15);
			return o.str();
		}));
		t << "request 0 1\n";
		for (auto &l : ops)
			t << l << "\n";
	} else {
		t << "world 3 " << *gen::element(1, 2, 3, 8, 15) << "\nround\nround\n";
	}
	return t.str();
}

} // namespace

int
main(int argc, char **argv)
{
	pbt::PropSpec sp;
	sp.id   = "C13";
	sp.gen  = gen_c13;
	sp.exec = exec_c13;
	sp.rule = "worlds 0/1: REQ/REP and SURVEYOR/RESPONDENT chains through n = 0..17 nng_device hops over inproc with MAXTTL in {1,2,3,4,8,15,n,n+1,n+2} on "
	          "chosen hops, finite socket timeouts on a device's sockets and idle gaps between rounds (round 7), 1-3 concurrent requesters, body sizes around the 32-byte headroom and up to 4 KB; oracle: every reply returns to exactly its "
	          "requester with an unchanged body, and a request that exceeds any hop's MAXTTL is neither delivered nor answered. world 2: one req/rep device "
	          "between raw wire peers: requests with 0..20 backtrace words (also unterminated), replies with up to 22 header words (also unterminated): "
	          "forwarded/routed iff well-formed and within limits, bytes unchanged, malformed senders disconnected, never a crash. world 3: reflector loop "
	          "(device back dials its own front): the looping request dies out (quiescence within a step bound). Non-trivial = chain length >= 2, or a "
	          "request dropped by TTL, or a crafted backtrace, or a loop; distinct by case hash";
	sp.nontrivial = [](const std::set<std::string> &t) {
		return t.count("chain_ge2") || t.count("chain_blocks_by_ttl") || t.count("request_dropped_by_ttl") || t.count("crafted_backtrace") || t.count("loop_died_out") ||
		    t.count("oversize_backtrace");
	};
	return pbt::pbt_main(argc, argv, sp);
}
