// C shim: drives nni_http_chunks_parse over a byte string cut at given positions and flattens the result.
#include "core/nng_impl.h"
#include "supplemental/http/http_api.h"
#include <stdlib.h>
#include <string.h>

// returns the parser's final verdict: 0 = complete, NNG_EAGAIN = needs more, other = error.
// *consumed = total bytes the parser took; body copied to out (up to outcap), *outlen = decoded size.
int
sh_chunks_run(const unsigned char *data, size_t n, const size_t *cuts, int ncuts, size_t maxsz, unsigned char *out, size_t outcap, size_t *outlen, size_t *consumed,
    size_t *nchunks)
{
	nni_http_chunks *cl;
	int              rv;
	if ((rv = nni_http_chunks_init(&cl, maxsz)) != 0) {
		return (rv);
	}
	size_t pos = 0;
	int    k   = 0;
	rv         = NNG_EAGAIN;
	*consumed  = 0;
	while (pos < n) {
		size_t end = n;
		while (k < ncuts && cuts[k] <= pos) {
			k++;
		}
		if (k < ncuts && cuts[k] < n) {
			end = cuts[k];
		}
		// the caller's buffer for this read: a private copy, so that reads past the piece are visible to ASan
		size_t         len = end - pos;
		unsigned char *buf = malloc(len ? len : 1);
		memcpy(buf, data + pos, len);
		size_t took = 0;
		rv          = nni_http_chunks_parse(cl, buf, len, &took);
		free(buf);
		*consumed += took;
		if (rv != NNG_EAGAIN) {
			break; // complete or failed
		}
		if (took != len) {
			rv = -1; // "needs more" without taking what it was given
			break;
		}
		pos = end;
	}
	size_t          total = 0, cnt = 0;
	nni_http_chunk *ch = NULL;
	while ((ch = nni_http_chunks_iter(cl, ch)) != NULL) {
		size_t sz = nni_http_chunk_size(ch);
		if (rv == 0 || 1) {
			if (total + sz <= outcap && (rv == 0)) {
				memcpy(out + total, nni_http_chunk_data(ch), sz);
			}
		}
		total += sz;
		cnt++;
	}
	*outlen  = total;
	*nchunks = cnt;
	if (rv == 0 && nni_http_chunks_size(cl) != total) {
		rv = -2; // the list's own size accounting disagrees with its chunks
	}
	nni_http_chunks_free(cl);
	return (rv);
}
