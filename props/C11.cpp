// C11: hostile or broken peers cannot crash, wedge or bypass size limits.
// Sessions are generated from a grammar (handshake variants, frames with consistent / inconsistent /
// oversized length fields and valid / invalid protocol headers, arbitrary bytes, trickled writes,
// disconnects, stalls) and played by raw wire peers against every protocol's receive path on
// socket-fd / ipc / tcp.  A reference decoder computes what may be delivered; afterwards a fresh
// well-behaved connection and a control connection must still work.
#include "pbt.hpp"
#include "c11_exec.hpp"

using namespace rc;

namespace {

Gen<std::string>
genOp()
{
	return gen::exec([]() {
		std::ostringstream o;
		int k = *gen::weightedElement<int>({{14, 0}, {3, 1}, {2, 2}, {2, 3}, {1, 4}, {2, 5}, {2, 6}});
		switch (k) {
		case 0: // frame lenkind payloadkind size seed chunking
			o << "frame " << *gen::weightedElement<int>({{10, 0}, {2, 1}, {2, 2}, {2, 3}, {2, 4}, {1, 5}, {1, 6}, {1, 7}, {1, 8}}) << " "
			  << *gen::weightedElement<int>({{6, 0}, {3, 1}, {2, 2}, {2, 3}, {1, 4}}) << " " << *gen::element(0, 1, 3, 4, 5, 8, 16, 60, 64, 65, 200, 5000) << " "
			  << *pbt::range<int>(1, 999) << " " << *gen::element(0, 0, 1, 3, 7);
			break;
		case 1: {
			auto v = *gen::resize(12, gen::container<std::vector<uint8_t>>(gen::arbitrary<uint8_t>()));
			o << "bytes " << pbt::hexs(v);
			break;
		}
		case 2: o << "close"; break;
		case 3: o << "reconnect " << *gen::weightedElement<int>({{6, 0}, {1, 1}, {1, 2}, {1, 3}, {1, 4}, {1, 5}}) << " " << *pbt::range<int>(0, 8); break;
		case 4: o << "stall " << *gen::element(100, 5000, 11000); break;
		case 5: o << "apprecv"; break;
		case 6: o << "good"; break;
		}
		return o.str();
	});
}

std::string
gen_c11()
{
	std::ostringstream t;
	int mode = *pbt::welem<int>({{5, 0}, {1, 1}, {1, 2}});
	t << "cfg " << *pbt::range<int>(1, 1000000) << " " << mode << " 20 " << *pbt::range<int>(1, 3) << " 600 0\n";
	t << "world " << *pbt::range<int>(0, c11::kNProtos - 1) << " " << *pbt::welem<int>({{3, 0}, {2, 1}, {2, 2}}) << " " << *gen::element(0, 64, 64, 1024, -1) << "\n";
	t << "reconnect " << *gen::weightedElement<int>({{8, 0}, {1, 1}, {1, 2}, {1, 3}, {1, 4}, {1, 5}}) << " " << *pbt::range<int>(0, 8) << "\n";
	auto ops = *gen::container<std::vector<std::string>>(genOp());
	for (auto &l : ops)
		t << l << "\n";
	return t.str();
}

} // namespace

int
main(int argc, char **argv)
{
	pbt::PropSpec sp;
	sp.id         = "C11";
	sp.gen        = gen_c11;
	sp.exec       = c11::exec_c11;
	sp.watchdog_s = 60;
	sp.rule = "grammar-generated hostile sessions (handshake valid / bad magic / wrong protocol / reserved bytes set / truncated at byte k / "
	          "trickled; frames whose length field is consistent, +-1, RECVMAXSZ, RECVMAXSZ+1, 2^32+-1, 2^63, 2^64-1 with valid, short, "
	          "unterminated or over-TTL protocol headers; arbitrary bytes; disconnects and 11 s stalls) from raw wire peers over "
	          "socket-fd / ipc / tcp against each of 20 socket kinds with RECVMAXSZ in {0, 64, 1024, default}. Oracle: no crash/deadlock/"
	          "livelock; the application only receives bodies the reference decoder calls deliverable, never above RECVMAXSZ; oversize or "
	          "malformed frames close that connection; a fresh well-behaved connection and an inproc control connection keep working. "
	          "Non-trivial = the session passed the handshake and contained a frame the decoder rejects, or ended inside a frame; distinct by case hash";
	sp.nontrivial = [](const std::set<std::string> &t) { return t.count("handshake_ok") && (t.count("rejected_frame") || t.count("cut_inside_frame")); };
	return pbt::pbt_main(argc, argv, sp);
}
