// Oracle for C19 (shared by the rapidcheck driver and the libFuzzer target).
#pragma once
#include <nng/nng.h>
#include <netdb.h>
#include <arpa/inet.h>
#include <string>
#include <vector>
#include <cstring>
#include <cctype>
#include "caseio.h"

namespace urlo {

static const char *kSchemes[] = {"http", "https", "tcp", "tcp4", "tcp6", "tls+tcp", "tls+tcp4", "tls+tcp6", "socket",
    "inproc", "ipc", "unix", "abstract", "ws", "ws4", "ws6", "wss", "wss4", "wss6", "udp", "udp4", "udp6", "dtls", "dtls4",
    "dtls6", "file", "mailto", "gopher", "ftp", "ssh", "git", "telnet", "irc", "imap", "imaps", nullptr};

inline bool
is_hex(char c)
{
	return (c >= '0' && c <= '9') || (c >= 'a' && c <= 'f') || (c >= 'A' && c <= 'F');
}
inline int
hexval(char c)
{
	return c <= '9' ? c - '0' : (c | 0x20) - 'a' + 10;
}

// strict RFC 3629 validator
inline bool
utf8_valid(const std::string &s)
{
	size_t i = 0, n = s.size();
	while (i < n) {
		unsigned char c = (unsigned char) s[i];
		if (c < 0x80) {
			i++;
			continue;
		}
		int      nb;
		uint32_t v, minv;
		if (c >= 0xc2 && c <= 0xdf) {
			nb = 1; v = c & 0x1f; minv = 0x80;
		} else if (c >= 0xe0 && c <= 0xef) {
			nb = 2; v = c & 0x0f; minv = 0x800;
		} else if (c >= 0xf0 && c <= 0xf4) {
			nb = 3; v = c & 0x07; minv = 0x10000;
		} else
			return false;
		if (i + nb >= n)
			return false; // truncated
		for (int k = 1; k <= nb; k++) {
			unsigned char d = (unsigned char) s[i + k];
			if ((d & 0xc0) != 0x80)
				return false;
			v = (v << 6) | (d & 0x3f);
		}
		if (v < minv || (v >= 0xd800 && v <= 0xdfff) || v > 0x10ffff)
			return false;
		i += nb + 1;
	}
	return true;
}

inline std::string
pct_decode(const std::string &s)
{
	std::string o;
	for (size_t i = 0; i < s.size(); i++) {
		if (s[i] == '%' && i + 2 < s.size() && is_hex(s[i + 1]) && is_hex(s[i + 2])) {
			o += (char) (hexval(s[i + 1]) * 16 + hexval(s[i + 2]));
			i += 2;
		} else
			o += s[i];
	}
	return o;
}

inline std::string
str(const char *p)
{
	return p ? std::string("S:") + p : std::string("NULL");
}

struct Fields {
	std::string scheme, host, path, query, frag, user;
	uint32_t    port;
	bool
	operator==(const Fields &o) const
	{
		return scheme == o.scheme && host == o.host && path == o.path && query == o.query && frag == o.frag &&
		    port == o.port;
	}
};

inline Fields
fields(const nng_url *u)
{
	Fields f;
	f.scheme = str(nng_url_scheme(u));
	f.host   = str(nng_url_hostname(u));
	f.path   = str(nng_url_path(u));
	f.query  = str(nng_url_query(u));
	f.frag   = str(nng_url_fragment(u));
	f.user   = str(nng_url_userinfo(u));
	f.port   = nng_url_port(u);
	return f;
}

inline std::string
sprint(const nng_url *u)
{
	int n = nng_url_sprintf(nullptr, 0, u);
	VR_CHECK(n >= 0, "C19:sprintf-neg", "nng_url_sprintf returned %d", n);
	std::vector<char> b((size_t) n + 1);
	int               n2 = nng_url_sprintf(b.data(), b.size(), u);
	VR_CHECK(n2 == n && strlen(b.data()) == (size_t) n, "C19:sprintf-len", "sprintf length %d vs %d vs strlen %zu", n, n2,
	    strlen(b.data()));
	return std::string(b.data());
}

// Checks everything the property demands of nng_url_parse on input s (C string semantics).
inline void
check_url(const std::string &in)
{
	std::string s = in.c_str(); // up to first NUL
	nng_url    *u = nullptr;
	int         rv = nng_url_parse(&u, s.c_str());
	if (rv != 0) {
		vr_tag("rejected");
		VR_CHECK(u == nullptr, "C19:reject-nonnull", "parse failed with %d but stored a url", rv);
		return;
	}
	vr_tag("accepted");
	Fields f = fields(u);
	// (i) exact scheme
	size_t sep = s.find("://");
	VR_CHECK(sep != std::string::npos, "C19:no-separator", "accepted a string without ://");
	std::string sch   = s.substr(0, sep);
	bool        exact = false;
	for (int i = 0; kSchemes[i]; i++)
		if (sch == kSchemes[i])
			exact = true;
	VR_CHECK(exact, "C19:scheme-not-exact", "accepted scheme '%s' (reported as %s)", sch.c_str(), f.scheme.c_str());
	VR_CHECK(f.scheme == "S:" + sch, "C19:scheme-value", "scheme accessor %s for input scheme %s", f.scheme.c_str(),
	    sch.c_str());
	std::string rest = s.substr(sep + 3);
	bool        opaque = sch == "ipc" || sch == "unix" || sch == "abstract" || sch == "inproc" || sch == "socket";
	if (s.size() > 128)
		vr_tag("gt128");
	if (opaque) {
		vr_tag("opaque_scheme");
		VR_CHECK(f.path == "S:" + rest, "C19:opaque-path", "path %s != verbatim remainder", f.path.c_str());
	} else {
		size_t      ae = rest.find_first_of("/?#");
		std::string auth = rest.substr(0, ae);
		std::string rem  = ae == std::string::npos ? "" : rest.substr(ae);
		// (ii) escapes
		for (size_t i = 0; i < rem.size(); i++)
			if (rem[i] == '%') {
				VR_CHECK(i + 2 < rem.size() && is_hex(rem[i + 1]) && is_hex(rem[i + 2]),
				    "C19:bad-escape-accepted", "accepted invalid percent escape at %zu in '%s'", i, rem.c_str());
				vr_tag("escape");
			}
		// (iii) resulting path valid UTF-8 after decoding
		std::string path = nng_url_path(u) ? nng_url_path(u) : "";
		std::string dec  = pct_decode(path);
		bool        hi   = false;
		for (unsigned char c : dec)
			if (c >= 0x80)
				hi = true;
		if (hi)
			vr_tag("nonascii_path");
		VR_CHECK(utf8_valid(dec), "C19:invalid-utf8-accepted", "accepted path that is not valid UTF-8 after decoding");
		// (iv) authority
		size_t nat = 0;
		for (char c : auth)
			if (c == '@')
				nat++;
		VR_CHECK(nat <= 1, "C19:two-at", "accepted authority with %zu '@'", nat);
		std::string hp = nat ? auth.substr(auth.find('@') + 1) : auth;
		if (nat)
			vr_tag("userinfo");
		std::string host, port;
		bool        hasport = false;
		if (!hp.empty() && hp[0] == '[') {
			vr_tag("ipv6_literal");
			size_t cb = hp.find(']');
			VR_CHECK(cb != std::string::npos, "C19:unclosed-bracket", "accepted '[' without ']'");
			host = hp.substr(1, cb - 1);
			VR_CHECK(cb + 1 == hp.size() || hp[cb + 1] == ':', "C19:junk-after-bracket", "accepted junk after ']'");
			if (cb + 1 < hp.size()) {
				hasport = true;
				port    = hp.substr(cb + 2);
			}
		} else {
			size_t c = hp.find(':');
			host     = hp.substr(0, c);
			if (c != std::string::npos) {
				hasport = true;
				port    = hp.substr(c + 1);
			}
		}
		VR_CHECK(host.size() < 256, "C19:long-host", "accepted host of %zu bytes", host.size());
		std::string lh = host;
		for (auto &c : lh)
			if (c >= 'A' && c <= 'Z')
				c = (char) (c + 32);
		VR_CHECK(f.host == "S:" + lh, "C19:host-value", "host %s, expected lower-cased '%s'", f.host.c_str(), lh.c_str());
		if (hasport) {
			vr_tag("explicit_port");
			VR_CHECK(!port.empty(), "C19:empty-port", "accepted empty port");
			// reference: C-locale strtol-style decimal (optional blanks, optional sign) in 0..65535, else a service name
			size_t i = 0;
			while (i < port.size() && isspace((unsigned char) port[i]))
				i++;
			bool neg = false;
			if (i < port.size() && (port[i] == '+' || port[i] == '-')) {
				neg = port[i] == '-';
				i++;
			}
			size_t    d0 = i;
			long long v  = 0;
			while (i < port.size() && isdigit((unsigned char) port[i]) && v < 10000000) {
				v = v * 10 + (port[i] - '0');
				i++;
			}
			bool numeric = i == port.size() && i > d0;
			if (numeric && !(neg && v != 0) && v <= 65535) {
				VR_CHECK(f.port == (uint32_t) v, "C19:port-value", "port %u for text '%s'", f.port, port.c_str());
				if (d0 != 0)
					vr_tag("lenient_port_spelling");
			} else {
				// nng lower-cases the whole host:port text, so service names match case-insensitively
				std::string lp = port;
				for (auto &ch : lp)
					ch = (char) tolower((unsigned char) ch);
				struct servent *se = getservbyname(lp.c_str(), "tcp");
				VR_CHECK(se != nullptr, "C19:bad-port-accepted", "accepted port '%s' (-> %u)", port.c_str(), f.port);
				VR_CHECK(f.port == ntohs(se->s_port), "C19:service-port", "service %s -> %u", port.c_str(), f.port);
				vr_tag("service_port");
			}
		}
		VR_CHECK(f.port <= 65535, "C19:port-range", "port %u", f.port);
		// canonical form of the path
		for (size_t i = 0; i + 2 < path.size(); i++)
			if (path[i] == '%' && is_hex(path[i + 1]) && is_hex(path[i + 2])) {
				int c = hexval(path[i + 1]) * 16 + hexval(path[i + 2]);
				VR_CHECK(!(isalnum(c) || c == '.' || c == '~' || c == '_' || c == '-' || c >= 0x80),
				    "C19:uncanonical-escape", "escape of unreserved/high byte %%%02X remains in path '%s'", c,
				    path.c_str());
			}
		VR_CHECK(path.find("//") == std::string::npos, "C19:dup-slash", "path '%s' contains //", path.c_str());
		{
			size_t i = 0;
			while (i < path.size()) {
				size_t      e   = path.find('/', i + 1);
				std::string seg = path.substr(i, e == std::string::npos ? e : e - i);
				VR_CHECK(seg != "/." && seg != "/..", "C19:dot-segment", "path '%s' keeps a dot segment", path.c_str());
				if (e == std::string::npos)
					break;
				i = e;
			}
		}
		if (rem.find("/.") != std::string::npos || rem.find("%2E") != std::string::npos || rem.find("%2e") != std::string::npos)
			vr_tag("dotseg_input");
		if (rem.find("//") != std::string::npos)
			vr_tag("dupslash_input");
		if (nng_url_query(u))
			vr_tag("query");
		if (nng_url_fragment(u))
			vr_tag("fragment");
	}
	// round trip
	std::string s1 = sprint(u);
	nng_url    *u2 = nullptr;
	rv             = nng_url_parse(&u2, s1.c_str());
	VR_CHECK(rv == 0, "C19:roundtrip-reject", "sprintf output '%s' does not parse (%d)", s1.c_str(), rv);
	Fields f2 = fields(u2);
	VR_CHECK(f == f2, "C19:roundtrip-fields",
	    "re-parse of '%s' differs: host %s/%s port %u/%u path %s/%s query %s/%s frag %s/%s", s1.c_str(), f.host.c_str(),
	    f2.host.c_str(), f.port, f2.port, f.path.c_str(), f2.path.c_str(), f.query.c_str(), f2.query.c_str(),
	    f.frag.c_str(), f2.frag.c_str());
	std::string s2 = sprint(u2);
	VR_CHECK(s1 == s2, "C19:roundtrip-text", "sprintf not idempotent: '%s' vs '%s'", s1.c_str(), s2.c_str());
	nng_url_free(u2);
	// clone: equal and independent
	nng_url *c = nullptr;
	rv         = nng_url_clone(&c, u);
	VR_CHECK(rv == 0 && c != nullptr, "C19:clone-fail", "nng_url_clone of a %zu-byte URL failed (%d)", s.size(), rv);
	Fields fc = fields(c);
	VR_CHECK(fc == f && fc.user == f.user, "C19:clone-fields", "clone differs from original");
	nng_url_free(u);
	Fields fc2 = fields(c); // original gone: clone must still be intact (ASan sees dangling pointers)
	VR_CHECK(fc2 == f && fc2.user == f.user, "C19:clone-dependent", "clone changed after freeing the original");
	std::string s3 = sprint(c);
	VR_CHECK(s3 == s1, "C19:clone-text", "clone formats differently");
	nng_url_free(c);
}

} // namespace urlo
