// C08: PAIR - one peer at a time, ordered lossless exchange, hop limit (PAIRv1).
// World 0/1: three pair0/pair1 sockets over inproc (A listens, B and C dial at generated times),
//            exact per-sender FIFO model with loss windows only around disconnects/shrinking resizes.
// World 2/3: a cooked/raw PAIRv1 socket against a raw wire peer over socket:// (crafted hop words).
#include "pbt.hpp"
#include "nngh.h"
#include "rawpeer.h"
#include <deque>

namespace {

struct Sock {
	nng_socket            s;
	nng_dialer            d;
	bool                  dialing = false;
	std::set<uint32_t>    live; // pipes with ADD_POST and no REM_POST
	int                   sbuf = 0, rbuf = 0;
	uint32_t              seq = 0;
	std::deque<uint32_t>  outbox;     // accepted, not yet received by anyone (in send order)
	uint32_t              lossy_until = 0; // gaps tolerated for tags <= this
	std::set<uint32_t>    limbo;           // skipped inside a loss window: may still sit in the old peer's receive queue
	int                   maxlive     = 0;
	// blocked (asynchronous) sends: a message counts as accepted, at the tail of the send order, when its aio completes
	struct Pend {
		nng_aio *aio;
		uint32_t tag;
		int      done;
	};
	std::vector<Pend *> pend;
};

struct World {
	Sock S[3]; // A, B, C
	bool v1 = false;
};

static World *gW;

static void
mark_lossy(Sock &x)
{
	if (!x.outbox.empty() || !x.pend.empty())
		x.lossy_until = std::max(x.lossy_until, ((uint32_t) (&x - gW->S) << 24) | x.seq); // every tag issued so far
}

static void
pipe_cb(nng_pipe p, nng_pipe_ev ev, void *arg)
{
	Sock *s = (Sock *) arg;
	vr_trace("pipe event sock=%d pipe=%u ev=%d", (int) (s - gW->S), (unsigned) nng_pipe_id(p), (int) ev);
	if (ev == NNG_PIPE_EV_ADD_POST) {
		s->live.insert((uint32_t) nng_pipe_id(p));
		if ((int) s->live.size() > s->maxlive)
			s->maxlive = (int) s->live.size();
	} else if (ev == NNG_PIPE_EV_REM_POST) {
		// a socket may learn of the loss of its peer late (e.g. while it holds an unread message):
		// whatever it accepted up to the moment its own pipe is removed travelled on a dead connection
		// (also for a pipe that never reached ADD_POST: buffered messages are handed to a starting
		// pipe which the peer may still refuse)
		s->live.erase((uint32_t) nng_pipe_id(p));
		mark_lossy(*s);
	}
}

static void
pend_cb(void *arg)
{
	((Sock::Pend *) arg)->done++;
}

// completed blocked sends join the send order now; failed ones give their message back
static void
harvest(World &W)
{
	for (int x = 0; x < 3; x++) {
		Sock &X = W.S[x];
		for (size_t i = 0; i < X.pend.size();) {
			Sock::Pend *P = X.pend[i];
			if (!P->done) {
				i++;
				continue;
			}
			VR_CHECK(P->done == 1, "C08:send-completed-twice", "blocked send %x completed %d times", P->tag, P->done);
			int rv = nng_aio_result(P->aio);
			if (rv == 0) {
				X.outbox.push_back(P->tag);
				vr_tag("blocked_send_released");
			} else {
				nng_msg *m = nng_aio_get_msg(P->aio);
				VR_CHECK(m != nullptr && at_is_live(m), "C08:failed-send-lost-message", "blocked send %x failed with %d but its message is gone", P->tag, rv);
				nng_msg_free(m);
			}
			nng_aio_free(P->aio);
			delete P;
			X.pend.erase(X.pend.begin() + (long) i);
		}
	}
}

// who is X connected to at this quiescent point (-1 none)
static int
peer_of(World &W, int x)
{
	if (x == 0) {
		if (W.S[0].live.empty())
			return -1;
		if (!W.S[1].live.empty())
			return 1;
		if (!W.S[2].live.empty())
			return 2;
		return -1;
	}
	return (!W.S[x].live.empty() && !W.S[0].live.empty()) ? 0 : -1;
}

static void
audit(World &W, const char *when)
{
	VR_CHECK(W.S[0].live.size() <= 1, "C08:two-peers", "%s: listener socket has %zu live pipes", when, W.S[0].live.size());
	VR_CHECK(W.S[1].live.size() + W.S[2].live.size() <= 1, "C08:two-peers",
	    "%s: both dialers hold an established pipe to the same PAIR socket (%zu + %zu)", when, W.S[1].live.size(), W.S[2].live.size());
}

static void
on_receive(World &W, int y, nng_msg *m)
{
	uint32_t tag;
	VR_CHECK(h_msg_tag(m, &tag) == 0, "C08:corrupt-message", "socket %d received a corrupted message", y);
	nng_msg_free(m);
	int x = (int) (tag >> 24);
	VR_CHECK(x >= 0 && x < 3 && x != y, "C08:corrupt-message", "bad tag %x on %d", tag, y);
	// exclusivity: only messages between A and one of B/C can exist; B<->C never talk
	VR_CHECK(x == 0 || y == 0, "C08:cross-delivery", "message %x from dialer %d delivered to dialer %d", tag, x, y);
	Sock &X = W.S[x];
	if (X.limbo.erase(tag)) {
		vr_tag("late_delivery_to_old_peer");
		return;
	}
	auto  it = std::find(X.outbox.begin(), X.outbox.end(), tag);
	VR_CHECK(it != X.outbox.end(), "C08:duplicate-or-phantom", "socket %d received %x which is not an outstanding accepted message (duplicate, reordered or never sent)", y, tag);
	// everything before it in the outbox was skipped: only allowed inside a loss window
	for (auto j = X.outbox.begin(); j != it; ++j) {
		VR_CHECK(*j <= X.lossy_until, "C08:lost-or-reordered",
		    "socket %d received %x from %d but the earlier accepted message %x was never delivered (no disconnect / shrinking resize since)", y, tag, x, *j);
		X.limbo.insert(*j);
	}
	X.outbox.erase(X.outbox.begin(), it + 1);
	vr_tag("delivered");
}

int
exec_inproc(const vcase *vc, World &W)
{
	const char *url = "inproc://c08";
	for (int i = 0; i < 3; i++) {
		if (W.v1)
			H_OK(nng_pair1_open(&W.S[i].s));
		else
			H_OK(nng_pair0_open(&W.S[i].s));
		H_OK(nng_pipe_notify(W.S[i].s, NNG_PIPE_EV_ADD_PRE, pipe_cb, &W.S[i]));
		H_OK(nng_pipe_notify(W.S[i].s, NNG_PIPE_EV_ADD_POST, pipe_cb, &W.S[i]));
		H_OK(nng_pipe_notify(W.S[i].s, NNG_PIPE_EV_REM_POST, pipe_cb, &W.S[i]));
		H_OK(nng_socket_set_ms(W.S[i].s, NNG_OPT_RECONNMINT, 10));
		H_OK(nng_socket_set_ms(W.S[i].s, NNG_OPT_RECONNMAXT, 10));
	}
	H_OK(nng_listen(W.S[0].s, url, NULL, 0));
	vs_settle();
	bool refused_seen = false;
	for (int i = 2; i < vc->nops; i++) {
		const vop  *o = &vc->ops[i];
		std::string n = o->name;
		vr_at(i, o->name);
		int x = (int) vop_arg(o, 0, 0), a1 = (int) vop_arg(o, 1, 0);
		if (x < 0 || x > 2)
			continue;
		Sock &X = W.S[x];
		if (n == "dial") {
			if (x == 0 || X.dialing)
				continue;
			int other = x == 1 ? 2 : 1;
			bool busy = !W.S[other].live.empty();
			H_OK(nng_dial(X.s, url, &X.d, NNG_FLAG_NONBLOCK));
			X.dialing = true;
			vs_settle();
			if (busy) {
				VR_CHECK(X.live.empty(), "C08:second-peer-accepted", "dialer %d established a pipe while dialer %d is paired", x, other);
				refused_seen = true;
				vr_tag("third_peer_refused");
			}
		} else if (n == "hang") {
			if (x == 0 || !X.dialing)
				continue;
			// the connection of x goes away: in-flight messages in both directions may be lost
			if (!X.live.empty()) {
				mark_lossy(X);
				mark_lossy(W.S[0]);
				vr_tag("peer_left");
			}
			nng_dialer_close(X.d);
			X.dialing = false;
			vs_settle();
			// the other dialer may now get in (its redial timer fires every 10 ms)
			vs_sleep(25);
			vs_settle();
		} else if (n == "send") {
			uint32_t tag = ((uint32_t) x << 24) | ++X.seq;
			nng_msg *m   = h_msg(tag, (size_t) (a1 & 31));
			uint64_t t0  = vs_now();
			X.outbox.push_back(tag); // before the call: the pipe may be found dead while the send is in progress
			int      rv  = nng_sendmsg(X.s, m, NNG_FLAG_NONBLOCK);
			VR_CHECK(vs_now() - t0 <= 3, "C08:nonblock-blocked", "non-blocking send took %llu ms", (unsigned long long) (vs_now() - t0));
			VR_CHECK(rv == 0 || rv == NNG_EAGAIN, "C08:send-code", "non-blocking send -> %d", rv);
			if (rv != 0) {
				auto f = std::find(X.outbox.begin(), X.outbox.end(), tag);
				if (f != X.outbox.end())
					X.outbox.erase(f);
			}
			if (getenv("VERIF_TRACE"))
				vs_dump("at send");
			vr_trace("send %x -> %d (live A=%zu B=%zu C=%zu)", tag, rv, W.S[0].live.size(), W.S[1].live.size(), W.S[2].live.size());
			if (rv != 0) {
				VR_CHECK(at_is_live(m), "C08:failed-send-lost-message", "failed send released the message");
				nng_msg_free(m);
				vr_tag("backpressure");
			}
			vs_settle();
			// bounded: accepted-but-unreceived fits in the buffers (+ in-flight slots)
			int  y     = peer_of(W, x);
			long bound = X.sbuf + (y >= 0 ? W.S[y].rbuf : 0) + 5;
			if (X.lossy_until == 0 || X.outbox.empty() || X.outbox.front() > X.lossy_until)
				VR_CHECK((long) X.outbox.size() <= bound, "C08:unbounded-acceptance",
				    "socket %d has %zu accepted-but-undelivered messages (SENDBUF %d, peer RECVBUF %d): discarding instead of blocking", x,
				    X.outbox.size(), X.sbuf, y >= 0 ? W.S[y].rbuf : 0);
		} else if (n == "asend") {
			// a sender that blocks: the aio stays pending until there is room (or a peer)
			if (X.pend.size() >= 2)
				continue;
			uint32_t tag = ((uint32_t) x << 24) | ++X.seq;
			nng_msg *m   = h_msg(tag, (size_t) (a1 & 31));
			auto    *P   = new Sock::Pend{nullptr, tag, 0};
			H_OK(nng_aio_alloc(&P->aio, pend_cb, P));
			nng_aio_set_timeout(P->aio, NNG_DURATION_INFINITE);
			nng_aio_set_msg(P->aio, m);
			X.pend.push_back(P);
			nng_socket_send(X.s, P->aio);
			vs_settle();
			if (!P->done)
				vr_tag("sender_blocked");
		} else if (n == "recv") {
			harvest(W);
			nng_msg *m  = nullptr;
			int      rv = nng_recvmsg(X.s, &m, NNG_FLAG_NONBLOCK);
			VR_CHECK(rv == 0 || rv == NNG_EAGAIN, "C08:recv-code", "non-blocking receive -> %d", rv);
			if (rv == 0)
				on_receive(W, x, m);
			else {
				// nothing available: then the current peer must not have an outstanding message for us outside a loss window
				int y = peer_of(W, x);
				if (y >= 0) {
					Sock &Y = W.S[y];
					for (auto t : Y.outbox)
						VR_CHECK(t <= Y.lossy_until, "C08:lost-message",
						    "socket %d has nothing to receive although its peer %d had message %x accepted (no disconnect / shrinking resize since)", x, y, t);
				}
			}
			vs_settle();
		} else if (n == "sbuf" || n == "rbuf") {
			if (a1 < 0 || a1 > 8)
				continue;
			bool snd = n == "sbuf";
			int &cur = snd ? X.sbuf : X.rbuf;
			if (a1 < cur) { // shrinking may discard queued messages
				if (snd)
					mark_lossy(X);
				else
					for (int k = 0; k < 3; k++)
						if (k != x)
							mark_lossy(W.S[k]);
				vr_tag("shrink");
			}
			H_OK(nng_socket_set_int(X.s, snd ? NNG_OPT_SENDBUF : NNG_OPT_RECVBUF, a1));
			cur = a1;
			vs_settle();
			vr_tag("resize");
		} else if (n == "wait") {
			vs_sleep(a1 > 0 ? a1 : 1);
			vs_settle();
		}
		harvest(W);
		audit(W, o->name);
	}
	// final drain
	for (int round = 0; round < 100; round++) {
		bool any = false;
		for (int x = 0; x < 3; x++) {
			nng_msg *m;
			harvest(W);
			while (nng_recvmsg(W.S[x].s, &m, NNG_FLAG_NONBLOCK) == 0) {
				on_receive(W, x, m);
				any = true;
				vs_settle();
				harvest(W);
			}
		}
		if (!any)
			break;
	}
	for (int x = 0; x < 3; x++) {
		int y = peer_of(W, x);
		if (y < 0)
			continue;
		for (auto t : W.S[x].outbox)
			VR_CHECK(t <= W.S[x].lossy_until, "C08:lost-message", "final drain: message %x accepted from %d never reached its peer %d", t, x, y);
	}
	if (refused_seen)
		vr_tag("exclusive_checked");
	for (int x = 0; x < 3; x++)
		for (auto *P : W.S[x].pend)
			nng_aio_cancel(P->aio);
	vs_settle();
	for (int x = 0; x < 3; x++)
		for (auto *P : W.S[x].pend)
			nng_aio_wait(P->aio);
	harvest(W);
	for (int i = 2; i >= 0; i--)
		nng_socket_close(W.S[i].s);
	return 0;
}

// ------------------------------------------------------------ hop-limit world (raw wire peer)
static uint32_t
be32(const uint8_t *p)
{
	return ((uint32_t) p[0] << 24) | (p[1] << 16) | (p[2] << 8) | p[3];
}

int
exec_hops(const vcase *vc, bool raw)
{
	nng_socket   a;
	nng_listener l;
	rp           P;
	bool         attached = false;
	int          ttl      = 8;
	if (raw)
		H_OK(nng_pair1_open_raw(&a));
	else
		H_OK(nng_pair1_open(&a));
	H_OK(nng_listener_create(&l, a, "socket://"));
	H_OK(nng_listener_start(l, 0));
	H_OK(nng_socket_set_int(a, NNG_OPT_RECVBUF, 4));
	auto attach = [&]() {
		H_OK(rp_attach_socket(&P, l));
		uint16_t pp = 0;
		int      rv = rp_handshake(&P, SP_PAIR1, &pp);
		VR_CHECK(rv == 0 && pp == SP_PAIR1, "harness:handshake", "handshake rv %d proto %x", rv, pp);
		vs_settle();
		attached = true;
	};
	attach();
	uint32_t tag = 1;
	bool     dropped = false, delivered = false;
	for (int i = 2; i < vc->nops; i++) {
		const vop  *o = &vc->ops[i];
		std::string n = o->name;
		vr_at(i, o->name);
		if (n == "ttl") {
			int v  = (int) vop_arg(o, 0, 8);
			int rv = nng_socket_set_int(a, NNG_OPT_MAXTTL, v);
			if (v < 1 || v > 15)
				VR_CHECK(rv != 0, "C08:ttl-range", "MAXTTL %d accepted", v);
			else {
				VR_CHECK(rv == 0, "C08:ttl-set", "MAXTTL %d -> %d", v, rv);
				ttl = v;
			}
		} else if (n == "hop") { // hop <word> <short?>
			if (!attached)
				attach();
			uint32_t w     = (uint32_t) vop_arg(o, 0, 1);
			int      shrt  = (int) vop_arg(o, 1, 0); // 1..3: frame shorter than 4 bytes
			uint8_t  buf[16];
			size_t   len;
			uint32_t t = tag++;
			if (shrt > 0) {
				len = (size_t) (shrt & 3);
				memset(buf, 0, sizeof buf);
			} else {
				buf[0] = w >> 24; buf[1] = w >> 16; buf[2] = w >> 8; buf[3] = w;
				buf[4] = t >> 24; buf[5] = t >> 16; buf[6] = t >> 8; buf[7] = t;
				len    = 8;
			}
			int wr = rp_send_msg(&P, buf, len);
			VR_CHECK(wr == 0, "harness:write", "raw write failed %d", wr);
			vs_settle();
			rp_pump(&P);
			nng_msg *m  = nullptr;
			int      rv = nng_recvmsg(a, &m, NNG_FLAG_NONBLOCK);
			bool malformed = shrt > 0 || w > 0xff;
			if (malformed) {
				vr_tag("malformed_hop");
				VR_CHECK(rv == NNG_EAGAIN, "C08:malformed-delivered", "message with malformed hop header (word %x, len %zu) was delivered", w, len);
				VR_CHECK(P.eof, "C08:malformed-not-disconnected", "sender of malformed hop header (word %x, len %zu) was not disconnected", w, len);
				rp_close(&P);
				attached = false;
			} else if ((int) w > ttl) {
				vr_tag("over_ttl");
				dropped = true;
				VR_CHECK(rv == NNG_EAGAIN, "C08:over-ttl-delivered", "hop %u delivered with MAXTTL %d", w, ttl);
				VR_CHECK(!P.eof, "C08:over-ttl-disconnected", "hop %u > MAXTTL %d disconnected the sender", w, ttl);
			} else {
				delivered = true;
				VR_CHECK(rv == 0, "C08:valid-hop-dropped", "hop %u with MAXTTL %d not delivered (rv %d)", w, ttl, rv);
				VR_CHECK(!P.eof, "C08:valid-hop-disconnected", "valid hop %u disconnected the sender", w);
				VR_CHECK(nng_msg_len(m) == 4 && be32((uint8_t *) nng_msg_body(m)) == t, "C08:hop-body", "body altered");
				if (raw) {
					VR_CHECK(nng_msg_header_len(m) == 4 && be32((uint8_t *) nng_msg_header(m)) == w, "C08:raw-hop-header",
					    "raw socket header is not the received hop word %u", w);
					// forward it back: the wire must carry hop+1 (or be refused when it would exceed 0xff)
					int sr = nng_sendmsg(a, m, NNG_FLAG_NONBLOCK);
					if (sr == 0) {
						m = nullptr;
						vs_settle();
						uint8_t *pl;
						size_t   pn;
						int      g = rp_recv_msg(&P, &pl, &pn);
						VR_CHECK(g == 1 && pn == 8, "C08:forward-missing", "forwarded message not on the wire (%d)", g);
						VR_CHECK(be32(pl) == w + 1, "C08:hop-not-incremented", "forwarded hop %u, expected %u", be32(pl), w + 1);
						free(pl);
						vr_tag("raw_forward");
					} else
						VR_CHECK(sr == NNG_EPROTO && w >= 0xff, "C08:forward-refused", "raw forward of hop %u -> %d", w, sr);
				}
			}
			if (m)
				nng_msg_free(m);
		} else if (n == "jamout") { // jamout hop n : n large sends while the wire peer does not read (the pipe is busy, senders wait), then the peer drains
			uint32_t h = (uint32_t) vop_arg(o, 0, 1);
			int      cnt = (int) vop_arg(o, 1, 3);
			if (cnt < 1 || cnt > 6 || h < 1 || h > 0xfd)
				continue;
			if (attached) {
				rp_close(&P);
				attached = false;
				vs_settle();
			}
			rp_socket_sndbuf = 1; // minimal kernel buffer on nng's end: a peer that does not read stalls the pipe
			attach();
			rp_socket_sndbuf = 0;
			struct Snd {
				nng_aio *aio;
				uint32_t tag;
			};
			std::vector<Snd> snd;
			for (int q = 0; q < cnt; q++) {
				Snd S;
				S.tag = tag++;
				H_OK(nng_aio_alloc(&S.aio, NULL, NULL));
				nng_msg *m = h_msg(S.tag, 20000);
				if (raw)
					nng_msg_header_append_u32(m, h);
				nng_aio_set_msg(S.aio, m);
				nng_socket_send(a, S.aio);
				vs_settle();
				snd.push_back(S);
			}
			int waiting = 0;
			for (auto &S : snd)
				if (nng_aio_busy(S.aio))
					waiting++;
			if (waiting >= 1)
				vr_tag("sender_waited_behind_busy_pipe");
			// now the peer reads everything: every frame carries the incremented hop, bodies intact and in order
			size_t got = 0;
			for (int round = 0; round < 400 && got < snd.size(); round++) {
				vs_settle();
				uint8_t *pl;
				size_t   pn;
				int      g = rp_recv_msg(&P, &pl, &pn);
				VR_CHECK(g >= 0, "C08:wire-frame", "malformed frame on the wire");
				if (g == 0) {
					vs_sleep(1);
					continue;
				}
				VR_CHECK(pn == 8 + 20000, "C08:wire-frame", "frame of %zu bytes, expected hop word + 20004-byte body", pn);
				uint32_t want = raw ? h + 1 : 1;
				VR_CHECK(be32(pl) == want, "C08:hop-not-incremented", "message %zu of %zu sent behind a busy pipe carries hop %u on the wire, expected %u", got + 1, snd.size(), be32(pl), want);
				VR_CHECK(be32(pl + 4) == snd[got].tag, "C08:lost-or-reordered", "frame %zu carries body %x, expected %x", got + 1, be32(pl + 4), snd[got].tag);
				for (size_t q = 8; q < pn; q++)
					VR_CHECK(pl[q] == (uint8_t) (snd[got].tag * 31 + (q - 8) * 7), "C08:wire-body", "body corrupted at offset %zu", q - 8);
				free(pl);
				got++;
			}
			VR_CHECK(got == snd.size(), "C08:lost-message", "%zu of %zu messages sent behind a busy pipe never reached the wire", snd.size() - got, snd.size());
			for (auto &S : snd) {
				nng_aio_wait(S.aio);
				VR_CHECK(nng_aio_result(S.aio) == 0, "C08:send-code", "blocked send -> %d", nng_aio_result(S.aio));
				nng_aio_free(S.aio);
			}
		} else if (n == "out") { // cooked send: wire hop must be 1
			if (raw)
				continue;
			if (!attached)
				attach();
			uint32_t t  = tag++;
			nng_msg *m  = h_msg(t, 0);
			int      rv = nng_sendmsg(a, m, NNG_FLAG_NONBLOCK);
			VR_CHECK(rv == 0, "C08:cooked-send", "send -> %d", rv);
			vs_settle();
			uint8_t *pl;
			size_t   pn;
			int      g = rp_recv_msg(&P, &pl, &pn);
			VR_CHECK(g == 1 && pn == 8, "C08:wire-frame", "cooked send produced no/odd frame (%d, %zu)", g, g == 1 ? pn : 0);
			VR_CHECK(be32(pl) == 1, "C08:cooked-hop", "cooked send carries hop %u on the wire, expected 1", be32(pl));
			VR_CHECK(be32(pl + 4) == t, "C08:wire-body", "body altered on the wire");
			free(pl);
		}
	}
	if (dropped && delivered)
		vr_tag("hop_mixed");
	if (attached)
		rp_close(&P);
	nng_socket_close(a);
	return 0;
}

int
exec_c08(const vcase *vc)
{
	h_cfg cfg;
	if (vc->nops < 2 || strcmp(vc->ops[0].name, "cfg") != 0 || strcmp(vc->ops[1].name, "world") != 0)
		return 0;
	h_cfg_from_op(&cfg, &vc->ops[0]);
	int w = (int) vop_arg(&vc->ops[1], 0, 0);
	if (h_begin(&cfg) != 0)
		return 0;
	vr_tagf("world%d", w);
	int rv;
	if (w <= 1) {
		World W;
		W.v1 = w == 1;
		gW   = &W;
		rv   = exec_inproc(vc, W);
	} else
		rv = exec_hops(vc, w == 3);
	h_end();
	return rv;
}

using namespace rc;

Gen<std::string>
genOpInproc()
{
	return gen::exec([]() {
		std::ostringstream o;
		int x = *gen::weightedElement<int>({{4, 0}, {4, 1}, {2, 2}});
		int k = *gen::weightedElement<int>({{12, 0}, {10, 1}, {3, 2}, {2, 3}, {2, 4}, {2, 5}, {1, 6}, {4, 7}});
		switch (k) {
		case 0: o << "send " << x << " " << *pbt::range<int>(0, 31); break;
		case 1: o << "recv " << x; break;
		case 2: o << "dial " << *pbt::range<int>(1, 2); break;
		case 3: o << "hang " << *pbt::range<int>(1, 2); break;
		case 4: o << "sbuf " << x << " " << *pbt::range<int>(0, 4); break;
		case 5: o << "rbuf " << x << " " << *pbt::range<int>(0, 4); break;
		case 6: o << "wait 0 " << *gen::element(1, 15, 40); break;
		case 7: o << "asend " << x << " " << *pbt::range<int>(0, 31); break;
		}
		return o.str();
	});
}

Gen<std::string>
genOpHops()
{
	return gen::exec([]() {
		std::ostringstream o;
		int k = *gen::weightedElement<int>({{12, 0}, {2, 1}, {3, 2}, {4, 3}, {2, 4}});
		switch (k) {
		case 4: o << "jamout " << *gen::element(1, 2, 7, 14, 200) << " " << *pbt::range<int>(2, 5); break;
		case 0: {
			uint32_t w = *gen::weightedOneOf<uint32_t>({
			    {8, gen::map(pbt::range<int>(0, 17), [](int v) { return (uint32_t) v; })},
			    {3, gen::element<uint32_t>(0xfe, 0xff, 0x100, 0x101, 0xffff, 0x10000, 0x10001, 0x7fffffffu, 0x80000000u, 0x80000001u, 0x80000008u, 0xffffff01u, 0xffffffffu)},
			    {1, gen::arbitrary<uint32_t>()},
			});
			o << "hop " << w << " 0";
			break;
		}
		case 1: o << "hop 0 " << *pbt::range<int>(1, 3); break;
		case 2: o << "ttl " << *gen::element(1, 2, 3, 8, 15, 1, 2, 0, 16); break;
		case 3: o << "out"; break;
		}
		return o.str();
	});
}

std::string
gen_c08()
{
	std::ostringstream t;
	int mode = *pbt::welem<int>({{3, 0}, {2, 1}, {2, 2}, {2, 3}});
	int w    = *pbt::welem<int>({{3, 0}, {3, 1}, {2, 2}, {2, 3}});
	t << "cfg " << *pbt::range<int>(1, 1000000) << " " << mode << " " << (mode == 3 ? *gen::element(5, 20, 50) : *gen::element(10, 30, 60)) << " " << *pbt::range<int>(1, 3) << " " << (mode == 3 ? *gen::element(60, 150, 400) : 600) << " 0\n";
	t << "world " << w << "\n";
	if (w <= 1 && *gen::weightedElement<int>({{1, 0}, {4, 1}}))
		t << "dial 1\n";
	auto ops = *gen::container<std::vector<std::string>>(w <= 1 ? genOpInproc() : genOpHops());
	for (auto &l : ops)
		t << l << "\n";
	return t.str();
}

} // namespace

int
main(int argc, char **argv)
{
	pbt::PropSpec sp;
	sp.id   = "C08";
	sp.gen  = gen_c08;
	sp.exec = exec_c08;
	sp.rule = "worlds 0/1: three pair0/pair1 sockets on inproc (listener A, dialers B and C connecting/leaving at generated times), "
	          "tagged non-blocking sends and receives in all directions, SENDBUF/RECVBUF 0..4 resizes, virtual waits, fifo/random/pct "
	          "schedules; per-sender FIFO model with loss windows only around disconnects and shrinking resizes. Worlds 2/3: cooked/raw "
	          "PAIRv1 against a raw wire peer over socket:// sending crafted hop words (0..17, boundary and bit-31 values, short frames) "
	          "with MAXTTL changes. Non-trivial = a third peer was refused while a message was delivered, or >=1 over-TTL drop plus >=1 "
	          "delivery, or a malformed hop header; distinct by case hash";
	sp.nontrivial = [](const std::set<std::string> &t) {
		return (t.count("third_peer_refused") && t.count("delivered")) || t.count("hop_mixed") || t.count("malformed_hop") ||
		    (t.count("backpressure") && t.count("delivered"));
	};
	return pbt::pbt_main(argc, argv, sp);
}
