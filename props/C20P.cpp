// C20P: every allocation point of every synchronous public call (fault enumeration per call).
//
// The C20 driver samples "the k-th allocation of a whole program".  This driver attacks the same property
// from the other side: a generated sequence of *synchronous* public calls (message edits, URL parse / clone,
// id maps, socket / context / dialer / listener / aio creation, subscriptions, statistics snapshots, stream
// dialer / listener objects, HTTP handler / server / client objects, strdup) is executed, and EVERY call is
// repeated with its 1st, 2nd, 3rd ... allocation failing until it runs through without reaching the armed
// fault -- i.e. all allocation points of that call in that state are enumerated.
// Oracle per failed attempt: the call returns NNG_ENOMEM (or its fault-free error), the object it worked on
// is unchanged (reference model: byte strings for messages, the fault-free parse for URLs, std::map for id
// maps, handle tables for sockets), nothing crashes (ASan / UBSan / NNI_ASSERT), and the objects stay usable:
// the following operations of the sequence run against the same models.  At the end everything is closed
// and nng_fini must return every block.
#include "pbt.hpp"
#include "nngh.h"
#include <nng/http.h>
#include <map>
#include <unistd.h>

namespace {

using bytes = std::vector<uint8_t>;

struct MsgM {
	bool     live = false;
	nng_msg *m    = nullptr;
	bytes    h, b;
};
struct UrlM {
	bool        live = false;
	nng_url    *u    = nullptr;
	std::string text; // nng_url_sprintf of the fault-free parse
};
struct MapM {
	bool                      live = false;
	nng_id_map               *m    = nullptr;
	uint64_t                  lo = 0, hi = 0;
	std::map<uint64_t, void *> md;
};
struct SockM {
	bool       live = false;
	nng_socket s    = NNG_SOCKET_INITIALIZER;
	int        proto = 0;
	bool       raw   = false;
	bool       connected = false; // has (had) a pipe: option sets are applied per pipe and may fail half-way (documented in pub.c / bus.c)
};
struct CtxM {
	bool    live = false;
	nng_ctx c    = NNG_CTX_INITIALIZER;
	int     sock = 0;
};
struct EpM {
	bool         live = false, dialer = false, started = false;
	nng_dialer   d = NNG_DIALER_INITIALIZER;
	nng_listener l = NNG_LISTENER_INITIALIZER;
	int          sock = 0;
};

struct ProtoDef {
	const char *name;
	int (*open)(nng_socket *);
	int (*open_raw)(nng_socket *);
	bool ctx;
};
static const ProtoDef kP[] = {
	{"pair0", nng_pair0_open, nng_pair0_open_raw, false},
	{"pair1", nng_pair1_open, nng_pair1_open_raw, false},
	{"pub", nng_pub0_open, nng_pub0_open_raw, false},
	{"sub", nng_sub0_open, nng_sub0_open_raw, true},
	{"push", nng_push0_open, nng_push0_open_raw, false},
	{"pull", nng_pull0_open, nng_pull0_open_raw, false},
	{"req", nng_req0_open, nng_req0_open_raw, true},
	{"rep", nng_rep0_open, nng_rep0_open_raw, true},
	{"surveyor", nng_surveyor0_open, nng_surveyor0_open_raw, true},
	{"respondent", nng_respondent0_open, nng_respondent0_open_raw, true},
	{"bus", nng_bus0_open, nng_bus0_open_raw, false},
};
static const int NPROTO = 11;

static uint8_t
pat(long long seed, size_t k)
{
	return (uint8_t) ((seed * 131 + (long long) k * 7 + (k >> 8)) & 0xff);
}
static bytes
mk(long long seed, size_t len)
{
	bytes v(len);
	for (size_t i = 0; i < len; i++)
		v[i] = pat(seed, i);
	return v;
}
static const uint8_t *
ptr(const bytes &v)
{
	static const uint8_t none[1] = {0};
	return v.empty() ? none : v.data();
}

struct World {
	MsgM  msg[3];
	UrlM  url[3];
	MapM  map[2];
	SockM sock[4];
	CtxM  ctx[3];
	EpM   ep[4];
	nng_aio             *aio[3]  = {nullptr, nullptr, nullptr};
	nng_stream_dialer   *sd[2]   = {nullptr, nullptr};
	nng_stream_listener *sl[2]   = {nullptr, nullptr};
	nng_http_handler    *hh[3]   = {nullptr, nullptr, nullptr};
	bool                 hh_owned[3] = {true, true, true}; // false once added to a server
	int                  hh_srv[3]   = {-1, -1, -1};
	nng_http_server     *srv[2]  = {nullptr, nullptr};
	nng_http_client     *cli[2]  = {nullptr, nullptr};
	// a live client connection to an in-process server (set up with no fault armed): request-building calls are enumerated on it
	nng_http            *hconn   = nullptr;
	nng_http_server     *hsrv    = nullptr;
	nng_http_client     *hcl     = nullptr;
	std::string          huri    = "/";
	std::map<std::string, std::string> hhdr;
	std::vector<nng_socket> peers; // harness-owned peers connected to the sockets (set up with no fault armed)
	int  npeer = 0;
	int  pid_salt = 0;
	long faults = 0, enomem = 0, calls = 0, recovered = 0;
	int  opidx = 0;
};

static void
cmp_msg(const MsgM &M, const char *what, long j)
{
	size_t hl = nng_msg_header_len(M.m), bl = nng_msg_len(M.m);
	if (hl != M.h.size() || bl != M.b.size())
		vr_fail("C20:state-changed-by-failed-call", "%s (allocation %ld of the call failing): message lengths header %zu body %zu, model %zu / %zu", what, j, hl, bl, M.h.size(),
		    M.b.size());
	if ((hl && memcmp(nng_msg_header(M.m), M.h.data(), hl) != 0) || (bl && memcmp(nng_msg_body(M.m), M.b.data(), bl) != 0))
		vr_fail("C20:state-changed-by-failed-call", "%s (allocation %ld of the call failing): message content differs from the model", what, j);
	if (nng_msg_capacity(M.m) < bl)
		vr_fail("C20:state-changed-by-failed-call", "%s: capacity %zu below length %zu", what, nng_msg_capacity(M.m), bl);
}

static void
cmp_map(MapM &M, const char *what, long j)
{
	for (auto &kv : M.md)
		if (nng_id_get(M.m, kv.first) != kv.second)
			vr_fail("C20:state-changed-by-failed-call", "%s (allocation %ld failing): id map lost or changed key %llu", what, j, (unsigned long long) kv.first);
	uint64_t k;
	void    *v;
	uint32_t cur = 0;
	size_t   n   = 0;
	while (nng_id_visit(M.m, &k, &v, &cur)) {
		n++;
		auto it = M.md.find(k);
		if (it == M.md.end() || it->second != v)
			vr_fail("C20:state-changed-by-failed-call", "%s (allocation %ld failing): id map visit shows key %llu not in the model", what, j, (unsigned long long) k);
		if (n > M.md.size() + 2)
			break;
	}
	if (n != M.md.size())
		vr_fail("C20:state-changed-by-failed-call", "%s (allocation %ld failing): id map visit shows %zu entries, model %zu", what, j, n, M.md.size());
}

// Run one call with every one of its allocation points failing in turn.
//   call()      performs the call once and returns its result code (0 / nng_err); for calls that return a
//               pointer it returns NNG_ENOMEM for NULL.
//   unchanged() checks the object against the model after a failed attempt (j = which allocation failed)
//   expect      the fault-free result the model predicts (-1 = unknown: taken from the final attempt)
// Returns the result of the final (fault-free) attempt.
template <class Call, class Unch>
static int
enumerate(World &W, const char *name, int expect, Call call, Unch unchanged)
{
	const long cap = 300;
	W.calls++;
	for (long j = 1; j <= cap; j++) {
		at_fail_at(j);
		int  rv  = call();
		bool inj = at_failed_serial() != 0;
		at_fail_at(0);
		if (!inj) {
			if (expect >= 0 && rv != expect)
				vr_fail("C20:call-result", "op %d %s: fault-free attempt returned %d (%s), model expects %d", W.opidx, name, rv, nng_strerror((nng_err) rv), expect);
			if (j > 1)
				W.recovered++;
			vr_count(3, j - 1);
			return rv;
		}
		W.faults++;
		vr_count(0, 1);
		if (rv == NNG_ENOMEM) {
			W.enomem++;
			vr_tag("call_returned_enomem");
			unchanged(j);
			continue;
		}
		if (rv == 0) {
			// the call absorbed the failed allocation (best effort): it must then have had its full effect; the caller verifies that
			vr_tag("call_succeeded_despite_fault");
			vr_tagf("absorbed:%.28s", name);
			vr_count(3, j);
			return rv;
		}
		if (expect > 0 && rv == expect) {
			unchanged(j); // the call's own (fault-free) error, found before the missing memory mattered
			continue;
		}
		vr_fail("C20:unclean-error", "op %d %s: allocation %ld inside the call failed and it returned %d (%s) instead of NNG_ENOMEM", W.opidx, name, j, rv, nng_strerror((nng_err) rv));
	}
	vr_tag("enumeration_capped");
	at_fail_at(0);
	return call();
}

static std::string
addr_for(World &W, int kind, int n)
{
	char b[200];
	switch (kind % 6) {
	case 0: snprintf(b, sizeof b, "inproc://c20p-%d-%d", (int) getpid(), n); break;
	case 1: snprintf(b, sizeof b, "ipc:///tmp/c20p-%d-%d.sock", (int) getpid(), n); break;
	case 2: snprintf(b, sizeof b, "tcp://127.0.0.1:%d", 20000 + ((int) getpid() * 7 + n) % 30000); break;
	case 3: snprintf(b, sizeof b, "ws://127.0.0.1:%d/some/path%d", 20000 + ((int) getpid() * 7 + n) % 30000, n); break;
	case 4: snprintf(b, sizeof b, "tcp://localhost:%d", 20000 + ((int) getpid() * 7 + n) % 30000); break;
	default: snprintf(b, sizeof b, "udp://127.0.0.1:%d", 20000 + ((int) getpid() * 7 + n) % 30000); break;
	}
	(void) W;
	return b;
}

static void
final_cleanup(World &W)
{
	for (auto &M : W.msg)
		if (M.live)
			nng_msg_free(M.m);
	for (auto &U : W.url)
		if (U.live)
			nng_url_free(U.u);
	for (auto &M : W.map)
		if (M.live)
			nng_id_map_free(M.m);
	for (auto &C : W.ctx)
		if (C.live)
			nng_ctx_close(C.c);
	for (auto &E : W.ep)
		if (E.live) {
			if (E.dialer)
				nng_dialer_close(E.d);
			else
				nng_listener_close(E.l);
		}
	for (auto &S : W.sock)
		if (S.live)
			nng_socket_close(S.s);
	for (auto &pk : W.peers)
		nng_socket_close(pk);
	for (auto &a : W.aio)
		if (a)
			nng_aio_free(a);
	for (auto &d : W.sd)
		if (d)
			nng_stream_dialer_free(d);
	for (auto &l : W.sl)
		if (l)
			nng_stream_listener_free(l);
	for (int i = 0; i < 3; i++)
		if (W.hh[i] && W.hh_owned[i])
			nng_http_handler_free(W.hh[i]);
	for (auto &s : W.srv)
		if (s)
			nng_http_server_release(s);
	for (auto &c : W.cli)
		if (c)
			nng_http_client_free(c);
	if (W.hconn)
		nng_http_close(W.hconn);
	if (W.hcl)
		nng_http_client_free(W.hcl);
	if (W.hsrv) {
		nng_http_server_stop(W.hsrv);
		nng_http_server_release(W.hsrv);
	}
}

static void
sanity_exchange(World &W)
{
	// the library as a whole still works: a fresh PAIR0 couple over inproc exchanges one message
	nng_socket a, b;
	char       addr[64];
	snprintf(addr, sizeof addr, "inproc://c20p-sanity-%d-%d", (int) getpid(), W.pid_salt++);
	H_OK(nng_pair0_open(&a));
	H_OK(nng_pair0_open(&b));
	nng_socket_set_ms(a, NNG_OPT_RECVTIMEO, 2000);
	nng_socket_set_ms(b, NNG_OPT_SENDTIMEO, 2000);
	H_OK(nng_listen(a, addr, NULL, 0));
	H_OK(nng_dial(b, addr, NULL, 0));
	nng_msg *m = h_msg(0xabc0de, 20);
	if (m == NULL)
		vr_fail("C20:later-call-misbehaves", "message allocation fails with no fault armed");
	int rv = nng_sendmsg(b, m, 0);
	if (rv != 0)
		vr_fail("C20:later-call-misbehaves", "sanity exchange: send -> %d", rv);
	nng_msg *r = NULL;
	rv         = nng_recvmsg(a, &r, 0);
	uint32_t t = 0;
	if (rv != 0 || h_msg_tag(r, &t) != 0 || t != 0xabc0de)
		vr_fail("C20:later-call-misbehaves", "sanity exchange: recv -> %d tag %x", rv, t);
	nng_msg_free(r);
	nng_socket_close(a);
	nng_socket_close(b);
	vr_tag("sanity_exchange");
}

static void
nullcb(void *)
{
}
static void
nullhandler(nng_http *, void *, nng_aio *a)
{
	nng_aio_finish(a, NNG_OK);
}

int
exec_c20p(const vcase *vc)
{
	h_cfg cfg;
	if (vc->nops < 1 || strcmp(vc->ops[0].name, "cfg") != 0)
		return 0;
	h_cfg_from_op(&cfg, &vc->ops[0]);
	cfg.mode = 0; // fifo: the caller runs until it blocks, so the armed fault stays inside the call
	if (h_begin(&cfg) != 0)
		return 0;
	World W;
	// state-aware slot selection: an index names the (k mod n)-th object satisfying the precondition
	auto pick_sock = [&](long long k, std::function<bool(const SockM &)> pred) -> int {
		std::vector<int> v;
		for (int q = 0; q < 4; q++)
			if (W.sock[q].live && pred(W.sock[q]))
				v.push_back(q);
		return v.empty() ? -1 : v[(size_t) ((unsigned long long) k % v.size())];
	};
	auto any_sock = [](const SockM &) { return true; };
	for (int i = 1; i < vc->nops; i++) {
		const vop  *o = &vc->ops[i];
		std::string n = o->name;
		vr_at(i, o->name);
		W.opidx      = i;
		int       s  = (int) vop_arg(o, 0, 0);
		long long a1 = vop_arg(o, 1, 0), a2 = vop_arg(o, 2, 0);
		// ---------------------------------------------------------------- messages
		if (n[0] == 'm') {
			if (s < 0 || s > 2)
				continue;
			MsgM &M = W.msg[s];
			if (n == "malloc") {
				if (M.live)
					continue;
				size_t   sz = (size_t) a1;
				nng_msg *m  = nullptr;
				int rv = enumerate(W, "nng_msg_alloc", 0, [&] { m = nullptr; return nng_msg_alloc(&m, sz); }, [&](long) {});
				if (rv != 0)
					continue;
				M      = MsgM();
				M.live = true;
				M.m    = m;
				M.b    = mk(a2, sz);
				if (nng_msg_len(m) != sz)
					vr_fail("C20:call-result", "nng_msg_alloc(%zu): length %zu", sz, nng_msg_len(m));
				if (sz)
					memcpy(nng_msg_body(m), M.b.data(), sz);
				continue;
			}
			if (!M.live)
				continue;
			if (n == "mfree") {
				nng_msg_free(M.m);
				M.live = false;
			} else if (n == "mdup") {
				int d = (int) a1;
				if (d < 0 || d > 2 || W.msg[d].live)
					continue;
				nng_msg *c = nullptr;
				int rv = enumerate(W, "nng_msg_dup", 0, [&] { c = nullptr; return nng_msg_dup(&c, M.m); }, [&](long j) { cmp_msg(M, "nng_msg_dup (source)", j); });
				if (rv == 0) {
					W.msg[d]   = M;
					W.msg[d].m = c;
					cmp_msg(W.msg[d], "nng_msg_dup (copy)", 0);
				}
				cmp_msg(M, "nng_msg_dup (source afterwards)", 0);
			} else if (n == "mappend" || n == "minsert") {
				bytes d  = mk(a2, (size_t) a1);
				bool  ap = n == "mappend";
				int   rv = enumerate(W, ap ? "nng_msg_append" : "nng_msg_insert", 0, [&] { return ap ? nng_msg_append(M.m, ptr(d), d.size()) : nng_msg_insert(M.m, ptr(d), d.size()); },
				      [&](long j) { cmp_msg(M, ap ? "nng_msg_append" : "nng_msg_insert", j); });
				if (rv == 0) {
					if (ap)
						M.b.insert(M.b.end(), d.begin(), d.end());
					else
						M.b.insert(M.b.begin(), d.begin(), d.end());
				}
				cmp_msg(M, "after append/insert", 0);
			} else if (n == "mrealloc") {
				size_t sz = (size_t) a1;
				int    rv = enumerate(W, "nng_msg_realloc", 0, [&] { return nng_msg_realloc(M.m, sz); }, [&](long j) { cmp_msg(M, "nng_msg_realloc", j); });
				if (rv == 0) {
					size_t old = M.b.size();
					M.b.resize(sz);
					// (new bytes are unspecified: define them)
					for (size_t k = old; k < sz; k++) {
						M.b[k]                              = pat(a2, k);
						((uint8_t *) nng_msg_body(M.m))[k] = M.b[k];
					}
				}
				cmp_msg(M, "after realloc", 0);
			} else if (n == "mreserve") {
				size_t cap = (size_t) a1;
				int    rv  = enumerate(W, "nng_msg_reserve", 0, [&] { return nng_msg_reserve(M.m, cap); }, [&](long j) { cmp_msg(M, "nng_msg_reserve", j); });
				if (rv == 0 && nng_msg_capacity(M.m) < cap)
					vr_fail("C20:call-result", "nng_msg_reserve(%zu) succeeded with capacity %zu", cap, nng_msg_capacity(M.m));
				cmp_msg(M, "after reserve", 0);
			} else if (n == "mapp32") {
				int rv = enumerate(W, "nng_msg_append_u32", 0, [&] { return nng_msg_append_u32(M.m, (uint32_t) a1); }, [&](long j) { cmp_msg(M, "nng_msg_append_u32", j); });
				if (rv == 0)
					for (int k = 3; k >= 0; k--)
						M.b.push_back((uint8_t) ((uint32_t) a1 >> (8 * k)));
				cmp_msg(M, "after append_u32", 0);
			} else if (n == "mins64") {
				int rv = enumerate(W, "nng_msg_insert_u64", 0, [&] { return nng_msg_insert_u64(M.m, (uint64_t) a1); }, [&](long j) { cmp_msg(M, "nng_msg_insert_u64", j); });
				if (rv == 0) {
					bytes e;
					for (int k = 7; k >= 0; k--)
						e.push_back((uint8_t) ((uint64_t) a1 >> (8 * k)));
					M.b.insert(M.b.begin(), e.begin(), e.end());
				}
				cmp_msg(M, "after insert_u64", 0);
			} else if (n == "mhapp") {
				bytes d = mk(a2, (size_t) a1);
				int   want = M.h.size() + d.size() > 64 ? (int) NNG_EINVAL : 0;
				int   rv = enumerate(W, "nng_msg_header_append", want, [&] { return nng_msg_header_append(M.m, ptr(d), d.size()); }, [&](long j) { cmp_msg(M, "nng_msg_header_append", j); });
				if (rv == 0)
					M.h.insert(M.h.end(), d.begin(), d.end());
				cmp_msg(M, "after header_append", 0);
			} else if (n == "mtrim") {
				size_t k    = (size_t) a1;
				int    want = k > M.b.size() ? (int) NNG_EINVAL : 0;
				int    rv   = enumerate(W, "nng_msg_trim", want, [&] { return nng_msg_trim(M.m, k); }, [&](long j) { cmp_msg(M, "nng_msg_trim", j); });
				if (rv == 0)
					M.b.erase(M.b.begin(), M.b.begin() + (long) k);
				cmp_msg(M, "after trim", 0);
			} else if (n == "mchop") {
				size_t k    = (size_t) a1;
				int    want = k > M.b.size() ? (int) NNG_EINVAL : 0;
				int    rv   = enumerate(W, "nng_msg_chop", want, [&] { return nng_msg_chop(M.m, k); }, [&](long j) { cmp_msg(M, "nng_msg_chop", j); });
				if (rv == 0)
					M.b.resize(M.b.size() - k);
				cmp_msg(M, "after chop", 0);
			}
			continue;
		}
		// ---------------------------------------------------------------- URLs
		if (n == "uparse") {
			if (s < 0 || s > 2 || W.url[s].live || o->nd < 1)
				continue;
			std::string txt((const char *) o->d[0], o->dl[0]);
			if (txt.find('\0') != std::string::npos)
				continue;
			nng_url *base = nullptr;
			int      brv  = nng_url_parse(&base, txt.c_str()); // fault-free reference parse
			char     bt[2048];
			bt[0] = 0;
			if (brv == 0) {
				nng_url_sprintf(bt, sizeof bt, base);
				nng_url_free(base);
			}
			nng_url *u  = nullptr;
			int      rv = enumerate(W, "nng_url_parse", brv, [&] { u = nullptr; return (int) nng_url_parse(&u, txt.c_str()); }, [&](long) {});
			if (rv == 0) {
				char t2[2048];
				nng_url_sprintf(t2, sizeof t2, u);
				if (strcmp(bt, t2) != 0)
					vr_fail("C20:call-result", "nng_url_parse(%s) after failed attempts gives '%s', fault-free parse gives '%s'", txt.c_str(), t2, bt);
				W.url[s].live = true;
				W.url[s].u    = u;
				W.url[s].text = t2;
				if (txt.size() > 128)
					vr_tag("long_url");
			}
			continue;
		}
		if (n == "uclone") {
			int d = (int) a1;
			if (s < 0 || s > 2 || d < 0 || d > 2 || !W.url[s].live || W.url[d].live)
				continue;
			nng_url *c  = nullptr;
			auto     same = [&](long j) {
                                char t2[2048];
                                nng_url_sprintf(t2, sizeof t2, W.url[s].u);
                                if (W.url[s].text != t2)
                                        vr_fail("C20:state-changed-by-failed-call", "nng_url_clone (allocation %ld failing) changed its source: '%s' -> '%s'", j, W.url[s].text.c_str(), t2);
			};
			int rv = enumerate(W, "nng_url_clone", 0, [&] { c = nullptr; return (int) nng_url_clone(&c, W.url[s].u); }, same);
			if (rv == 0) {
				char t2[2048];
				nng_url_sprintf(t2, sizeof t2, c);
				if (W.url[s].text != t2)
					vr_fail("C20:call-result", "nng_url_clone gives '%s' for '%s'", t2, W.url[s].text.c_str());
				W.url[d]      = W.url[s];
				W.url[d].u    = c;
			}
			same(0);
			continue;
		}
		if (n == "ufree") {
			if (s < 0 || s > 2 || !W.url[s].live)
				continue;
			nng_url_free(W.url[s].u);
			W.url[s].live = false;
			continue;
		}
		// ---------------------------------------------------------------- id maps
		if (n[0] == 'i') {
			if (s < 0 || s > 1)
				continue;
			MapM &M = W.map[s];
			if (n == "imap") {
				if (M.live)
					continue;
				uint64_t lo = (uint64_t) a1, hi = (uint64_t) a2;
				if (hi < lo)
					std::swap(lo, hi);
				nng_id_map *m  = nullptr;
				int         rv = enumerate(W, "nng_id_map_alloc", 0, [&] { m = nullptr; return nng_id_map_alloc(&m, lo, hi, (int) vop_arg(o, 3, 0) ? NNG_MAP_RANDOM : 0); }, [&](long) {});
				if (rv == 0) {
					M      = MapM();
					M.live = true;
					M.m    = m;
					M.lo   = lo;
					M.hi   = hi;
				}
				continue;
			}
			if (!M.live)
				continue;
			if (n == "ifree") {
				nng_id_map_free(M.m);
				M.live = false;
			} else if (n == "iset") {
				uint64_t id = (uint64_t) a1;
				void    *v  = (void *) (uintptr_t) (0x1000 + i * 16);
				int      rv = enumerate(W, "nng_id_set", 0, [&] { return nng_id_set(M.m, id, v); }, [&](long j) { cmp_map(M, "nng_id_set", j); });
				if (rv == 0)
					M.md[id] = v;
				cmp_map(M, "after nng_id_set", 0);
			} else if (n == "ialloc") {
				uint64_t id   = 0;
				void    *v    = (void *) (uintptr_t) (0x1000 + i * 16);
				bool     full = M.hi - M.lo < 4096 && M.md.size() >= M.hi - M.lo + 1;
				int      rv   = enumerate(W, "nng_id_alloc", full ? (int) NNG_ENOMEM : -1, [&] { return nng_id_alloc(M.m, &id, v); }, [&](long j) { cmp_map(M, "nng_id_alloc", j); });
				if (rv == 0) {
					if (id < M.lo || id > M.hi || M.md.count(id))
						vr_fail("C20:call-result", "nng_id_alloc after failed attempts issued %llu (range %llu..%llu, live: %d)", (unsigned long long) id, (unsigned long long) M.lo,
						    (unsigned long long) M.hi, (int) M.md.count(id));
					M.md[id] = v;
				} else if (rv != NNG_ENOMEM)
					vr_fail("C20:call-result", "nng_id_alloc -> %d", rv);
				cmp_map(M, "after nng_id_alloc", 0);
			} else if (n == "iremove") {
				uint64_t id = (uint64_t) a1;
				if (a2 && !M.md.empty()) {
					auto it = M.md.begin();
					std::advance(it, (long) ((uint64_t) a1 % M.md.size()));
					id = it->first;
				}
				int want = M.md.count(id) ? 0 : (int) NNG_ENOENT;
				int rv   = enumerate(W, "nng_id_remove", want, [&] { return nng_id_remove(M.m, id); }, [&](long j) { cmp_map(M, "nng_id_remove", j); });
				if (rv == 0)
					M.md.erase(id);
				cmp_map(M, "after nng_id_remove", 0);
			}
			continue;
		}
		// ---------------------------------------------------------------- sockets, contexts, endpoints
		if (n == "sopen") {
			if (s < 0 || s > 3 || W.sock[s].live)
				continue;
			int        p   = (int) (a1 % NPROTO);
			bool       raw = a2 != 0;
			nng_socket sk  = NNG_SOCKET_INITIALIZER;
			int rv = enumerate(W, "nng_<proto>_open", 0, [&] { return raw ? kP[p].open_raw(&sk) : kP[p].open(&sk); }, [&](long) {});
			if (rv == 0) {
				if (nng_socket_id(sk) <= 0)
					vr_fail("C20:call-result", "%s open succeeded with id %d", kP[p].name, nng_socket_id(sk));
				W.sock[s] = SockM{true, sk, p, raw};
				vr_tag("socket_opened");
			}
			continue;
		}
		if (n == "sclose") {
			if (s < 0 || s > 3 || !W.sock[s].live)
				continue;
			int rv = enumerate(W, "nng_socket_close", 0, [&] { return nng_socket_close(W.sock[s].s); }, [&](long) {});
			(void) rv;
			W.sock[s].live = false;
			for (auto &C : W.ctx)
				if (C.live && C.sock == s)
					C.live = false;
			for (auto &E : W.ep)
				if (E.live && E.sock == s)
					E.live = false;
			continue;
		}
		if (n == "suse") {
			// later calls on an object that saw failed attempts do not misbehave
			if (s < 0 || s > 3 || !W.sock[s].live)
				continue;
			nng_msg *m  = NULL;
			int      rv = nng_recvmsg(W.sock[s].s, &m, NNG_FLAG_NONBLOCK);
			if (rv == 0)
				nng_msg_free(m);
			else if (rv != NNG_EAGAIN && rv != NNG_ENOTSUP && rv != NNG_ESTATE)
				vr_fail("C20:later-call-misbehaves", "non-blocking receive on an idle %s socket -> %d (%s)", kP[W.sock[s].proto].name, rv, nng_strerror((nng_err) rv));
			int v = 0;
			rv    = nng_socket_get_int(W.sock[s].s, NNG_OPT_RECVBUF, &v);
			if (rv != 0 && rv != NNG_ENOTSUP)
				vr_fail("C20:later-call-misbehaves", "get RECVBUF -> %d", rv);
			bool r2 = !W.sock[s].raw;
			rv      = nng_socket_raw(W.sock[s].s, &r2);
			if (rv != 0 || r2 != W.sock[s].raw)
				vr_fail("C20:later-call-misbehaves", "nng_socket_raw -> %d raw=%d (opened raw=%d)", rv, (int) r2, (int) W.sock[s].raw);
			continue;
		}
		if (n == "sconnect") {
			// a peer of the matching protocol connects over inproc (no fault armed): the socket now has a live pipe with its
			// per-pipe queues, so that later option sets / resizes / subscriptions reach the allocations made per pipe
			if (s < 0 || s > 3 || !W.sock[s].live || W.peers.size() >= 6)
				continue;
			static const int kPeer[] = {0, 1, 3, 2, 5, 4, 7, 6, 9, 8, 10};
			nng_socket       pk      = NNG_SOCKET_INITIALIZER;
			char             ub[64];
			snprintf(ub, sizeof ub, "inproc://c20p-peer-%d", W.npeer++);
			if (kP[kPeer[W.sock[s].proto]].open(&pk) != 0)
				continue;
			if (kPeer[W.sock[s].proto] == 3)
				nng_sub0_socket_subscribe(pk, "", 0);
			if (nng_listen(W.sock[s].s, ub, NULL, 0) != 0 || nng_dial(pk, ub, NULL, 0) != 0) {
				nng_socket_close(pk);
				continue;
			}
			W.peers.push_back(pk);
			W.sock[s].connected = true;
			vs_settle();
			vr_tag("socket_connected");
			if (a1) { // something sits in the queues: one message each way where the protocol allows a spontaneous send
				nng_msg *m = NULL;
				if (nng_msg_alloc(&m, 5) == 0 && nng_sendmsg(pk, m, NNG_FLAG_NONBLOCK) != 0)
					nng_msg_free(m);
				m = NULL;
				if (nng_msg_alloc(&m, 5) == 0 && nng_sendmsg(W.sock[s].s, m, NNG_FLAG_NONBLOCK) != 0)
					nng_msg_free(m);
				vs_settle();
			}
			continue;
		}
		if (n == "sbuf") {
			if (s < 0 || s > 3 || !W.sock[s].live)
				continue;
			const char *opt = a2 ? NNG_OPT_SENDBUF : NNG_OPT_RECVBUF;
			int         old = -1;
			if (nng_socket_get_int(W.sock[s].s, opt, &old) != 0)
				continue;
			int v  = (int) a1;
			int rv = enumerate(W, "nng_socket_set_int(buf)", -1, [&] { return nng_socket_set_int(W.sock[s].s, opt, v); },
			    [&](long j) {
				    int cur = -2;
				    nng_socket_get_int(W.sock[s].s, opt, &cur);
				    // (with live pipes the new depth is recorded first and then applied pipe by pipe; the protocols document that a
				    // failure half-way cannot be undone - the read-back is only judged for sockets without pipes)
				    if (cur != old && !W.sock[s].connected)
					    vr_fail("C20:state-changed-by-failed-call", "set %s to %d failed with NNG_ENOMEM (allocation %ld) but the option now reads %d (was %d)", opt, v, j, cur, old);
			    });
			int cur = -2;
			nng_socket_get_int(W.sock[s].s, opt, &cur);
			if (rv == 0 && cur != v)
				vr_fail("C20:call-result", "set %s to %d succeeded but reads %d", opt, v, cur);
			continue;
		}
		if (n == "ctxopen") {
			int k = pick_sock(a1, [&](const SockM &S) { return a2 == 0 || (kP[S.proto].ctx && !S.raw); });
			for (int q = 0; q < 3 && s >= 0 && s <= 2 && W.ctx[s].live; q++)
				s = (s + 1) % 3;
			if (s < 0 || s > 2 || k < 0 || W.ctx[s].live)
				continue;
			bool    can = kP[W.sock[k].proto].ctx && !W.sock[k].raw;
			nng_ctx c   = NNG_CTX_INITIALIZER;
			int     rv  = enumerate(W, "nng_ctx_open", can ? 0 : (int) NNG_ENOTSUP, [&] { return nng_ctx_open(&c, W.sock[k].s); }, [&](long) {});
			if (rv == 0) {
				W.ctx[s] = CtxM{true, c, k};
				vr_tag("ctx_opened");
			}
			continue;
		}
		if (n == "ctxclose") {
			if (s < 0 || s > 2 || !W.ctx[s].live)
				continue;
			enumerate(W, "nng_ctx_close", 0, [&] { return nng_ctx_close(W.ctx[s].c); }, [&](long) {});
			W.ctx[s].live = false;
			continue;
		}
		if (n == "sub" || n == "unsub") {
			// a1 = 0: socket s, 1: context s
			bytes topic = o->nd > 0 ? bytes(o->d[0], o->d[0] + o->dl[0]) : bytes();
			bool  isub  = n == "sub";
			if (a1 == 0) {
				s = pick_sock(s, [&](const SockM &S) { return S.proto == 3 && !S.raw; });
				if (s < 0)
					continue;
				enumerate(W, isub ? "nng_sub0_socket_subscribe" : "nng_sub0_socket_unsubscribe", -1,
				    [&] { return isub ? nng_sub0_socket_subscribe(W.sock[s].s, ptr(topic), topic.size()) : nng_sub0_socket_unsubscribe(W.sock[s].s, ptr(topic), topic.size()); }, [&](long) {});
			} else {
				if (s < 0 || s > 2 || !W.ctx[s].live || W.sock[W.ctx[s].sock].proto != 3)
					continue;
				enumerate(W, isub ? "nng_sub0_ctx_subscribe" : "nng_sub0_ctx_unsubscribe", -1,
				    [&] { return isub ? nng_sub0_ctx_subscribe(W.ctx[s].c, ptr(topic), topic.size()) : nng_sub0_ctx_unsubscribe(W.ctx[s].c, ptr(topic), topic.size()); }, [&](long) {});
			}
			continue;
		}
		if (n == "dcreate" || n == "lcreate") {
			int k = pick_sock(a1, any_sock);
			for (int q = 0; q < 4 && s >= 0 && s <= 3 && W.ep[s].live; q++)
				s = (s + 1) % 4;
			if (s < 0 || s > 3 || k < 0 || W.ep[s].live)
				continue;
			bool        dl   = n == "dcreate";
			// (variant 2: every endpoint created with it shares one address - a second listener there fails to start with NNG_EADDRINUSE and may be started again)
			std::string addr = addr_for(W, (int) a2, vop_arg(o, 3, 0) == 2 ? 99 : s + 10 * (int) vop_arg(o, 3, 0));
			nng_dialer   d = NNG_DIALER_INITIALIZER;
			nng_listener l = NNG_LISTENER_INITIALIZER;
			int rv = enumerate(W, dl ? "nng_dialer_create" : "nng_listener_create", -1,
			    [&] { return dl ? nng_dialer_create(&d, W.sock[k].s, addr.c_str()) : nng_listener_create(&l, W.sock[k].s, addr.c_str()); }, [&](long) {});
			if (rv == 0) {
				W.ep[s]        = EpM();
				W.ep[s].live   = true;
				W.ep[s].dialer = dl;
				W.ep[s].d      = d;
				W.ep[s].l      = l;
				W.ep[s].sock   = k;
				vr_tag(dl ? "dialer_created" : "listener_created");
				// the endpoint answers for itself
				const nng_url *u = nullptr;
				int            r2 = dl ? nng_dialer_get_url(d, &u) : nng_listener_get_url(l, &u);
				if (r2 != 0 || u == nullptr)
					vr_fail("C20:later-call-misbehaves", "get_url on a freshly created endpoint -> %d", r2);
			} else if (rv != NNG_ENOTSUP && rv != NNG_EADDRINVAL && rv != NNG_EINVAL)
				vr_fail("C20:call-result", "%s(%s) -> %d (%s)", dl ? "nng_dialer_create" : "nng_listener_create", addr.c_str(), rv, nng_strerror((nng_err) rv));
			continue;
		}
		if (n == "lstart") {
			for (int q = 0; q < 4 && s >= 0 && s <= 3 && !(W.ep[s].live && !W.ep[s].dialer && !W.ep[s].started); q++)
				s = (s + 1) % 4;
			if (s < 0 || s > 3 || !W.ep[s].live || W.ep[s].dialer || W.ep[s].started)
				continue;
			int rv = enumerate(W, "nng_listener_start", -1, [&] { return nng_listener_start(W.ep[s].l, 0); }, [&](long) {});
			if (rv == 0) {
				W.ep[s].started = true;
				vr_tag("listener_started");
			} else if (rv == NNG_ESTATE)
				vr_fail("C20:later-call-misbehaves", "nng_listener_start returns NNG_ESTATE although no earlier start succeeded (a failed start left the listener marked started)");
			continue;
		}
		if (n == "epclose") {
			if (s < 0 || s > 3 || !W.ep[s].live)
				continue;
			enumerate(W, "endpoint close", 0, [&] { return W.ep[s].dialer ? nng_dialer_close(W.ep[s].d) : nng_listener_close(W.ep[s].l); }, [&](long) {});
			W.ep[s].live = false;
			continue;
		}
		// ---------------------------------------------------------------- misc objects
		if (n == "aioalloc") {
			if (s < 0 || s > 2 || W.aio[s])
				continue;
			nng_aio *a = nullptr;
			if (enumerate(W, "nng_aio_alloc", 0, [&] { a = nullptr; return (int) nng_aio_alloc(&a, nullcb, nullptr); }, [&](long) {}) == 0)
				W.aio[s] = a;
			continue;
		}
		if (n == "aiofree") {
			if (s < 0 || s > 2 || !W.aio[s])
				continue;
			nng_aio_free(W.aio[s]);
			W.aio[s] = nullptr;
			continue;
		}
		if (n == "stats") {
			nng_stat *st = nullptr;
			int       rv = enumerate(W, "nng_stats_get", 0, [&] { st = nullptr; return nng_stats_get(&st); }, [&](long) {});
			if (rv == 0) {
				for (auto &S : W.sock)
					if (S.live && nng_stat_find_socket(st, S.s) == nullptr)
						vr_fail("C20:later-call-misbehaves", "statistics snapshot lacks open socket %d (its registration was lost in a failed call)", nng_socket_id(S.s));
				nng_stats_free(st);
				vr_tag("stats_snapshot");
			}
			continue;
		}
		if (n == "strdup") {
			std::string txt = o->nd > 0 ? std::string((const char *) o->d[0], o->dl[0]) : std::string();
			char       *c   = nullptr;
			enumerate(W, "nng_strdup", 0, [&] { c = nng_strdup(txt.c_str()); return c ? 0 : (int) NNG_ENOMEM; }, [&](long) {});
			if (c) {
				if (strcmp(c, txt.c_str()) != 0)
					vr_fail("C20:call-result", "nng_strdup content");
				nng_strfree(c);
			}
			continue;
		}
		if (n == "sdalloc" || n == "slalloc") {
			if (s < 0 || s > 1)
				continue;
			bool dl = n == "sdalloc";
			if (dl ? W.sd[s] != nullptr : W.sl[s] != nullptr)
				continue;
			int         kind = (int) a1 % 5;
			std::string addr = addr_for(W, kind == 0 ? 1 : kind, 40 + s);
			nng_stream_dialer   *d = nullptr;
			nng_stream_listener *l = nullptr;
			int rv = enumerate(W, dl ? "nng_stream_dialer_alloc" : "nng_stream_listener_alloc", -1,
			    [&] { d = nullptr; l = nullptr; return (int) (dl ? nng_stream_dialer_alloc(&d, addr.c_str()) : nng_stream_listener_alloc(&l, addr.c_str())); }, [&](long) {});
			if (rv == 0) {
				if (dl)
					W.sd[s] = d;
				else
					W.sl[s] = l;
				vr_tag(dl ? "stream_dialer" : "stream_listener");
			} else if (rv != NNG_ENOTSUP && rv != NNG_EADDRINVAL)
				vr_fail("C20:call-result", "%s(%s) -> %d", dl ? "nng_stream_dialer_alloc" : "nng_stream_listener_alloc", addr.c_str(), rv);
			continue;
		}
		if (n == "sdfree") {
			if (s >= 0 && s <= 1 && W.sd[s]) {
				nng_stream_dialer_free(W.sd[s]);
				W.sd[s] = nullptr;
			}
			continue;
		}
		if (n == "slfree") {
			if (s >= 0 && s <= 1 && W.sl[s]) {
				nng_stream_listener_free(W.sl[s]);
				W.sl[s] = nullptr;
			}
			continue;
		}
		// ---------------------------------------------------------------- HTTP objects
		if (n == "hnew") {
			if (s < 0 || s > 2 || W.hh[s])
				continue;
			int               kind = (int) a1 % 5;
			char              path[64];
			snprintf(path, sizeof path, "/h%d/%lld", s, a2 % 3);
			nng_http_handler *h  = nullptr;
			bytes             d  = mk(a2, (size_t) (a2 % 200));
			const char       *nm = kind == 0 ? "nng_http_handler_alloc" : kind == 1 ? "nng_http_handler_alloc_static" : kind == 2 ? "nng_http_handler_alloc_redirect" :
			          kind == 3                                                                                                   ? "nng_http_handler_alloc_directory" :
			                                                                                                                        "nng_http_handler_alloc_file";
			int rv = enumerate(W, nm, 0,
			    [&] {
				    h = nullptr;
				    switch (kind) {
				    case 0: return (int) nng_http_handler_alloc(&h, path, nullhandler);
				    case 1: return (int) nng_http_handler_alloc_static(&h, path, ptr(d), d.size(), a2 % 2 ? "text/plain" : nullptr);
				    case 2: return (int) nng_http_handler_alloc_redirect(&h, path, NNG_HTTP_STATUS_STATUS_MOVED_PERMANENTLY, "http://127.0.0.1/elsewhere");
				    case 3: return (int) nng_http_handler_alloc_directory(&h, path, "/tmp");
				    default: return (int) nng_http_handler_alloc_file(&h, path, "/etc/hostname");
				    }
			    },
			    [&](long) {});
			if (rv == 0) {
				W.hh[s]       = h;
				W.hh_owned[s] = true;
				W.hh_srv[s]   = -1;
				vr_tag("http_handler");
			}
			continue;
		}
		if (n == "hfree") {
			if (s >= 0 && s <= 2 && W.hh[s] && W.hh_owned[s]) {
				nng_http_handler_free(W.hh[s]);
				W.hh[s] = nullptr;
			}
			continue;
		}
		if (n == "shold") {
			if (s < 0 || s > 1 || W.srv[s])
				continue;
			// both slots may name the same address: the second hold then returns the same server
			char     ut[80];
			snprintf(ut, sizeof ut, "http://127.0.0.1:%d", 20000 + ((int) getpid() * 7 + (int) (a1 % 2)) % 30000);
			nng_url *u = nullptr;
			if (nng_url_parse(&u, ut) != 0)
				continue;
			nng_http_server *sv = nullptr;
			int              rv = enumerate(W, "nng_http_server_hold", 0, [&] { sv = nullptr; return (int) nng_http_server_hold(&sv, u); }, [&](long) {});
			nng_url_free(u);
			if (rv == 0) {
				W.srv[s] = sv;
				vr_tag("http_server");
			}
			continue;
		}
		if (n == "srelease") {
			if (s < 0 || s > 1 || !W.srv[s])
				continue;
			nng_http_server *sv = W.srv[s];
			W.srv[s]            = nullptr;
			int other = (W.srv[0] == sv) ? 0 : (W.srv[1] == sv) ? 1 : -1;
			nng_http_server_release(sv);
			for (int k = 0; k < 3; k++)
				if (W.hh[k] && !W.hh_owned[k] && W.hh_srv[k] == s) {
					if (other >= 0)
						W.hh_srv[k] = other; // the server lives on under the other reference
					else
						W.hh[k] = nullptr; // handlers owned by a destroyed server are gone with it
				}
			continue;
		}
		if (n == "sadd") {
			int k = (int) a1;
			if (s < 0 || s > 1 || k < 0 || k > 2 || !W.srv[s] || !W.hh[k] || !W.hh_owned[k])
				continue;
			// two slots holding the same server share its handler list: keep it simple and add only to unshared servers
			if (W.srv[0] == W.srv[1])
				continue;
			int rv = enumerate(W, "nng_http_server_add_handler", -1, [&] { return (int) nng_http_server_add_handler(W.srv[s], W.hh[k]); }, [&](long) {});
			if (rv == 0) {
				W.hh_owned[k] = false;
				W.hh_srv[k]   = s;
			} else if (rv != NNG_EADDRINUSE)
				vr_fail("C20:call-result", "nng_http_server_add_handler -> %d", rv);
			continue;
		}
		if (n == "sdel") {
			int k = (int) a1;
			if (s < 0 || s > 1 || k < 0 || k > 2 || !W.srv[s] || !W.hh[k] || W.hh_owned[k] || W.hh_srv[k] != s)
				continue;
			int rv = enumerate(W, "nng_http_server_del_handler", 0, [&] { return (int) nng_http_server_del_handler(W.srv[s], W.hh[k]); }, [&](long) {});
			if (rv == 0) {
				W.hh_owned[k] = true;
				W.hh_srv[k]   = -1;
			}
			continue;
		}
		if (n == "serrpage") {
			if (s < 0 || s > 1 || !W.srv[s])
				continue;
			enumerate(W, "nng_http_server_set_error_page", 0, [&] { return (int) nng_http_server_set_error_page(W.srv[s], (nng_http_status) (a1 % 2 ? 404 : 500), "<html>oops</html>"); }, [&](long) {});
			continue;
		}
		if (n == "calloc") {
			if (s < 0 || s > 1 || W.cli[s])
				continue;
			char ut[80];
			snprintf(ut, sizeof ut, "http://127.0.0.1:%d/x", 20000 + ((int) getpid() * 7 + 5) % 30000);
			nng_url *u = nullptr;
			if (nng_url_parse(&u, ut) != 0)
				continue;
			nng_http_client *c = nullptr;
			if (enumerate(W, "nng_http_client_alloc", 0, [&] { c = nullptr; return (int) nng_http_client_alloc(&c, u); }, [&](long) {}) == 0) {
				W.cli[s] = c;
				vr_tag("http_client");
			}
			nng_url_free(u);
			continue;
		}
		if (n == "cfree") {
			if (s >= 0 && s <= 1 && W.cli[s]) {
				nng_http_client_free(W.cli[s]);
				W.cli[s] = nullptr;
			}
			continue;
		}
		if (n == "hconn") {
			if (W.hconn)
				continue;
			nng_url *u = nullptr;
			if (nng_url_parse(&u, "http://127.0.0.1:0") != 0)
				continue;
			int port = 0;
			if (nng_http_server_hold(&W.hsrv, u) != 0 || nng_http_server_start(W.hsrv) != 0 || nng_http_server_get_port(W.hsrv, &port) != 0) {
				if (W.hsrv)
					nng_http_server_release(W.hsrv);
				W.hsrv = nullptr;
				nng_url_free(u);
				continue;
			}
			nng_url_free(u);
			char ub[64];
			snprintf(ub, sizeof ub, "http://127.0.0.1:%d/", port);
			nng_aio *ca = nullptr;
			if (nng_url_parse(&u, ub) == 0 && nng_http_client_alloc(&W.hcl, u) == 0 && nng_aio_alloc(&ca, NULL, NULL) == 0) {
				nng_http_client_connect(W.hcl, ca);
				nng_aio_wait(ca);
				if (nng_aio_result(ca) == 0) {
					W.hconn = (nng_http *) nng_aio_get_output(ca, 0);
					W.huri  = nng_http_get_uri(W.hconn) ? nng_http_get_uri(W.hconn) : "";
					vr_tag("http_connection");
				}
			}
			if (ca)
				nng_aio_free(ca);
			if (u)
				nng_url_free(u);
			vs_settle();
			continue;
		}
		if (n == "huri") {
			if (!W.hconn)
				continue;
			// URIs below and above the connection's inline buffer, with and without a query
			std::string uri = "/" + std::string((size_t) (s < 0 ? 0 : s > 3000 ? 3000 : s), 'u');
			bool        hasq = a1 != 0;
			std::string q   = hasq ? "k=v" : "";
			std::string want = q.empty() ? uri : uri + "?" + q;
			auto same = [&](long j) {
				const char *cur = nng_http_get_uri(W.hconn);
				if (cur == nullptr || W.huri != cur)
					vr_fail("C20:state-changed-by-failed-call", "nng_http_set_uri failed with NNG_ENOMEM (allocation %ld) but the URI now reads '%.40s' (%zu bytes), was %zu bytes", j,
					    cur ? cur : "(null)", cur ? strlen(cur) : 0, W.huri.size());
			};
			int rv = enumerate(W, "nng_http_set_uri", 0, [&] { return (int) nng_http_set_uri(W.hconn, uri.c_str(), hasq ? q.c_str() : NULL); }, same);
			if (rv == 0) {
				const char *cur = nng_http_get_uri(W.hconn);
				if (cur == nullptr || want != cur)
					vr_fail("C20:call-result", "nng_http_set_uri: URI reads '%.40s' (%zu bytes), expected %zu bytes", cur ? cur : "(null)", cur ? strlen(cur) : 0, want.size());
				W.huri = want;
			}
			continue;
		}
		if (n == "hhdr") {
			if (!W.hconn)
				continue;
			static const char *names[] = {"X-One", "X-Two", "Accept", "X-Long-Header-Name-For-Testing"};
			std::string        nm = names[(size_t) (s < 0 ? 0 : s) % 4];
			std::string        val((size_t) (a1 < 0 ? 0 : a1 > 500 ? 500 : a1), 'v');
			bool               add = a2 != 0;
			// (a client connection reads back response headers only: request headers are judged by crash / leak / later use)
			auto same = [&](long) {};
			int rv = enumerate(W, add ? "nng_http_add_header" : "nng_http_set_header", 0,
			    [&] { return (int) (add ? nng_http_add_header(W.hconn, nm.c_str(), val.c_str()) : nng_http_set_header(W.hconn, nm.c_str(), val.c_str())); }, same);
			if (rv == 0) {
				if (add && W.hhdr.count(nm))
					W.hhdr[nm] += ", " + val;
				else
					W.hhdr[nm] = val;
			}
			same(0);
			continue;
		}
		if (n == "hbody") {
			if (!W.hconn)
				continue;
			bytes d  = mk(a2, (size_t) (a1 < 0 ? 0 : a1 > 5000 ? 5000 : a1));
			int   rv = enumerate(W, "nng_http_copy_body", 0, [&] { return (int) nng_http_copy_body(W.hconn, ptr(d), d.size()); }, [&](long) {});
			(void) rv; // (a client connection reads back the response body only)
			continue;
		}
		if (n == "exchange") {
			sanity_exchange(W);
			continue;
		}
	}
	// handlers still attached to a live server are released with it; handlers attached to nothing are ours
	sanity_exchange(W);
	final_cleanup(W);
	vr_count(1, W.calls);
	vr_count(2, W.enomem);
	if (W.enomem > 0)
		vr_tag("fault_injected");
	if (W.recovered > 0)
		vr_tag("call_completed_after_failed_attempts");
	h_end();
	return 0;
}

// ------------------------------------------------------------------------------------------------ generator
std::string
gen_url_text()
{
	using namespace rc;
	std::ostringstream u;
	u << *gen::element<std::string>("tcp", "ipc", "inproc", "ws", "http", "udp", "tcp4", "socket", "unix", "ftp", "wss", "tcp6");
	u << "://";
	int host = *pbt::range<int>(0, 5);
	static const char *hosts[] = {"127.0.0.1", "localhost", "[::1]", "Example.COM", "", "user@host.example"};
	u << hosts[host];
	if (*pbt::range<int>(0, 2))
		u << ":" << *gen::element<std::string>("80", "0", "65535", "65536", "http", "", "x");
	int segs = *pbt::range<int>(0, 4);
	for (int i = 0; i < segs; i++)
		u << "/" << *gen::element<std::string>("a", "..", ".", "", "%41b", "%C3%A9", "long-segment-0123456789", "%2f", "%zz");
	if (*pbt::range<int>(0, 3) == 0) {
		int pad = *gen::element(40, 100, 120, 127, 128, 129, 200, 600);
		u << "/" << std::string((size_t) pad, 'p');
	}
	if (*pbt::range<int>(0, 3) == 0)
		u << "?q=1&r=%20";
	if (*pbt::range<int>(0, 4) == 0)
		u << "#frag";
	return u.str();
}

std::string
gen_op()
{
	using namespace rc;
	std::ostringstream t;
	auto               sz = [] { return *gen::element<long>(0, 1, 31, 32, 33, 64, 100, 1000, 1023, 1024, 1025, 4096, 70000); };
	int                k  = *pbt::welem<int>({{6, 0}, {4, 1}, {4, 2}, {7, 3}, {3, 4}, {5, 5}, {1, 6}});
	switch (k) {
	case 0: { // messages
		int s = *pbt::range<int>(0, 2);
		switch (*pbt::range<int>(0, 11)) {
		case 0:
		case 1: t << "malloc " << s << " " << sz() << " " << *pbt::range<int>(1, 99); break;
		case 2: t << "mdup " << s << " " << *pbt::range<int>(0, 2); break;
		case 3: t << "mappend " << s << " " << sz() << " " << *pbt::range<int>(1, 99); break;
		case 4: t << "minsert " << s << " " << sz() << " " << *pbt::range<int>(1, 99); break;
		case 5: t << "mrealloc " << s << " " << sz() << " " << *pbt::range<int>(1, 99); break;
		case 6: t << "mreserve " << s << " " << sz(); break;
		case 7: t << "mapp32 " << s << " " << *pbt::range<int>(0, 1 << 30); break;
		case 8: t << "mins64 " << s << " " << *pbt::range<int>(0, 1 << 30); break;
		case 9: t << "mhapp " << s << " " << *gen::element(0, 4, 8, 60, 64, 65) << " 7"; break;
		case 10: t << (*pbt::range<int>(0, 1) ? "mtrim " : "mchop ") << s << " " << *gen::element(0, 1, 8, 32, 1000, 100000); break;
		default: t << "mfree " << s; break;
		}
		break;
	}
	case 1: { // urls
		int s = *pbt::range<int>(0, 2);
		switch (*pbt::range<int>(0, 4)) {
		case 0:
		case 1:
		case 2: {
			std::string u = gen_url_text();
			t << "uparse " << s << " " << pbt::hexs(bytes(u.begin(), u.end()));
			break;
		}
		case 3: t << "uclone " << s << " " << *pbt::range<int>(0, 2); break;
		default: t << "ufree " << s; break;
		}
		break;
	}
	case 2: { // id maps
		int s = *pbt::range<int>(0, 1);
		switch (*pbt::range<int>(0, 7)) {
		case 0: t << "imap " << s << " " << *gen::element<long>(0, 1, 5, 100) << " " << *gen::element<long>(7, 8, 40, 1000, 0x7fffffff) << " " << *pbt::range<int>(0, 1); break;
		case 1:
		case 2: t << "iset " << s << " " << *gen::element<long>(0, 1, 2, 8, 9, 16, 17, 24, 32, 33, 64, 100, 1000, 99999); break;
		case 3:
		case 4:
		case 5: t << "ialloc " << s; break;
		case 6: t << "iremove " << s << " " << *pbt::range<int>(0, 40) << " " << *pbt::range<int>(0, 1); break;
		default: t << "ifree " << s; break;
		}
		break;
	}
	case 3: { // sockets, contexts, endpoints
		switch (*pbt::range<int>(0, 15)) {
		case 14:
		case 15: { // a connected socket whose buffers are then resized (per-pipe queues exist)
			int bs = *pbt::range<int>(0, 3);
			t << "sclose " << bs << "\nsopen " << bs << " " << *pbt::range<int>(0, 10) << " " << *pbt::welem<int>({{3, 0}, {1, 1}}) << "\nsconnect " << bs << " " << *pbt::range<int>(0, 1) << "\nsbuf " << bs << " "
			  << *gen::element(0, 1, 2, 3, 16, 100, 8192) << " " << *pbt::range<int>(0, 1);
			break;
		}
		case 0:
		case 1:
		case 2: t << "sopen " << *pbt::range<int>(0, 3) << " " << *pbt::range<int>(0, 10) << " " << *pbt::welem<int>({{3, 0}, {1, 1}}); break;
		case 3: t << "sclose " << *pbt::range<int>(0, 3); break;
		case 4: t << "suse " << *pbt::range<int>(0, 3); break;
		case 5: t << "ctxopen " << *pbt::range<int>(0, 2) << " " << *pbt::range<int>(0, 3) << " " << *pbt::welem<int>({{1, 0}, {3, 1}}); break;
		case 6: t << "ctxclose " << *pbt::range<int>(0, 2); break;
		case 7: {
			bytes topic = *gen::resize(5, gen::container<bytes>(gen::element<uint8_t>('a', 'b', 0)));
			t << (*pbt::range<int>(0, 3) ? "sub " : "unsub ") << *pbt::range<int>(0, 3) << " " << *pbt::range<int>(0, 1) << " " << pbt::hexs(topic);
			break;
		}
		case 8:
		case 9: t << "dcreate " << *pbt::range<int>(0, 3) << " " << *pbt::range<int>(0, 3) << " " << *pbt::range<int>(0, 5) << " " << *pbt::range<int>(0, 2); break;
		case 10: t << "lcreate " << *pbt::range<int>(0, 3) << " " << *pbt::range<int>(0, 3) << " " << *pbt::range<int>(0, 5) << " " << *pbt::range<int>(0, 2); break;
		case 11: t << "lstart " << *pbt::range<int>(0, 3); break;
		case 12:
			if (*pbt::welem<int>({{1, 0}, {1, 1}})) {
				t << "sconnect " << *pbt::range<int>(0, 3) << " " << *pbt::range<int>(0, 1);
				break;
			}
			t << "sbuf " << *pbt::range<int>(0, 3) << " " << *gen::element(0, 1, 2, 3, 16, 100, 8192) << " " << *pbt::range<int>(0, 1); break;
		default: t << "epclose " << *pbt::range<int>(0, 3); break;
		}
		break;
	}
	case 4: { // aio, stats, strdup, stream objects
		switch (*pbt::range<int>(0, 7)) {
		case 0: t << "aioalloc " << *pbt::range<int>(0, 2); break;
		case 1: t << "aiofree " << *pbt::range<int>(0, 2); break;
		case 2: t << "stats"; break;
		case 3: {
			std::string u = gen_url_text();
			t << "strdup 0 " << pbt::hexs(bytes(u.begin(), u.end()));
			break;
		}
		case 4: t << "sdalloc " << *pbt::range<int>(0, 1) << " " << *pbt::range<int>(0, 4); break;
		case 5: t << "slalloc " << *pbt::range<int>(0, 1) << " " << *pbt::range<int>(0, 4); break;
		case 6: t << "sdfree " << *pbt::range<int>(0, 1); break;
		default: t << "slfree " << *pbt::range<int>(0, 1); break;
		}
		break;
	}
	case 5: { // http objects
		switch (*pbt::range<int>(0, 14)) {
		case 0:
		case 1: t << "hnew " << *pbt::range<int>(0, 2) << " " << *pbt::range<int>(0, 4) << " " << *pbt::range<int>(0, 999); break;
		case 2: t << "hfree " << *pbt::range<int>(0, 2); break;
		case 3:
		case 4: t << "shold " << *pbt::range<int>(0, 1) << " " << *pbt::range<int>(0, 1); break;
		case 5: t << "srelease " << *pbt::range<int>(0, 1); break;
		case 6: t << "sadd " << *pbt::range<int>(0, 1) << " " << *pbt::range<int>(0, 2); break;
		case 7: t << "sdel " << *pbt::range<int>(0, 1) << " " << *pbt::range<int>(0, 2); break;
		case 8: t << "serrpage " << *pbt::range<int>(0, 1) << " " << *pbt::range<int>(0, 1); break;
		case 9: t << (*pbt::range<int>(0, 2) ? "calloc " : "cfree ") << *pbt::range<int>(0, 1); break;
		case 10: t << "hconn"; break;
		case 11: t << "hconn\nhuri " << *gen::element(0, 10, 100, 126, 127, 128, 129, 600, 2500) << " " << *pbt::range<int>(0, 1) << "\nhuri " << *gen::element(0, 10, 127, 128, 600, 2500) << " " << *pbt::range<int>(0, 1); break;
		case 12: t << "huri " << *gen::element(0, 10, 100, 126, 127, 128, 129, 600, 2500) << " " << *pbt::range<int>(0, 1); break;
		case 13: t << "hconn\nhhdr " << *pbt::range<int>(0, 3) << " " << *gen::element(0, 1, 20, 300) << " " << *pbt::range<int>(0, 1); break;
		default: t << "hbody 0 " << *gen::element(0, 1, 100, 4000) << " " << *pbt::range<int>(1, 9); break;
		}
		break;
	}
	default: t << "exchange"; break;
	}
	return t.str();
}

std::string
gen_c20p()
{
	using namespace rc;
	std::ostringstream t;
	t << "cfg " << *pbt::range<int>(1, 1000000) << " 0 0 0 400 0\n";
	auto ops = *gen::container<std::vector<std::string>>(gen::exec(gen_op));
	for (auto &o : ops)
		t << o << "\n";
	return t.str();
}

} // namespace

int
main(int argc, char **argv)
{
	pbt::PropSpec sp;
	sp.id         = "C20P";
	sp.gen        = gen_c20p;
	sp.exec       = exec_c20p;
	sp.watchdog_s = 120;
	sp.rule = "sequences of synchronous public calls (nng_msg edits, nng_url_parse / clone incl. URLs beyond the 128-byte inline buffer, nng_id_map, socket open of all 22 kinds, "
	          "contexts, subscriptions, dialer / listener creation on inproc / ipc / tcp / ws / udp addresses, listener start, buffer resizes, aio allocation, statistics "
	          "snapshots, nng_stream dialer / listener objects, HTTP handler (5 kinds) / server hold / add / delete handler / error page / client objects, strdup); every call "
	          "is repeated with its 1st, 2nd, ... allocation failing until it completes without reaching the armed fault (all allocation points of the call in that state). "
	          "Oracle: a failed attempt returns NNG_ENOMEM (or the call's own fault-free error) and leaves the object equal to its reference model (byte strings, fault-free "
	          "parse, std::map, option read-back); the final attempt behaves as the model predicts; later calls and a PAIR0 exchange on fresh sockets work; no crash / sanitizer "
	          "report; nng_fini returns every block. Non-trivial = at least one call returned NNG_ENOMEM under an injected fault and the sequence continued; distinct by case hash. "
	          "counters: 0 = injected faults, 1 = calls enumerated, 2 = NNG_ENOMEM returns, 3 = failed attempts survived before a call completed";
	sp.nontrivial = [](const std::set<std::string> &t) { return t.count("fault_injected") > 0; };
	return pbt::pbt_main(argc, argv, sp);
}
