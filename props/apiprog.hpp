// apiprog: an interpreter for generated programs over nng's public API, shared by C03 (ownership, memory
// safety, leaks) and C20 (single allocation failures).  A program is a list of textual operations on small
// tables of sockets, contexts, endpoints and aios; every operation respects the documented preconditions
// (an aio is never re-used while busy, a message is freed by the application exactly when the API says it
// still owns it), everything else -- any option at any time, any close at any time, any cancel -- is allowed.
// The interpreter records the return code of every operation so that two runs of one program can be compared.
#pragma once
#include "pbt.hpp"
#include "nngh.h"
#include "rawpeer.h"
#include <nng/http.h>
#include <deque>
#include <unistd.h>

namespace api {

struct ProtoDef {
	const char *name;
	int (*open)(nng_socket *);
	int (*open_raw)(nng_socket *);
};
static const ProtoDef kP[] = {
	{"pair0", nng_pair0_open, nng_pair0_open_raw},
	{"pair1", nng_pair1_open, nng_pair1_open_raw},
	{"pub", nng_pub0_open, nng_pub0_open_raw},
	{"sub", nng_sub0_open, nng_sub0_open_raw},
	{"push", nng_push0_open, nng_push0_open_raw},
	{"pull", nng_pull0_open, nng_pull0_open_raw},
	{"req", nng_req0_open, nng_req0_open_raw},
	{"rep", nng_rep0_open, nng_rep0_open_raw},
	{"surveyor", nng_surveyor0_open, nng_surveyor0_open_raw},
	{"respondent", nng_respondent0_open, nng_respondent0_open_raw},
	{"bus", nng_bus0_open, nng_bus0_open_raw},
};
enum { P_PAIR0, P_PAIR1, P_PUB, P_SUB, P_PUSH, P_PULL, P_REQ, P_REP, P_SURVEYOR, P_RESPONDENT, P_BUS, NPROTO };

struct OptDef {
	const char *name;
	char        type; // i int, m ms, z size, b bool
	long        vals[8];
	int         nvals;
};
static const OptDef kOpts[] = {
	{NNG_OPT_RECVBUF, 'i', {0, 1, 2, 7, 100, 128, 8192, 8193}, 8},
	{NNG_OPT_SENDBUF, 'i', {0, 1, 2, 7, 100, 128, 8192, 8193}, 8},
	// (no infinite timeouts: the program's blocking calls must end on their own; no zero reconnect time: that is a busy loop by request)
	{NNG_OPT_RECVTIMEO, 'm', {0, 1, 20, 5}, 4},
	{NNG_OPT_SENDTIMEO, 'm', {0, 1, 20, 5}, 4},
	{NNG_OPT_RECVMAXSZ, 'z', {0, 1, 64, 1 << 20}, 4},
	{NNG_OPT_MAXTTL, 'i', {0, 1, 3, 15, 255, 256}, 6},
	{NNG_OPT_RECONNMINT, 'm', {10, 100}, 2},
	{NNG_OPT_RECONNMAXT, 'm', {0, 10, 100}, 3},
	{NNG_OPT_REQ_RESENDTIME, 'm', {-1, 0, 1, 10, 60000}, 5},
	{NNG_OPT_REQ_RESENDTICK, 'm', {1, 10, 1000}, 3},
	{NNG_OPT_SURVEYOR_SURVEYTIME, 'm', {1, 10, 1000, -1}, 4},
	{NNG_OPT_SUB_PREFNEW, 'b', {0, 1}, 2},
	{NNG_OPT_PAIR1_POLY, 'b', {0, 1}, 2},
	{NNG_OPT_TCP_NODELAY, 'b', {0, 1}, 2},
	{NNG_OPT_TCP_KEEPALIVE, 'b', {0, 1}, 2},
	{NNG_OPT_BOUND_PORT, 'i', {0, 1}, 2},
	{NNG_OPT_IPC_PERMISSIONS, 'i', {0600, 0666}, 2},
	{NNG_OPT_PEER_PID, 'i', {0, 1}, 2},
};
static const int kNOpts = (int) (sizeof kOpts / sizeof kOpts[0]);

struct Sock {
	bool       open = false;
	nng_socket s = NNG_SOCKET_INITIALIZER;
	int        proto = 0;
	bool       raw   = false;
	uint32_t   pipes[8];
	int        npipes = 0;
};
struct Ctx {
	bool    open = false;
	nng_ctx c = NNG_CTX_INITIALIZER;
	int     sock = 0;
};
struct Ep {
	bool         open = false;
	bool         is_dialer = false;
	nng_dialer   d = NNG_DIALER_INITIALIZER;
	nng_listener l = NNG_LISTENER_INITIALIZER;
	int          sock = 0;
	std::string  url;
};
struct Aio {
	nng_aio *a    = nullptr;
	bool     busy = false;
	int      kind = 0; // 1 send, 2 recv, 3 device/sleep
	int      callbacks = 0, submissions = 0;
};

struct Machine;
struct AioArg {
	Machine *M;
	int      idx;
};

struct Machine {
	Sock             socks[12];
	Ctx              ctxs[6];
	Ep               eps[8];
	Aio              aios[6];
	AioArg           aioargs[6];
	std::vector<int> rcs; // return code of every operation (or -1000 when it has none)
	int              nurl = 0;
	std::vector<std::string> paths;
	std::vector<rp>  raws; // round 7: raw wire peers that completed the SP handshake and never read (stalled subscribers / pullers ...)
	nng_http_server *hsrv = nullptr; // HTTP world (one echo server per machine)
	bool             final_probe = false; // run one more fault-free HTTP round before teardown
	int              final_http  = -1000;
	long             fault_serial = 0;
	nng_url         *hurl = nullptr;
	int              hport = 0;
	bool             own_fail = false; // an ownership violation was seen (message not live when the API says we own it)
	char             own_msg[200];
	long             n_failed_sends = 0, n_recv_ok = 0, n_send_ok = 0, n_setopt_ok = 0;
};

static void
own_fail(Machine *M, const char *fmt, ...)
{
	if (M->own_fail)
		return;
	va_list ap;
	va_start(ap, fmt);
	vsnprintf(M->own_msg, sizeof M->own_msg, fmt, ap);
	va_end(ap);
	M->own_fail = true;
}

static void
aio_cb(void *arg)
{
	AioArg  *aa = (AioArg *) arg;
	Machine *M  = aa->M;
	Aio     &A  = M->aios[aa->idx];
	A.callbacks++;
	int      rv = nng_aio_result(A.a);
	nng_msg *m  = nng_aio_get_msg(A.a);
	if (A.kind == 1 && rv != 0) {
		// failed send: the message is still ours
		M->n_failed_sends++;
		if (m == nullptr || !at_is_live(m))
			own_fail(M, "aio send failed with %d but the message attached to the aio is %s", rv, m ? "not a live block" : "gone");
		else
			nng_msg_free(m);
		nng_aio_set_msg(A.a, NULL);
	} else if (A.kind == 1) {
		M->n_send_ok++;
	}
	if (A.kind == 2 && rv == 0) {
		M->n_recv_ok++;
		if (m == nullptr || !at_is_live(m))
			own_fail(M, "aio receive succeeded but the message is %s", m ? "not a live block" : "missing");
		else
			nng_msg_free(m);
		nng_aio_set_msg(A.a, NULL);
	}
	A.busy = false;
}

static void
pipe_cb(nng_pipe p, nng_pipe_ev ev, void *arg)
{
	Sock *S = (Sock *) arg;
	if (ev == NNG_PIPE_EV_ADD_POST && S->npipes < 8)
		S->pipes[S->npipes++] = (uint32_t) nng_pipe_id(p);
}

static Sock *
sock_at(Machine *M, long i)
{
	return &M->socks[(size_t) (i < 0 ? -i : i) % 12];
}

static int
idle_aio(Machine *M, long hint)
{
	for (int k = 0; k < 6; k++) {
		int i = (int) (((hint < 0 ? -hint : hint) + k) % 6);
		if (!M->aios[i].busy)
			return i;
	}
	return -1;
}

static nng_msg *
mkmsg(Machine *M, long size)
{
	(void) M;
	if (size < 0)
		size = 0;
	if (size > 70000)
		size = 70000;
	return h_msg(0x03000000u | (uint32_t) (size & 0xffff), (size_t) size);
}

static void
setup(Machine *M)
{
	for (int i = 0; i < 6; i++) {
		M->aioargs[i] = {M, i};
		// (an allocation failure injected here is the harness's problem, not the subject: retry once)
		if (nng_aio_alloc(&M->aios[i].a, aio_cb, &M->aioargs[i]) != 0 && nng_aio_alloc(&M->aios[i].a, aio_cb, &M->aioargs[i]) != 0)
			M->aios[i].a = nullptr;
		if (M->aios[i].a == nullptr)
			M->aios[i].busy = true; // never usable
	}
}

// HTTP: a handler that answers with the value of the request's X-Token header
static void
http_echo_token(nng_http *conn, void *, nng_aio *aio)
{
	const char *v = nng_http_get_header(conn, "X-Token");
	if (v == nullptr)
		v = "none";
	nng_err rv = nng_http_copy_body(conn, v, strlen(v));
	if (rv == 0)
		nng_http_set_status(conn, NNG_HTTP_STATUS_OK, NULL);
	nng_aio_finish(aio, rv);
}

// one complete client transaction against the machine's own server: set a header, replace it, transact, and compare
// what the server saw with what the calls reported.  Returns the first error (NNG_ENOMEM under fault injection) or 0.
static int
http_round(Machine *M, long variant)
{
	int rv;
	if (M->hsrv == nullptr) {
		nng_http_handler *h = nullptr;
		if ((rv = nng_url_parse(&M->hurl, "http://127.0.0.1:0")) != 0)
			return rv;
		if ((rv = nng_http_server_hold(&M->hsrv, M->hurl)) != 0) {
			nng_url_free(M->hurl);
			M->hurl = nullptr;
			M->hsrv = nullptr;
			return rv;
		}
		bool added = false;
		if ((rv = nng_http_handler_alloc(&h, "/tok", http_echo_token)) == 0) {
			if ((rv = nng_http_server_add_handler(M->hsrv, h)) == 0)
				added = true;
		}
		if (rv == 0)
			rv = nng_http_server_start(M->hsrv);
		if (rv == 0)
			rv = nng_http_server_get_port(M->hsrv, &M->hport);
		if (rv != 0) {
			if (h != nullptr && !added)
				nng_http_handler_free(h); // (a handler that was never added is still ours)
			nng_http_server_release(M->hsrv);
			nng_url_free(M->hurl);
			M->hsrv = nullptr;
			M->hurl = nullptr;
			return rv;
		}
	}
	char ub[64];
	snprintf(ub, sizeof ub, "http://127.0.0.1:%d/tok", M->hport);
	nng_url         *u   = nullptr;
	nng_http_client *cli = nullptr;
	nng_aio         *aio = nullptr;
	nng_http        *conn = nullptr;
	const char      *expect = nullptr;
	if ((rv = nng_url_parse(&u, ub)) != 0)
		goto out;
	if ((rv = nng_http_client_alloc(&cli, u)) != 0)
		goto out;
	if ((rv = nng_aio_alloc(&aio, NULL, NULL)) != 0)
		goto out;
	nng_aio_set_timeout(aio, 500);
	nng_http_client_connect(cli, aio);
	nng_aio_wait(aio);
	if ((rv = nng_aio_result(aio)) != 0)
		goto out;
	conn = (nng_http *) nng_aio_get_output(aio, 0);
	if ((rv = nng_http_set_uri(conn, "/tok", NULL)) != 0)
		goto out;
	if ((rv = nng_http_set_header(conn, "X-Token", "first-value")) != 0)
		goto out;
	expect = "first-value";
	if (variant & 1) {
		int rv2 = nng_http_set_header(conn, "X-Token", "second-value-which-is-longer");
		if (rv2 == 0)
			expect = "second-value-which-is-longer";
		else if (rv2 != NNG_ENOMEM) {
			rv = rv2;
			goto out;
		}
		// (on NNG_ENOMEM the documented outcome is "nothing changed": the first value must still be sent)
	}
	nng_http_transact(conn, aio);
	nng_aio_wait(aio);
	if ((rv = nng_aio_result(aio)) != 0)
		goto out;
	{
		void  *body = nullptr;
		size_t len  = 0;
		nng_http_get_body(conn, &body, &len);
		if (nng_http_get_status(conn) == NNG_HTTP_STATUS_OK && (len != strlen(expect) || memcmp(body, expect, len) != 0))
			own_fail(M, "HTTP: the server saw X-Token '%.*s' but the client's calls say it is '%s'", (int) (len > 60 ? 60 : len), body ? (const char *) body : "", expect);
	}
out:
	if (conn != nullptr)
		nng_http_close(conn);
	if (aio != nullptr)
		nng_aio_free(aio);
	if (cli != nullptr)
		nng_http_client_free(cli);
	if (u != nullptr)
		nng_url_free(u);
	return rv;
}

// Executes one operation; returns its return code (or -1000).
static int
step(Machine *M, const vop *o)
{
	const char *n = o->name;
	long        a0 = vop_arg(o, 0, 0), a1 = vop_arg(o, 1, 0), a2 = vop_arg(o, 2, 0), a3 = vop_arg(o, 3, 0);
	char        buf[160];
	if (strcmp(n, "open") == 0) {
		Sock *S = nullptr;
		for (auto &s : M->socks)
			if (!s.open) {
				S = &s;
				break;
			}
		if (S == nullptr)
			return -1000;
		int p    = (int) ((a0 < 0 ? -a0 : a0) % NPROTO);
		S->proto = p;
		S->raw   = a1 != 0;
		int rv   = S->raw ? kP[p].open_raw(&S->s) : kP[p].open(&S->s);
		if (rv != 0)
			return rv;
		S->open   = true;
		S->npipes = 0;
		// short default timeouts keep blocking calls finite on the virtual clock
		(void) nng_socket_set_ms(S->s, NNG_OPT_RECVTIMEO, 20);
		(void) nng_socket_set_ms(S->s, NNG_OPT_SENDTIMEO, 20);
		(void) nng_pipe_notify(S->s, NNG_PIPE_EV_ADD_POST, pipe_cb, S);
		return 0;
	}
	if (strcmp(n, "close") == 0) {
		Sock *S = sock_at(M, a0);
		if (!S->open && a1 == 0)
			return -1000;
		int rv  = nng_socket_close(S->s); // (a1 != 0: also on a handle that is already closed)
		S->open = false;
		for (auto &c : M->ctxs)
			if (c.open && &M->socks[c.sock] == S)
				c.open = false; // the handle dies with the socket (using it later is still legal: ECLOSED)
		for (auto &e : M->eps)
			if (e.open && &M->socks[e.sock] == S)
				e.open = false;
		return rv;
	}
	if (strcmp(n, "listen") == 0 || strcmp(n, "dial") == 0) {
		Sock *S = sock_at(M, a0);
		if (!S->open)
			return -1000;
		Ep *E = nullptr;
		for (auto &e : M->eps)
			if (!e.open) {
				E = &e;
				break;
			}
		if (E == nullptr)
			return -1000;
		E->sock = (int) (S - M->socks);
		if (n[0] == 'l') {
			int tr = (int) ((a1 < 0 ? -a1 : a1) % 4);
			M->nurl++;
			if (tr == 0)
				snprintf(buf, sizeof buf, "inproc://api-%d-%d", (int) getpid(), M->nurl);
			else if (tr == 1) {
				snprintf(buf, sizeof buf, "/tmp/verif-api-%d-%d", (int) getpid(), M->nurl);
				unlink(buf);
				M->paths.push_back(buf);
				snprintf(buf, sizeof buf, "ipc:///tmp/verif-api-%d-%d", (int) getpid(), M->nurl);
			} else if (tr == 2)
				snprintf(buf, sizeof buf, "tcp://127.0.0.1:0");
			else
				snprintf(buf, sizeof buf, "ws://127.0.0.1:0/api%d", M->nurl); // (round 7: SP over WebSocket - HTTP upgrade, frames)
			int rv = nng_listen(S->s, buf, &E->l, 0);
			if (rv != 0)
				return rv;
			if (tr >= 2) {
				int port = 0;
				if (nng_listener_get_int(E->l, NNG_OPT_BOUND_PORT, &port) == 0) {
					if (tr == 2)
						snprintf(buf, sizeof buf, "tcp://127.0.0.1:%d", port);
					else
						snprintf(buf, sizeof buf, "ws://127.0.0.1:%d/api%d", port, M->nurl);
				}
			}
			E->url       = buf;
			E->is_dialer = false;
			E->open      = true;
			return 0;
		}
		// dial the url of an existing listener (or an address nobody listens on)
		std::vector<Ep *> ls;
		for (auto &e : M->eps)
			if (!e.is_dialer && !e.url.empty())
				ls.push_back(&e);
		std::string url = ls.empty() || a1 == 99 ? std::string("inproc://api-nobody") : ls[(size_t) (a1 < 0 ? -a1 : a1) % ls.size()]->url;
		int         rv  = nng_dial(S->s, url.c_str(), &E->d, a2 ? NNG_FLAG_NONBLOCK : 0);
		if (rv != 0)
			return rv;
		E->url.clear();
		E->is_dialer = true;
		E->open      = true;
		return 0;
	}
	if (strcmp(n, "stallpeer") == 0) {
		// a raw wire peer of the matching protocol connects to listener a0 (ipc / tcp), completes the SP handshake and then
		// never reads: the socket's pipe to it stays busy after a few large messages, its per-pipe queues fill and overflow
		static const uint16_t kId[NPROTO] = {0x10, 0x11, 0x20, 0x21, 0x50, 0x51, 0x30, 0x31, 0x62, 0x63, 0x70};
		static const uint16_t kPeer[NPROTO] = {0x10, 0x11, 0x21, 0x20, 0x51, 0x50, 0x31, 0x30, 0x63, 0x62, 0x70};
		Ep *E = &M->eps[(size_t) (a0 < 0 ? -a0 : a0) % 8];
		if (!E->open || E->is_dialer || M->raws.size() >= 4)
			return -1000;
		(void) kId;
		rp  r;
		int rv = -1;
		if (E->url.compare(0, 7, "ipc:///") == 0)
			rv = rp_connect_ipc(&r, E->url.c_str() + 6);
		else if (E->url.compare(0, 16, "tcp://127.0.0.1:") == 0)
			rv = rp_connect_tcp(&r, atoi(E->url.c_str() + 16));
		else
			return -1000;
		if (rv != 0)
			return -1000;
		uint16_t theirs = 0;
		(void) rp_handshake(&r, kPeer[M->socks[E->sock].proto], &theirs);
		M->raws.push_back(r);
		vs_settle();
		return -1000;
	}
	if (strcmp(n, "epclose") == 0) {
		Ep *E = &M->eps[(size_t) (a0 < 0 ? -a0 : a0) % 8];
		if (!E->open && a1 == 0)
			return -1000;
		int rv  = E->is_dialer ? nng_dialer_close(E->d) : nng_listener_close(E->l);
		E->open = false;
		return rv;
	}
	if (strcmp(n, "send") == 0) {
		Sock *S = sock_at(M, a0);
		if (!S->open && a3 == 0)
			return -1000;
		int form = (int) ((a1 < 0 ? -a1 : a1) % 3);
		if (form == 2) {
			int ai = idle_aio(M, a3);
			if (ai < 0)
				return -1000;
			Aio &A = M->aios[ai];
			nng_msg *m = mkmsg(M, a2);
			if (m == nullptr)
				return NNG_ENOMEM; // (only under fault injection)
			A.kind = 1;
			A.busy = true;
			A.submissions++;
			nng_aio_set_msg(A.a, m);
			nng_socket_send(S->s, A.a);
			return -1000;
		}
		nng_msg *m = mkmsg(M, a2);
		if (m == nullptr)
			return NNG_ENOMEM;
		int rv = nng_sendmsg(S->s, m, form == 1 ? NNG_FLAG_NONBLOCK : 0);
		if (rv != 0) {
			M->n_failed_sends++;
			if (!at_is_live(m))
				own_fail(M, "nng_sendmsg failed with %d but the message is no longer a live block", rv);
			else
				nng_msg_free(m);
		} else
			M->n_send_ok++;
		return rv;
	}
	if (strcmp(n, "recv") == 0) {
		Sock *S = sock_at(M, a0);
		if (!S->open && a3 == 0)
			return -1000;
		int form = (int) ((a1 < 0 ? -a1 : a1) % 3);
		if (form == 2) {
			int ai = idle_aio(M, a3);
			if (ai < 0)
				return -1000;
			Aio &A = M->aios[ai];
			A.kind = 2;
			A.busy = true;
			A.submissions++;
			nng_socket_recv(S->s, A.a);
			return -1000;
		}
		nng_msg *m  = nullptr;
		int      rv = nng_recvmsg(S->s, &m, form == 1 ? NNG_FLAG_NONBLOCK : 0);
		if (rv == 0) {
			M->n_recv_ok++;
			if (m == nullptr || !at_is_live(m))
				own_fail(M, "nng_recvmsg succeeded but the message is not a live block");
			else
				nng_msg_free(m);
		}
		return rv;
	}
	if (strcmp(n, "ctxopen") == 0) {
		Sock *S = sock_at(M, a0);
		if (!S->open)
			return -1000;
		for (auto &c : M->ctxs)
			if (!c.open) {
				int rv = nng_ctx_open(&c.c, S->s);
				if (rv != 0)
					return rv;
				c.open = true;
				c.sock = (int) (S - M->socks);
				(void) nng_ctx_set_ms(c.c, NNG_OPT_RECVTIMEO, 20);
				(void) nng_ctx_set_ms(c.c, NNG_OPT_SENDTIMEO, 20);
				return 0;
			}
		return -1000;
	}
	if (strcmp(n, "ctxclose") == 0) {
		Ctx *C = &M->ctxs[(size_t) (a0 < 0 ? -a0 : a0) % 6];
		if (!C->open)
			return -1000;
		C->open = false;
		return nng_ctx_close(C->c);
	}
	if (strcmp(n, "ctxsend") == 0 || strcmp(n, "ctxrecv") == 0) {
		Ctx *C = &M->ctxs[(size_t) (a0 < 0 ? -a0 : a0) % 6];
		if (!C->open)
			return -1000;
		int ai = idle_aio(M, a2);
		if (ai < 0)
			return -1000;
		Aio &A = M->aios[ai];
		nng_msg *cm = n[3] == 's' ? mkmsg(M, a1) : nullptr;
		if (n[3] == 's' && cm == nullptr)
			return NNG_ENOMEM;
		A.busy = true;
		A.submissions++;
		if (n[3] == 's') {
			A.kind = 1;
			nng_aio_set_msg(A.a, cm);
			nng_ctx_send(C->c, A.a);
		} else {
			A.kind = 2;
			nng_ctx_recv(C->c, A.a);
		}
		if (a3) { // synchronous style: wait for it
			nng_aio_wait(A.a);
			return nng_aio_result(A.a);
		}
		return -1000;
	}
	if (strcmp(n, "cancel") == 0) {
		Aio &A = M->aios[(size_t) (a0 < 0 ? -a0 : a0) % 6];
		if (A.a == nullptr)
			return -1000;
		if (a1)
			nng_aio_abort(A.a, NNG_EINTERNAL);
		else
			nng_aio_cancel(A.a);
		return -1000;
	}
	if (strcmp(n, "wait") == 0) {
		Aio &A = M->aios[(size_t) (a0 < 0 ? -a0 : a0) % 6];
		if (A.a == nullptr || A.submissions == 0)
			return -1000;
		if (A.busy && A.kind == 3)
			return -1000;
		vs_sleep(25);
		vs_settle();
		if (A.busy) {
			nng_aio_cancel(A.a);
		}
		nng_aio_wait(A.a);
		return nng_aio_result(A.a);
	}
	if (strcmp(n, "setopt") == 0 || strcmp(n, "getopt") == 0) {
		const OptDef &od = kOpts[(size_t) (a1 < 0 ? -a1 : a1) % kNOpts];
		long          v  = od.vals[(size_t) (a2 < 0 ? -a2 : a2) % od.nvals];
		char          ty = a3 == 7 ? 'i' : od.type; // (rarely the wrong accessor: NNG_EBADTYPE is the documented answer)
		int           level = (int) ((a0 < 0 ? -a0 : a0) % 4);
		long          tgt   = vop_arg(o, 4, 0);
		bool          set   = n[0] == 's';
		int           rv    = -1000;
		if (level == 0) {
			Sock *S = sock_at(M, tgt);
			if (!S->open)
				return -1000;
			if (set) {
				switch (ty) {
				case 'i': rv = nng_socket_set_int(S->s, od.name, (int) v); break;
				case 'm': rv = nng_socket_set_ms(S->s, od.name, (nng_duration) v); break;
				case 'z': rv = nng_socket_set_size(S->s, od.name, (size_t) v); break;
				default: rv = nng_socket_set_bool(S->s, od.name, v != 0); break;
				}
			} else {
				int          iv;
				nng_duration mv;
				size_t       zv;
				bool         bv;
				switch (ty) {
				case 'i': rv = nng_socket_get_int(S->s, od.name, &iv); break;
				case 'm': rv = nng_socket_get_ms(S->s, od.name, &mv); break;
				case 'z': rv = nng_socket_get_size(S->s, od.name, &zv); break;
				default: rv = nng_socket_get_bool(S->s, od.name, &bv); break;
				}
			}
		} else if (level == 1) {
			Ctx *C = &M->ctxs[(size_t) (tgt < 0 ? -tgt : tgt) % 6];
			if (!C->open)
				return -1000;
			if (set) {
				switch (ty) {
				case 'i': rv = nng_ctx_set_int(C->c, od.name, (int) v); break;
				case 'm': rv = nng_ctx_set_ms(C->c, od.name, (nng_duration) v); break;
				case 'z': rv = nng_ctx_set_size(C->c, od.name, (size_t) v); break;
				default: rv = nng_ctx_set_bool(C->c, od.name, v != 0); break;
				}
			} else {
				int          iv;
				nng_duration mv;
				size_t       zv;
				bool         bv;
				switch (ty) {
				case 'i': rv = nng_ctx_get_int(C->c, od.name, &iv); break;
				case 'm': rv = nng_ctx_get_ms(C->c, od.name, &mv); break;
				case 'z': rv = nng_ctx_get_size(C->c, od.name, &zv); break;
				default: rv = nng_ctx_get_bool(C->c, od.name, &bv); break;
				}
			}
		} else {
			Ep *E = &M->eps[(size_t) (tgt < 0 ? -tgt : tgt) % 8];
			if (!E->open)
				return -1000;
			if (E->is_dialer) {
				if (set) {
					switch (ty) {
					case 'i': rv = nng_dialer_set_int(E->d, od.name, (int) v); break;
					case 'm': rv = nng_dialer_set_ms(E->d, od.name, (nng_duration) v); break;
					case 'z': rv = nng_dialer_set_size(E->d, od.name, (size_t) v); break;
					default: rv = nng_dialer_set_bool(E->d, od.name, v != 0); break;
					}
				} else {
					int          iv;
					nng_duration mv;
					size_t       zv;
					bool         bv;
					switch (ty) {
					case 'i': rv = nng_dialer_get_int(E->d, od.name, &iv); break;
					case 'm': rv = nng_dialer_get_ms(E->d, od.name, &mv); break;
					case 'z': rv = nng_dialer_get_size(E->d, od.name, &zv); break;
					default: rv = nng_dialer_get_bool(E->d, od.name, &bv); break;
					}
				}
			} else {
				if (set) {
					switch (ty) {
					case 'i': rv = nng_listener_set_int(E->l, od.name, (int) v); break;
					case 'm': rv = nng_listener_set_ms(E->l, od.name, (nng_duration) v); break;
					case 'z': rv = nng_listener_set_size(E->l, od.name, (size_t) v); break;
					default: rv = nng_listener_set_bool(E->l, od.name, v != 0); break;
					}
				} else {
					int          iv;
					nng_duration mv;
					size_t       zv;
					bool         bv;
					switch (ty) {
					case 'i': rv = nng_listener_get_int(E->l, od.name, &iv); break;
					case 'm': rv = nng_listener_get_ms(E->l, od.name, &mv); break;
					case 'z': rv = nng_listener_get_size(E->l, od.name, &zv); break;
					default: rv = nng_listener_get_bool(E->l, od.name, &bv); break;
					}
				}
			}
		}
		if (set && rv == 0)
			M->n_setopt_ok++;
		return rv;
	}
	if (strcmp(n, "subscribe") == 0 || strcmp(n, "unsubscribe") == 0) {
		static const char *topics[] = {"", "\x03", "\x03\x00", "zz"};
		static const size_t tlen[]  = {0, 1, 2, 2};
		size_t              ti      = (size_t) (a1 < 0 ? -a1 : a1) % 4;
		if (a2) {
			Ctx *C = &M->ctxs[(size_t) (a0 < 0 ? -a0 : a0) % 6];
			if (!C->open)
				return -1000;
			return n[0] == 's' ? nng_sub0_ctx_subscribe(C->c, topics[ti], tlen[ti]) : nng_sub0_ctx_unsubscribe(C->c, topics[ti], tlen[ti]);
		}
		Sock *S = sock_at(M, a0);
		if (!S->open)
			return -1000;
		return n[0] == 's' ? nng_sub0_socket_subscribe(S->s, topics[ti], tlen[ti]) : nng_sub0_socket_unsubscribe(S->s, topics[ti], tlen[ti]);
	}
	if (strcmp(n, "pipeclose") == 0) {
		Sock *S = sock_at(M, a0);
		if (S->npipes == 0)
			return -1000;
		nng_pipe p;
		memset(&p, 0, sizeof p);
		p.id = S->pipes[(size_t) (a1 < 0 ? -a1 : a1) % (size_t) S->npipes];
		return nng_pipe_close(p);
	}
	if (strcmp(n, "device") == 0) {
		Sock *S1 = sock_at(M, a0), *S2 = sock_at(M, a1);
		if (!S1->open || !S2->open || S1 == S2)
			return -1000;
		int ai = idle_aio(M, a2);
		if (ai < 0)
			return -1000;
		Aio &A = M->aios[ai];
		A.kind = 3;
		A.busy = true;
		A.submissions++;
		nng_device_aio(A.a, S1->s, S2->s);
		return -1000;
	}
	if (strcmp(n, "stats") == 0) {
		nng_stat *st = nullptr;
		int       rv = nng_stats_get(&st);
		if (rv == 0) {
			// walk the snapshot
			long cnt = 0;
			for (const nng_stat *c = nng_stat_child(st); c != nullptr && cnt < 10000; c = nng_stat_next(c)) {
				cnt++;
				(void) nng_stat_name(c);
				(void) nng_stat_value(c);
				for (const nng_stat *g = nng_stat_child(c); g != nullptr && cnt < 10000; g = nng_stat_next(g)) {
					cnt++;
					if (nng_stat_type(g) == NNG_STAT_STRING)
						(void) strlen(nng_stat_string(g));
				}
			}
			nng_stats_free(st);
		}
		return rv;
	}
	if (strcmp(n, "http") == 0)
		return http_round(M, a0);
	if (strcmp(n, "sleep") == 0) {
		long ms = a0 < 1 ? 1 : a0 > 100 ? 100 : a0;
		vs_sleep((int) ms);
		vs_settle();
		return -1000;
	}
	return -1000;
}

// Wind everything down; returns after every aio is idle, every socket closed.
static void
teardown(Machine *M)
{
	for (auto &A : M->aios)
		if (A.a != nullptr && A.busy)
			nng_aio_cancel(A.a);
	for (auto &A : M->aios)
		if (A.a != nullptr) {
			nng_aio_wait(A.a);
		}
	for (auto &S : M->socks)
		if (S.open) {
			nng_socket_close(S.s);
			S.open = false;
		}
	vs_settle();
	for (auto &A : M->aios)
		if (A.a != nullptr) {
			nng_aio_wait(A.a);
			nng_aio_free(A.a);
			A.a = nullptr;
		}
	for (auto &r : M->raws)
		rp_close(&r);
	M->raws.clear();
	for (auto &p : M->paths)
		unlink(p.c_str());
	if (M->hsrv != nullptr) {
		nng_http_server_stop(M->hsrv);
		nng_http_server_release(M->hsrv);
		nng_url_free(M->hurl);
		M->hsrv = nullptr;
	}
}

// Runs ops[from..] of the case on a fresh machine.
static void
run(Machine *M, const vcase *vc, int from)
{
	setup(M);
	for (int i = from; i < vc->nops; i++) {
		vr_at(i, vc->ops[i].name);
		M->rcs.push_back(step(M, &vc->ops[i]));
		vs_settle();
	}
	// objects that survived an injected fault must still work: the machine's HTTP server serves a fresh client
	M->final_http = -1000;
	if (M->hsrv != nullptr && M->final_probe) {
		M->fault_serial = at_failed_serial(); // (disarming resets the record)
		at_fail_at(0);
		M->final_http = http_round(M, 0);
		vs_settle();
	}
	teardown(M);
}

// ------------------------------------------------------------------ generator
using namespace rc;

static const char *kTemplates[] = {
	// 0: req/rep
	"open 6 0|open 7 0|listen 1 T|dial 0 0 F|sleep 2|send 0 S 10|recv 1 S|send 1 S 10|recv 0 S",
	// 1: req context
	"open 6 0|open 7 0|listen 1 T|dial 0 0 F|sleep 2|ctxopen 0|ctxsend 0 12 0 1|recv 1 S|send 1 S 12|ctxrecv 0 0 0 1|ctxclose 0",
	// 2: survey with two respondents
	"open 8 0|open 9 0|open 9 0|listen 0 T|dial 1 0 F|dial 2 0 F|sleep 2|send 0 S 8|recv 1 S|recv 2 S|send 1 S 8|send 2 S 8|recv 0 S|recv 0 S",
	// 3: surveyor context
	"open 8 0|open 9 0|listen 0 T|dial 1 0 F|sleep 2|ctxopen 0|ctxsend 0 8 0 1|recv 1 S|ctxrecv 0 0 1 0|send 1 S 8|sleep 2|ctxclose 0",
	// 3b: surveyor context abandoned before the answer arrives
	"open 8 0|open 9 0|listen 0 T|dial 1 0 F|sleep 2|ctxopen 0|ctxsend 0 8 0 1|recv 1 S|ctxclose 0|send 1 S 8|sleep 2|send 0 S 8|recv 1 S",
	// 3c: req context abandoned before the reply arrives
	"open 6 0|open 7 0|listen 1 T|dial 0 0 F|sleep 2|ctxopen 0|ctxsend 0 8 0 1|recv 1 S|ctxclose 0|send 1 S 8|sleep 2",
	// 4: pub with two subs
	"open 2 0|open 3 0|open 3 0|subscribe 1 0 0|subscribe 2 0 0|listen 0 T|dial 1 0 F|dial 2 0 F|sleep 2|send 0 S 20|send 0 S 2000|send 0 S 5|send 0 S 6|recv 1 S|recv 2 S|recv 1 S|recv 1 S|recv 1 S|recv 2 S",
	// 5: pipeline
	"open 4 0|open 5 0|open 5 0|listen 0 T|dial 1 0 F|dial 2 0 F|sleep 2|send 0 S 10|send 0 S 10|send 0 S 70000|recv 1 S|recv 2 S|recv 1 S",
	// 6: pair1
	"open 1 0|open 1 0|listen 0 T|dial 1 0 F|sleep 2|send 0 S 10|recv 1 S|send 1 S 10|recv 0 S",
	// 7: bus of three
	"open 10 0|open 10 0|open 10 0|listen 0 T|listen 1 T|dial 1 0 F|dial 2 0 F|dial 2 1 F|sleep 2|send 0 S 10|recv 1 S|recv 2 S|send 2 S 10|recv 0 S|recv 1 S",
	// 8: req/rep through a raw device
	"open 7 1|open 6 1|open 6 0|open 7 0|listen 0 T|listen 3 T|device 0 1 5|dial 2 0 F|dial 1 1 F|sleep 3|send 2 S 10|recv 3 S|send 3 S 10|recv 2 S",
	// 9: many sockets
	"open 0 0|open 0 0|open 0 0|open 0 0|open 0 0|open 0 0|open 0 0|open 0 0|open 0 0|open 0 0|open 0 0|stats",
	// 10: raw pair + sub context
	"open 3 0|open 2 0|ctxopen 0|subscribe 0 0 1|listen 1 T|dial 0 0 F|sleep 2|send 1 S 10|ctxrecv 0 0 0 1|ctxclose 0",
	// 11: rep contexts
	"open 7 0|open 6 0|listen 0 T|dial 1 0 F|sleep 2|ctxopen 0|ctxrecv 0 0 0 0|send 1 S 10|sleep 2|ctxsend 0 10 1 1|recv 1 S",
	// http: client transactions against an in-process server, with a header set and replaced
	"http 1|http 0|http 1|stats",
	// 12: pair0 both ways with aio forms
	"open 0 0|open 0 0|listen 0 T|dial 1 0 F|sleep 2|recv 1 2 0 0|send 0 2 10 1|wait 0|wait 1|send 1 S 10|recv 0 S",
	// round 7 (not part of the C20 enumeration: the kernel's buffering decides how many allocations they make)
	// 13: PUB with a subscriber (raw wire peer over ipc / tcp) that never reads: its per-pipe send queue fills and overflows
	"open 2 0|listen 0 T|stallpeer 0|send 0 1 70000|send 0 1 70000|send 0 1 70000|send 0 1 70000|send 0 1 70000|send 0 1 70000|send 0 1 70000|send 0 1 70000|send 0 1 70000|send 0 1 70000|send 0 1 70000|send 0 1 70000|send 0 1 70000|send 0 1 70000|send 0 1 70000|send 0 1 70000|send 0 1 70000|send 0 1 70000|send 0 1 70000|send 0 1 70000|send 0 1 70000|send 0 1 70000|send 0 1 70000|send 0 1 70000|sleep 2",
	// 14: BUS with one good and one stalled peer
	"open 10 0|open 10 0|listen 0 T|dial 1 0 F|stallpeer 0|sleep 2|send 0 1 70000|send 0 1 70000|send 0 1 70000|send 0 1 70000|send 0 1 70000|send 0 1 70000|send 0 1 70000|send 0 1 70000|send 0 1 70000|send 0 1 70000|send 0 1 70000|send 0 1 70000|send 0 1 70000|send 0 1 70000|send 0 1 70000|send 0 1 70000|send 0 1 70000|send 0 1 70000|send 0 1 70000|send 0 1 70000|send 0 1 70000|send 0 1 70000|send 0 1 70000|send 0 1 70000|recv 1 S",
	// 15: PUSH towards a stalled puller: the send buffer fills, sends are refused
	"open 4 0|listen 0 T|setopt 0 1 0 0 2|stallpeer 0|send 0 1 70000|send 0 1 70000|send 0 1 70000|send 0 1 70000|send 0 1 70000|send 0 1 70000|send 0 1 70000|send 0 1 70000|send 0 1 70000|send 0 1 70000|send 0 1 70000|send 0 1 70000|send 0 1 70000|send 0 1 70000|send 0 1 70000|send 0 1 70000|send 0 1 70000|send 0 1 70000|send 0 1 70000|send 0 1 70000|send 0 1 70000|send 0 1 70000|send 0 1 70000|send 0 1 70000|sleep 2",
};
static const int kNTemplates     = (int) (sizeof kTemplates / sizeof kTemplates[0]);
static const int kNEnumTemplates = kNTemplates - 3;

inline Gen<std::string>
genRandomOp()
{
	return gen::exec([]() {
		std::ostringstream o;
		int k = *pbt::welem<int>({{8, 0}, {4, 1}, {3, 2}, {3, 3}, {3, 4}, {3, 5}, {2, 6}, {3, 7}, {3, 8}, {2, 9}, {2, 10}, {2, 11}, {2, 12}, {1, 13}, {2, 14}, {1, 15}, {2, 16}});
		switch (k) {
		case 0: // any option on any object
			o << "setopt " << *pbt::welem<int>({{5, 0}, {2, 1}, {2, 2}}) << " " << *pbt::range<int>(0, kNOpts - 1) << " " << *pbt::range<int>(0, 7) << " "
			  << *pbt::welem<int>({{15, 0}, {1, 7}}) << " " << *pbt::range<int>(0, 5);
			break;
		case 1: o << "getopt " << *pbt::range<int>(0, 2) << " " << *pbt::range<int>(0, kNOpts - 1) << " 0 " << *pbt::welem<int>({{15, 0}, {1, 7}}) << " " << *pbt::range<int>(0, 5); break;
		case 2: o << "close " << *pbt::range<int>(0, 4) << " " << *pbt::welem<int>({{4, 0}, {1, 1}}); break;
		case 3: o << "ctxclose " << *pbt::range<int>(0, 2); break;
		case 4: o << "epclose " << *pbt::range<int>(0, 4) << " " << *pbt::welem<int>({{4, 0}, {1, 1}}); break;
		case 5: o << "pipeclose " << *pbt::range<int>(0, 3) << " " << *pbt::range<int>(0, 2); break;
		case 6: o << "cancel " << *pbt::range<int>(0, 5) << " " << *pbt::range<int>(0, 1); break;
		case 7: o << "send " << *pbt::range<int>(0, 3) << " " << *pbt::range<int>(0, 2) << " " << *gen::element(0, 1, 10, 300, 5000, 70000) << " " << *pbt::range<int>(0, 1); break;
		case 8: o << "recv " << *pbt::range<int>(0, 3) << " " << *pbt::range<int>(0, 2) << " 0 " << *pbt::range<int>(0, 1); break;
		case 9: o << "ctxopen " << *pbt::range<int>(0, 3); break;
		case 10: o << "ctxsend " << *pbt::range<int>(0, 2) << " " << *gen::element(0, 10, 3000) << " " << *pbt::range<int>(0, 5) << " " << *pbt::range<int>(0, 1); break;
		case 11: o << "ctxrecv " << *pbt::range<int>(0, 2) << " 0 " << *pbt::range<int>(0, 5) << " " << *pbt::range<int>(0, 1); break;
		case 12: o << "sleep " << *gen::element(1, 2, 5, 25); break;
		case 13: o << "stats"; break;
		case 14: o << "wait " << *pbt::range<int>(0, 5); break;
		case 15: o << "open " << *pbt::range<int>(0, NPROTO - 1) << " " << *pbt::range<int>(0, 1); break;
		default: o << (*pbt::range<int>(0, 1) ? "subscribe " : "unsubscribe ") << *pbt::range<int>(0, 2) << " " << *pbt::range<int>(0, 3) << " " << *pbt::range<int>(0, 1); break;
		}
		return o.str();
	});
}

// template + insertions: returns the op lines (without cfg)
inline std::string
gen_program()
{
	int         t  = *pbt::range<int>(0, kNTemplates - 1);
	int         T  = *pbt::welem<int>({{4, 0}, {2, 1}, {2, 2}, {2, 3}});
	int         F  = *pbt::welem<int>({{3, 0}, {1, 1}});
	if (t >= kNEnumTemplates && (T == 0 || T == 3))
		T = T == 0 ? 1 : 2; // (the stalled wire peers of the round-7 templates speak ipc / tcp)
	std::string tp = kTemplates[t];
	std::vector<std::string> lines;
	size_t      pos = 0;
	while (pos <= tp.size()) {
		size_t e = tp.find('|', pos);
		if (e == std::string::npos)
			e = tp.size();
		std::string l = tp.substr(pos, e - pos);
		// substitute T (transport), F (dial flags), S (send/recv form)
		std::string out;
		std::istringstream is(l);
		std::string w;
		bool first = true;
		while (is >> w) {
			if (!first)
				out += " ";
			first = false;
			if (w == "T")
				out += std::to_string(T);
			else if (w == "F")
				out += std::to_string(F);
			else if (w == "S")
				out += std::to_string(*pbt::welem<int>({{3, 0}, {2, 1}, {1, 2}}));
			else
				out += w;
		}
		lines.push_back(out);
		pos = e + 1;
	}
	// insertions: (position, op), the container shrinks towards the bare template
	auto ins = *gen::container<std::vector<std::pair<int, std::string>>>(gen::pair(gen::inRange(0, 1000), genRandomOp()));
	// insert from the back so that positions stay meaningful
	std::vector<std::vector<std::string>> at(lines.size() + 1);
	for (auto &p : ins)
		at[(size_t) p.first * (lines.size() + 1) / 1001].push_back(p.second);
	std::ostringstream o;
	o << "# template " << t << "\n";
	for (size_t i = 0; i <= lines.size(); i++) {
		for (auto &x : at[i])
			o << x << "\n";
		if (i < lines.size())
			o << lines[i] << "\n";
	}
	return o.str();
}

} // namespace api
