// Replier-side world shared by C04 (REP) and C07 (RESPONDENT): a socket + contexts under test against
// raw requester/surveyor wire peers sending backtraces; the two protocols have the same replier rules.
#pragma once
#include "pbt.hpp"
#include "nngh.h"
#include "rawpeer.h"
#include <deque>

namespace replier {

using Bytes = std::vector<uint8_t>;

static void
put32(Bytes &b, uint32_t v)
{
	b.push_back(v >> 24);
	b.push_back(v >> 16);
	b.push_back(v >> 8);
	b.push_back(v);
}
static uint32_t
get32(const uint8_t *p)
{
	return ((uint32_t) p[0] << 24) | (p[1] << 16) | (p[2] << 8) | p[3];
}

struct Flavor {
	const char *prop;                 // "C04" / "C07"
	int (*open)(nng_socket *);        // nng_rep0_open / nng_respondent0_open
	uint16_t peer_proto, self_proto;  // SP_REQ/SP_REP or SP_SURVEYOR/SP_RESPONDENT
};
static const Flavor *FL;
static std::string
sg(const char *s)
{
	return std::string(FL->prop) + ":" + s;
}

struct WireReq {
	Bytes    trace; // backtrace words + request id, as sent
	uint32_t tag;
	int      words;            // backtrace words + request id
	bool     judged = false;   // REP examines a request (against the MAXTTL of that moment) when it becomes the head of its pipe
	bool     deliverable = false;
};

struct RepCtx {
	bool    open = false;
	nng_ctx ctx;
	bool    has  = false; // holds a received, unanswered request
	int     pipe = -1;
	int     pipe_epoch = 0;
	Bytes   trace;
};

struct RepWorld {
	nng_socket          s;
	nng_listener        l;
	RepCtx              c[3];
	rp                  peer[3];
	bool                up[3] = {false, false, false};
	int                 epoch[3] = {0, 0, 0}; // connection generation per slot
	std::deque<WireReq> q[3];  // per peer: requests written and not yet consumed by REP
	std::deque<int>     ready; // peers whose head request is held by the socket, in arrival order
	// requests written by a peer that has since disconnected: REP only notices the loss when it next touches
	// the pipe, so they may still be delivered (in their order) or silently vanish
	std::deque<WireReq> ghost[3];
	uint32_t            seq = 0;
	int                 ttl = 8;
};

// drop undeliverable heads (too many hops) and register the pipe as ready when a deliverable head exists
static void
rep_advance(RepWorld &W, int p)
{
	while (!W.q[p].empty()) {
		WireReq &h = W.q[p].front();
		if (!h.judged) {
			h.judged      = true;
			h.deliverable = h.words <= W.ttl;
		}
		if (h.deliverable)
			break;
		W.q[p].pop_front();
		vr_tag("ttl_drop");
	}
	if (!W.q[p].empty() && std::find(W.ready.begin(), W.ready.end(), p) == W.ready.end())
		W.ready.push_back(p);
}

int
exec_rep(const vcase *vc, const Flavor *fl)
{
	FL = fl;
	RepWorld W;
	H_OK(fl->open(&W.s));
	H_OK(nng_listener_create(&W.l, W.s, "socket://"));
	H_OK(nng_listener_start(W.l, 0));
	W.c[0].open = true;
	int exchanges = 0;
	for (int i = 2; i < vc->nops; i++) {
		const vop  *o = &vc->ops[i];
		std::string n = o->name;
		vr_at(i, o->name);
		int k = (int) vop_arg(o, 0, 0), a1 = (int) vop_arg(o, 1, 0);
		if (n == "attach") {
			if (k < 0 || k > 2 || W.up[k])
				continue;
			H_OK(rp_attach_socket(&W.peer[k], W.l));
			uint16_t pp = 0;
			int      hr = rp_handshake(&W.peer[k], fl->peer_proto, &pp);
			VR_CHECK(hr == 0 && pp == fl->self_proto, "harness:handshake", "rep wire handshake %d %x", hr, pp);
			vs_settle();
			W.up[k] = true;
			W.epoch[k]++;
			W.q[k].clear();
		} else if (n == "detach") {
			if (k < 0 || k > 2 || !W.up[k])
				continue;
			rp_close(&W.peer[k]);
			W.up[k] = false;
			vs_settle();
			for (auto &r : W.q[k])
				W.ghost[k].push_back(r);
			W.q[k].clear();
			auto f = std::find(W.ready.begin(), W.ready.end(), k);
			if (f != W.ready.end())
				W.ready.erase(f);
			vr_tag("peer_lost");
		} else if (n == "ttl") {
			if (k < 1 || k > 15)
				continue;
			H_OK(nng_socket_set_int(W.s, NNG_OPT_MAXTTL, k));
			W.ttl = k;
		} else if (n == "req") { // req peer hops
			if (k < 0 || k > 2 || !W.up[k] || a1 < 0 || a1 > 16)
				continue;
			WireReq r;
			for (int h = 0; h < a1; h++)
				put32(r.trace, 0x01000000u + (uint32_t) (h * 77 + k));
			put32(r.trace, 0x80000000u | (0x100u + ++W.seq));
			r.tag         = ((uint32_t) k << 24) | W.seq;
			r.words       = a1 + 1;
			Bytes f       = r.trace;
			put32(f, r.tag);
			int wr = rp_send_msg(&W.peer[k], f.data(), f.size());
			VR_CHECK(wr == 0, "harness:write", "raw request write failed %d", wr);
			vs_settle();
			bool was_empty = W.q[k].empty();
			W.q[k].push_back(r);
			if (was_empty)
				rep_advance(W, k);
			if (a1 > 0)
				vr_tag("backtrace");
		} else if (n == "badreq") { // frame without a terminating request id: sender must be disconnected
			if (k < 0 || k > 2 || !W.up[k])
				continue;
			Bytes f;
			int   words = a1 % 3;
			for (int h = 0; h < words; h++)
				put32(f, 0x00000100u + h);
			f.push_back(0x01);
			int wr = rp_send_msg(&W.peer[k], f.data(), f.size());
			VR_CHECK(wr == 0, "harness:write", "raw write failed %d", wr);
			vs_settle();
			// it is only examined once it is the head of the pipe
			if (W.q[k].empty() && words >= W.ttl) {
				// the hop limit is reached before the missing terminator is noticed: dropped like any over-TTL request
				rp_pump(&W.peer[k]);
				VR_CHECK(!W.peer[k].eof, sg("over-ttl-disconnected").c_str(), "request with too many hops disconnected its sender");
				vr_tag("ttl_drop");
			} else if (W.q[k].empty()) {
				rp_pump(&W.peer[k]);
				VR_CHECK(W.peer[k].eof, sg("malformed-request-not-disconnected").c_str(), "peer that sent an unterminated backtrace was not disconnected");
				rp_close(&W.peer[k]);
				W.up[k] = false;
				vr_tag("malformed_request");
			} else {
				// queued behind an unread request: detach to keep the model simple
				rp_close(&W.peer[k]);
				W.up[k] = false;
				vs_settle();
				for (auto &r : W.q[k])
					W.ghost[k].push_back(r);
				W.q[k].clear();
				auto f2 = std::find(W.ready.begin(), W.ready.end(), k);
				if (f2 != W.ready.end())
					W.ready.erase(f2);
			}
		} else if (n == "jamrep") {
			// jamrep nctx hops : a self-contained episode on a fresh wire peer that does not read: nctx fresh contexts each take one
			// request and answer with a large reply (the first is half-written, the others wait on the pipe), the last context then
			// receives one more request while its reply is still queued; finally the peer drains.  Every reply must carry the
			// backtrace of the request it answers.
			bool quiet = W.ready.empty();
			for (int q = 0; q < 3; q++)
				if (!W.q[q].empty() || !W.ghost[q].empty() || (W.c[q].open && W.c[q].has))
					quiet = false;
			int nctx = k < 2 ? 2 : k > 4 ? 4 : k;
			int hops = a1 < 0 ? 0 : a1 > 5 ? 5 : a1;
			if (!quiet || hops + 1 > W.ttl)
				continue;
			rp T;
			rp_socket_sndbuf = 1;
			int arv          = rp_attach_socket(&T, W.l);
			rp_socket_sndbuf = 0;
			H_OK(arv);
			uint16_t pp = 0;
			int      hr = rp_handshake(&T, fl->peer_proto, &pp);
			VR_CHECK(hr == 0 && pp == fl->self_proto, "harness:handshake", "jamrep handshake %d %x", hr, pp);
			vs_settle();
			struct Ep {
				nng_ctx  ctx;
				nng_aio *sndaio = nullptr;
				Bytes    trace;
				uint32_t rtag = 0;
				bool     got  = false;
			};
			std::vector<Ep>                 ep((size_t) nctx);
			std::map<uint32_t, Bytes>       trace_of; // request tag -> its backtrace
			for (int q = 0; q < nctx + 1; q++) {
				Bytes tr;
				for (int h = 0; h < hops; h++)
					put32(tr, 0x02000000u + (uint32_t) (h * 131 + q * 7 + 1));
				put32(tr, 0x80000000u | (0x4000u + ++W.seq));
				uint32_t tag = 0x7a000000u | W.seq;
				trace_of[tag] = tr;
				Bytes f       = tr;
				put32(f, tag);
				VR_CHECK(rp_send_msg(&T, f.data(), f.size()) == 0, "harness:write", "raw request write failed");
				vs_settle();
			}
			auto recv_on = [&](nng_ctx cx, uint32_t *tag) -> int {
				nng_aio *a;
				H_OK(nng_aio_alloc(&a, NULL, NULL));
				nng_aio_set_timeout(a, 100);
				nng_ctx_recv(cx, a);
				nng_aio_wait(a);
				int rv = nng_aio_result(a);
				if (rv == 0) {
					nng_msg *m = nng_aio_get_msg(a);
					*tag       = nng_msg_len(m) >= 4 ? get32((uint8_t *) nng_msg_body(m)) : 0;
					nng_msg_free(m);
				}
				nng_aio_free(a);
				return rv;
			};
			bool ok = true;
			for (auto &E : ep) {
				H_OK(nng_ctx_open(&E.ctx, W.s));
				uint32_t tag = 0;
				if (recv_on(E.ctx, &tag) != 0 || !trace_of.count(tag)) {
					ok = false;
					break;
				}
				E.trace = trace_of[tag];
				E.got   = true;
			}
			if (ok) {
				for (auto &E : ep) {
					E.rtag = 0x7b000000u | ++W.seq;
					H_OK(nng_aio_alloc(&E.sndaio, NULL, NULL));
					nng_aio_set_msg(E.sndaio, h_msg(E.rtag, 20000));
					nng_ctx_send(E.ctx, E.sndaio);
					vs_settle();
				}
				int waiting = 0;
				for (auto &E : ep)
					if (nng_aio_busy(E.sndaio))
						waiting++;
				if (waiting >= 1)
					vr_tag("reply_queued_behind_busy_pipe");
				// the last context takes the next request while its reply still waits
				uint32_t tag2 = 0;
				if (recv_on(ep.back().ctx, &tag2) == 0)
					vr_tag("request_received_while_reply_queued");
				// the peer drains
				size_t got = 0;
				for (int round = 0; round < 600 && got < ep.size(); round++) {
					vs_settle();
					uint8_t *pl;
					size_t   pn;
					int      g = rp_recv_msg(&T, &pl, &pn);
					VR_CHECK(g >= 0, sg("wire-garbage").c_str(), "replier wrote a malformed frame");
					if (g == 0) {
						vs_sleep(1);
						continue;
					}
					VR_CHECK(pn >= 20004 + 4, sg("rep-reply-body").c_str(), "reply frame of %zu bytes", pn);
					size_t   tl   = pn - 20004;
					uint32_t rtag = get32(pl + tl);
					Ep      *E    = nullptr;
					for (auto &x : ep)
						if (x.rtag == rtag)
							E = &x;
					VR_CHECK(E != nullptr, sg("rep-reply-body").c_str(), "reply with unknown body tag %x", rtag);
					VR_CHECK(tl == E->trace.size() && memcmp(pl, E->trace.data(), tl) == 0, sg("rep-backtrace").c_str(),
					    "a reply that waited behind a busy pipe carries a %zu-byte backtrace that is not the one of the request it answers (%zu bytes)%s", tl, E->trace.size(),
					    tl == E->trace.size() ? ": same length, different words" : "");
					for (size_t q = tl + 4; q < pn; q++)
						VR_CHECK(pl[q] == (uint8_t) (rtag * 31 + (q - tl - 4) * 7), sg("rep-reply-body").c_str(), "reply body corrupted at offset %zu", q - tl - 4);
					free(pl);
					got++;
				}
				VR_CHECK(got == ep.size(), sg("rep-reply-missing").c_str(), "%zu of %zu replies that waited behind a busy pipe never reached the wire", ep.size() - got, ep.size());
				exchanges += (int) got;
				vr_tag("jammed_replies_checked");
			}
			for (auto &E : ep) {
				if (E.sndaio) {
					nng_aio_wait(E.sndaio);
					if (nng_aio_result(E.sndaio) != 0 && nng_aio_get_msg(E.sndaio))
						nng_msg_free(nng_aio_get_msg(E.sndaio));
					nng_aio_free(E.sndaio);
				}
				if (E.got || true)
					nng_ctx_close(E.ctx);
			}
			rp_close(&T);
			vs_settle();
		} else if (n == "ctxopen") {
			if (k < 1 || k > 2 || W.c[k].open)
				continue;
			H_OK(nng_ctx_open(&W.c[k].ctx, W.s));
			W.c[k]      = RepCtx();
			W.c[k].open = true;
			nng_ctx_open(&W.c[k].ctx, W.s);
			vr_tag("ctx");
		} else if (n == "recv") {
			if (k < 0 || k > 2 || !W.c[k].open)
				continue;
			RepCtx  &C = W.c[k];
			nng_aio *a;
			H_OK(nng_aio_alloc(&a, NULL, NULL));
			nng_aio_set_timeout(a, 0);
			if (k == 0)
				nng_socket_recv(W.s, a);
			else
				nng_ctx_recv(C.ctx, a);
			nng_aio_wait(a);
			int rv = nng_aio_result(a);
			uint32_t got = 0;
			nng_msg *gm  = nullptr;
			if (rv == 0) {
				gm  = nng_aio_get_msg(a);
				got = nng_msg_len(gm) >= 4 ? get32((uint8_t *) nng_msg_body(gm)) : 0;
			}
			vr_trace("recv ctx %d rv %d got %x ready %zu ghosts %zu/%zu/%zu", k, rv, got, W.ready.size(), W.ghost[0].size(), W.ghost[1].size(), W.ghost[2].size());
			int gp = -1;
			if (rv == 0)
				for (int g = 0; g < 3; g++) {
					// a ghost request: any not-yet-seen request of a disconnected peer, later ones only after earlier ones
					for (size_t j = 0; j < W.ghost[g].size(); j++)
						if (W.ghost[g][j].tag == got && W.ghost[g][j].words <= W.ttl + 16) {
							gp = g;
							W.ghost[g].erase(W.ghost[g].begin() + j); // (a slot may hold ghosts of several past connections: no order is assumed)
							break;
						}
					if (gp >= 0)
						break;
				}
			if (gp >= 0) {
				VR_CHECK(nng_msg_len(gm) == 4, sg("rep-wrong-request").c_str(), "ghost request body altered");
				nng_msg_free(gm);
				// its connection is gone: the reply is accepted and discarded; do not track it
				C.has   = true;
				C.pipe  = -1;
				C.trace.clear();
				vr_tag("request_from_lost_peer");
				vs_settle();
			} else if (W.ready.empty()) {
				if (rv == 0)
					vr_fail(sg("rep-unexpected-request").c_str(), "REP context %d received %x but no deliverable request is pending", k, got);
				VR_CHECK(rv == NNG_ETIMEDOUT, sg("rep-recv-code").c_str(), "REP receive with nothing pending -> %d", rv);
			} else {
				VR_CHECK(rv == 0, sg("rep-request-lost").c_str(), "REP context %d: a request from peer %d is pending but receive -> %d", k, W.ready.front(), rv);
				nng_msg *m = gm;
				int      p = W.ready.front();
				W.ready.pop_front();
				WireReq r = W.q[p].front();
				W.q[p].pop_front();
				VR_CHECK(nng_msg_len(m) == 4 && got == r.tag, sg("rep-wrong-request").c_str(),
				    "REP context %d received body %x, expected %x (oldest pending request, from peer %d)", k, got, r.tag, p);
				nng_msg_free(m);
				C.has        = true;
				C.pipe       = p;
				C.pipe_epoch = W.epoch[p];
				C.trace      = r.trace;
				vs_settle();
				rep_advance(W, p);
			}
			nng_aio_free(a);
		} else if (n == "send") {
			if (k < 0 || k > 2 || !W.c[k].open)
				continue;
			RepCtx  &C   = W.c[k];
			uint32_t tag = 0x52000000u | ++W.seq;
			nng_msg *m   = h_msg(tag, 0);
			// the application may hand over a message that still carries header words (taken from a raw socket, or
			// re-used): a cooked replier routes by the backtrace it saved, never by what the caller left in the header
			int junk = (int) vop_arg(o, 1, 0);
			for (int j = 0; j < junk && j < 3; j++) {
				uint32_t word = 0x80000def + (uint32_t) j;
				for (int q = 0; q < 3; q++) // prefer the routing header of some other context's pending request
					if (q != k && W.c[q].open && W.c[q].has && W.c[q].trace.size() >= 4 && vop_arg(o, 2, 0) % 2 == 0)
						word = get32(W.c[q].trace.data() + W.c[q].trace.size() - 4);
				nng_msg_header_append_u32(m, word);
				vr_tag("reply_with_stale_header");
			}
			nng_aio *a;
			H_OK(nng_aio_alloc(&a, NULL, NULL));
			nng_aio_set_timeout(a, 100);
			nng_aio_set_msg(a, m);
			if (k == 0)
				nng_socket_send(W.s, a);
			else
				nng_ctx_send(C.ctx, a);
			nng_aio_wait(a);
			int rv = nng_aio_result(a);
			if (!C.has) {
				VR_CHECK(rv == NNG_ESTATE, sg("rep-send-before-recv").c_str(), "REP send without a received request -> %d, expected NNG_ESTATE", rv);
				nng_msg *om = nng_aio_get_msg(a);
				VR_CHECK(om != nullptr && at_is_live(om), sg("failed-send-lost-message").c_str(), "failed REP send did not keep its message");
				nng_msg_free(om);
				vr_tag("send_estate");
			} else {
				VR_CHECK(rv == 0, sg("rep-send-failed").c_str(), "REP reply -> %d", rv);
				C.has = false;
				vs_settle();
				// the reply must appear on exactly the connection of the request, with its backtrace
				for (int p = 0; p < 3; p++) {
					if (!W.up[p])
						continue;
					uint8_t *pl;
					size_t   pn;
					int      g = rp_recv_msg(&W.peer[p], &pl, &pn);
					VR_CHECK(g >= 0, sg("wire-garbage").c_str(), "REP wrote a malformed frame");
					// (if the requester's connection went away after its request was received, the reply is
					// accepted and silently discarded: it must not show up anywhere)
					if (p == C.pipe && C.pipe_epoch == W.epoch[p]) {
						VR_CHECK(g == 1, sg("rep-reply-missing").c_str(), "reply did not reach the connection of its request (peer %d)", p);
						VR_CHECK(pn == C.trace.size() + 4 && memcmp(pl, C.trace.data(), C.trace.size()) == 0, sg("rep-backtrace").c_str(),
						    "reply backtrace differs from the request's (%zu bytes vs %zu)", pn - 4, C.trace.size());
						VR_CHECK(get32(pl + pn - 4) == tag, sg("rep-reply-body").c_str(), "reply body altered");
						free(pl);
						exchanges++;
						vr_tag("replied");
					} else if (g == 1)
						vr_fail(sg("rep-misrouted").c_str(), "reply for the request of peer %d appeared on the connection of peer %d", C.pipe, p);
				}
			}
			nng_aio_free(a);
		}
	}
	if (exchanges >= 2)
		vr_tag("two_exchanges");
	for (int k = 1; k < 3; k++)
		if (W.c[k].open)
			nng_ctx_close(W.c[k].ctx);
	for (int p = 0; p < 3; p++)
		if (W.up[p])
			rp_close(&W.peer[p]);
	nng_socket_close(W.s);
	return 0;
}


} // namespace replier
