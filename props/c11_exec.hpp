// Executor for C11, shared by the rapidcheck driver and the libFuzzer target.
#pragma once
#include "nngh.h"
#include "rawpeer.h"
#include <deque>
#include <map>
#include <set>
#include <string>
#include <vector>
#include <unistd.h>

namespace c11 {

using Bytes = std::vector<uint8_t>;

enum Kind { K_ANY, K_PAIR1, K_REPLIER, K_REQUESTER, K_DISCARD };
enum { D_DELIVER, D_DROP, D_CLOSE };

struct Proto {
	const char *name;
	int (*open)(nng_socket *);
	uint16_t peer; // what the wire peer must claim to be
	Kind     kind;
	int (*ctl_open)(nng_socket *); // matching well-behaved peer for the inproc control connection
	bool     ctl_sends;               // control peer sends to the socket under test (else the socket sends to it)
	bool     app_recvs;               // the application can call receive on the socket under test
	bool     exclusive;               // PAIR: only one peer at a time
};

static const Proto kProtos[] = {
    {"pull", nng_pull0_open, SP_PUSH, K_ANY, nng_push0_open, true, true, false},
    {"sub", nng_sub0_open, SP_PUB, K_ANY, nng_pub0_open, true, true, false},
    {"pair0", nng_pair0_open, SP_PAIR0, K_ANY, nng_pair0_open, true, true, true},
    {"pair1", nng_pair1_open, SP_PAIR1, K_PAIR1, nng_pair1_open, true, true, true},
    {"bus", nng_bus0_open, SP_BUS, K_ANY, nng_bus0_open, true, true, false},
    {"rep", nng_rep0_open, SP_REQ, K_REPLIER, nng_req0_open, true, true, false},
    {"respondent", nng_respondent0_open, SP_SURVEYOR, K_REPLIER, nng_surveyor0_open, true, true, false},
    {"req", nng_req0_open, SP_REP, K_REQUESTER, nng_rep0_open, false, false, false},
    {"surveyor", nng_surveyor0_open, SP_RESPONDENT, K_REQUESTER, nng_respondent0_open, false, false, false},
    {"push", nng_push0_open, SP_PULL, K_DISCARD, nng_pull0_open, false, false, false},
    {"pub", nng_pub0_open, SP_SUB, K_DISCARD, nng_sub0_open, false, false, false},
    {"xpull", nng_pull0_open_raw, SP_PUSH, K_ANY, nng_push0_open, true, true, false},
    {"xsub", nng_sub0_open_raw, SP_PUB, K_ANY, nng_pub0_open, true, true, false},
    {"xpair0", nng_pair0_open_raw, SP_PAIR0, K_ANY, nng_pair0_open, true, true, true},
    {"xpair1", nng_pair1_open_raw, SP_PAIR1, K_PAIR1, nng_pair1_open, true, true, true},
    {"xbus", nng_bus0_open_raw, SP_BUS, K_ANY, nng_bus0_open, true, true, false},
    {"xrep", nng_rep0_open_raw, SP_REQ, K_REPLIER, nng_req0_open, true, true, false},
    {"xrespondent", nng_respondent0_open_raw, SP_SURVEYOR, K_REPLIER, nng_surveyor0_open, true, true, false},
    {"xpush", nng_push0_open_raw, SP_PULL, K_DISCARD, nng_pull0_open, false, false, false},
    {"xpub", nng_pub0_open_raw, SP_SUB, K_DISCARD, nng_sub0_open, false, false, false},
};
static const int kNProtos = (int) (sizeof(kProtos) / sizeof(kProtos[0]));

// reference: what does the receiving protocol do with one complete frame payload?
static int
deliver_ref(Kind k, const Bytes &p, Bytes &body, int ttl = 8)
{
	switch (k) {
	case K_ANY: body = p; return D_DELIVER;
	case K_DISCARD: return D_DROP;
	case K_PAIR1: {
		if (p.size() < 4)
			return D_CLOSE;
		uint32_t hop = ((uint32_t) p[0] << 24) | (p[1] << 16) | (p[2] << 8) | p[3];
		if (hop > 0xff)
			return D_CLOSE;
		if ((int) hop > ttl)
			return D_DROP;
		body.assign(p.begin() + 4, p.end());
		return D_DELIVER;
	}
	case K_REPLIER: {
		size_t off = 0;
		for (int hops = 1;; hops++) {
			if (hops > ttl)
				return D_DROP;
			if (p.size() - off < 4)
				return D_CLOSE;
			bool end = (p[off] & 0x80) != 0;
			off += 4;
			if (end)
				break;
		}
		body.assign(p.begin() + off, p.end());
		return D_DELIVER;
	}
	case K_REQUESTER: return p.size() < 4 ? D_CLOSE : D_DROP; // nothing outstanding: never delivered
	}
	return D_DROP;
}

struct World {
	const Proto *P;
	nng_socket   s, ctl;
	nng_listener l;
	int          tr; // 0 socket, 1 ipc, 2 tcp
	long long    rcvmax; // effective limit (0 = none)
	std::string  path;
	int          port = 0;
	rp           peer;
	bool         up = false;
	bool         hs_ok = false;  // current hostile connection passed the handshake
	bool         hs_tainted = false; // further bytes were written into an incomplete handshake: it may have become complete (valid or not)
	Bytes        stream;         // bytes written after the handshake on the current connection
	size_t       decoded = 0;    // prefix of stream already decoded
	bool         must_close = false;
	bool         giant      = false; // a huge valid length was announced: the rest of the stream is not judged
	std::multiset<std::string> allowed; // bodies the application may receive
	long         delivered = 0;
	bool         ctl_up = false;
	uint32_t     seq = 0;
};

static std::string
S(const Bytes &b)
{
	return std::string(b.begin(), b.end());
}

static int
rp_kind(World &W)
{
	return W.tr == 0 ? RP_SOCKET : W.tr == 1 ? RP_IPC : RP_TCP;
}

// run the reference stream decoder over what has been written so far
static void
decode(World &W)
{
	if (!W.hs_ok || W.must_close || W.giant)
		return;
	size_t hdr = W.tr == 1 ? 9 : 8;
	for (;;) {
		if (W.stream.size() - W.decoded < hdr)
			return;
		size_t o = W.decoded;
		if (W.tr == 1) {
			if (W.stream[o] != 0x01) {
				W.must_close = true;
				vr_tag("rejected_frame");
				return;
			}
			o++;
		}
		uint64_t len = 0;
		for (int i = 0; i < 8; i++)
			len = (len << 8) | W.stream[o + i];
		if (len > 0x0fffffffffffffffull || (W.rcvmax > 0 && len > (uint64_t) W.rcvmax)) {
			W.must_close = true;
			vr_tag("rejected_frame");
			vr_tag("oversize_frame");
			return;
		}
		if (len > (1ull << 26)) {
			// a valid but enormous length with no limit configured: nng either fails the allocation (and
			// closes) or waits for the data; either way nothing further is deliverable on this connection
			W.giant = true;
			vr_tag("giant_frame");
			return;
		}
		if (W.stream.size() - W.decoded - hdr < len)
			return; // incomplete: nothing may be delivered from it
		Bytes payload(W.stream.begin() + W.decoded + hdr, W.stream.begin() + W.decoded + hdr + len), body;
		W.decoded += hdr + (size_t) len;
		int d = deliver_ref(W.P->kind, payload, body);
		if (d == D_DELIVER) {
			W.allowed.insert(S(body));
			vr_tag("deliverable_frame");
		} else if (d == D_CLOSE) {
			W.must_close = true;
			vr_tag("rejected_frame");
			vr_tag("malformed_header");
			return;
		} else
			vr_tag("dropped_frame");
	}
}

static void
app_drain(World &W)
{
	if (!W.P->app_recvs)
		return;
	for (int g = 0; g < 1000; g++) {
		nng_msg *m  = nullptr;
		int      rv = nng_recvmsg(W.s, &m, NNG_FLAG_NONBLOCK);
		if (rv != 0) {
			VR_CHECK(rv == NNG_EAGAIN, "C11:recv-code", "application receive -> %d", rv);
			return;
		}
		std::string b((const char *) nng_msg_body(m), nng_msg_len(m));
		if (W.rcvmax > 0)
			VR_CHECK((long long) (nng_msg_len(m) + nng_msg_header_len(m)) <= W.rcvmax + 4, "C11:oversize-delivered",
			    "a %zu-byte message was delivered with NNG_OPT_RECVMAXSZ %lld", nng_msg_len(m), W.rcvmax);
		auto it = W.allowed.find(b);
		if (it == W.allowed.end())
			vr_fail("C11:undeliverable-delivered",
			    "%s: the application received a %zu-byte message that the reference decoder does not allow (incomplete, oversize, malformed header, "
			    "over TTL, duplicate or invented)",
			    W.P->name, b.size());
		W.allowed.erase(it);
		nng_msg_free(m);
		W.delivered++;
		vs_settle();
	}
}

static void
peer_write(World &W, const Bytes &b, int chunk)
{
	if (!W.up || b.empty())
		return;
	int    rv;
	size_t w0 = W.peer.wr_total;
	if (chunk > 0) {
		int ch[8];
		for (int i = 0; i < 8; i++)
			ch[i] = chunk;
		rv = rp_write_chunked(&W.peer, b.data(), b.size(), ch, 8);
	} else
		rv = rp_write(&W.peer, b.data(), b.size());
	// whatever the kernel took may reach nng (even if the connection is dropped later)
	size_t took = W.peer.wr_total - w0;
	if (W.hs_ok && took > 0)
		W.stream.insert(W.stream.end(), b.begin(), b.begin() + (took > b.size() ? b.size() : took));
	if (rv != 0) {
		decode(W);
		app_drain(W);
		// nng closed the connection (EPIPE) or stopped reading (-2)
		rp_pump(&W.peer);
		W.up = false;
		rp_close(&W.peer);
		vr_tag("write_refused");
		W.hs_ok = false;
	}
	vs_settle();
}

static void
hostile_close(World &W)
{
	if (W.up) {
		if (W.hs_ok && W.decoded < W.stream.size())
			vr_tag("cut_inside_frame");
		rp_close(&W.peer);
		W.up = false;
		vs_settle();
	}
	W.hs_ok      = false;
	W.must_close = false;
	W.giant      = false;
	W.stream.clear();
	W.decoded = 0;
}

static int
raw_connect(World &W, rp *p)
{
	return W.tr == 0 ? rp_attach_socket(p, W.l) : W.tr == 1 ? rp_connect_ipc(p, W.path.c_str()) : rp_connect_tcp(p, W.port);
}

// a well-behaved wire connection must still be accepted and served
static void fresh_good_connection_once(World &W, bool last);

static void
fresh_good_connection(World &W)
{
	// PAIR refuses a peer while it still believes in the previous one (a dead connection is only noticed when
	// it is touched): a well-behaved dialer simply tries again
	int tries = W.P->exclusive ? 4 : 1;
	for (int t = 0; t < tries; t++) {
		long before = W.delivered;
		fresh_good_connection_once(W, t == tries - 1);
		if (!W.P->app_recvs || W.delivered > before)
			return;
		vs_sleep(150);
		vs_settle();
	}
}

static void
fresh_good_connection_once(World &W, bool last)
{
	rp g;
	int rv = raw_connect(W, &g);
	VR_CHECK(rv == 0, "C11:listener-dead", "%s: a fresh connection is refused after the hostile session (%d)", W.P->name, rv);
	uint16_t pp = 0;
	int      hr = rp_handshake(&g, W.P->peer, &pp);
	VR_CHECK(hr == 0, "C11:listener-dead", "%s: a fresh well-behaved connection does not get a handshake (%d)", W.P->name, hr);
	vs_settle();
	rp_pump(&g);
	if (g.eof && !last) {
		rp_close(&g);
		return;
	}
	VR_CHECK(!g.eof, "C11:listener-dead", "%s: a fresh well-behaved connection is dropped right after the handshake", W.P->name);
	if (W.P->app_recvs) {
		// one valid frame must come through
		Bytes    payload;
		uint32_t tag = 0x47000000u | ++W.seq;
		if (W.P->kind == K_PAIR1) {
			payload = {0, 0, 0, 1};
		} else if (W.P->kind == K_REPLIER) {
			payload = {0x80, 0, 0, 1};
		}
		payload.push_back(tag >> 24); payload.push_back(tag >> 16); payload.push_back(tag >> 8); payload.push_back(tag);
		Bytes body;
		deliver_ref(W.P->kind, payload, body);
		W.allowed.insert(S(body));
		VR_CHECK(rp_send_msg(&g, payload.data(), payload.size()) == 0, "harness:write", "good write failed");
		vs_settle();
		long before = W.delivered;
		app_drain(W);
		if (W.delivered == before) {
			// the accept loop may be in its cool-down after the last failed connection: let (virtual) time pass
			for (int w = 0; w < 30 && W.delivered == before; w++) {
				vs_sleep(10);
				vs_settle();
				app_drain(W);
			}
			rp_pump(&g);
			vr_trace("good connection: eof %d rx %zu delivered %ld->%ld", g.eof, g.rxlen, before, W.delivered);
		}
		if (W.delivered == before && !last) {
			rp_close(&g);
			vs_settle();
			return;
		}
		VR_CHECK(W.delivered > before, "C11:good-connection-starved", "%s: a valid message on a fresh connection was not delivered after the hostile session", W.P->name);
		vr_tag("good_connection_served");
	}
	rp_pump(&g);
	if (W.P->exclusive && W.tr != 0 && !g.eof) {
		// PAIR: while this well-behaved connection is established, an intruder with a well-formed handshake (the right
		// or a wrong protocol id) is turned away - and that must not disturb the connection that is being served
		rp  in;
		int irv = raw_connect(W, &in);
		if (irv == 0) {
			uint8_t h[8];
			rp_hello(h, (W.seq & 1) ? W.P->peer : (uint16_t) 0x30);
			rp_write(&in, h, 8);
			for (int w = 0; w < 40 && !in.eof; w++) {
				vs_sleep(10);
				vs_settle();
				rp_pump(&in);
			}
			VR_CHECK(in.eof, "C11:intruder-kept", "%s: a second peer was not turned away while the pair is taken", W.P->name);
			rp_close(&in);
			vs_sleep(5);
			vs_settle();
			// the application can still send to its peer, and the peer sees the frame
			rp_pump(&g);
			size_t   rx0 = g.rxlen;
			nng_msg *m   = h_msg(0x48000000u | ++W.seq, 0);
			if (W.P->kind == K_PAIR1 && W.P->name[0] == 'x')
				nng_msg_header_append_u32(m, 1); // raw PAIR1: the application supplies the hop count
			nng_socket_set_ms(W.s, NNG_OPT_SENDTIMEO, 500);
			int rv2 = nng_sendmsg(W.s, m, 0);
			if (rv2 != 0)
				nng_msg_free(m);
			VR_CHECK(rv2 == 0, "C11:good-connection-wedged", "%s: after a second peer was turned away the application cannot send to its established peer any more (%d)", W.P->name,
			    rv2);
			vs_settle();
			rp_pump(&g);
			VR_CHECK(g.rxlen > rx0 && !g.eof, "C11:good-connection-wedged", "%s: the established peer received nothing after a second peer was turned away", W.P->name);
			vr_tag("intruder_turned_away");
		}
	}
	rp_close(&g);
	vs_settle();
}

static void
control_exchange(World &W)
{
	if (!W.ctl_up)
		return;
	uint32_t tag = 0x43000000u | ++W.seq;
	nng_msg *m   = h_msg(tag, 0);
	if (W.P->ctl_sends) {
		std::string b((const char *) nng_msg_body(m), nng_msg_len(m));
		W.allowed.insert(b);
		nng_socket_set_ms(W.ctl, NNG_OPT_SENDTIMEO, 2000);
		int rv = nng_sendmsg(W.ctl, m, 0);
		VR_CHECK(rv == 0, "C11:control-stuck", "%s: well-behaved control connection cannot send (%d)", W.P->name, rv);
		vs_settle();
		long before = W.delivered;
		app_drain(W);
		VR_CHECK(W.delivered > before, "C11:control-starved", "%s: message from the well-behaved control connection was not delivered", W.P->name);
	} else {
		// the socket under test sends; the control peer must receive it
		nng_socket_set_ms(W.s, NNG_OPT_SENDTIMEO, 2000);
		int rv = nng_sendmsg(W.s, m, 0);
		if (rv != 0) {
			nng_msg_free(m);
			VR_CHECK(W.P->kind == K_REQUESTER || rv == NNG_ETIMEDOUT, "C11:control-stuck", "%s: send -> %d", W.P->name, rv);
			return;
		}
		vs_settle();
		nng_msg *r = nullptr;
		nng_socket_set_ms(W.ctl, NNG_OPT_RECVTIMEO, 2000);
		rv = nng_recvmsg(W.ctl, &r, 0);
		if (W.P->kind == K_DISCARD && strcmp(W.P->name + (W.P->name[0] == 'x'), "push") == 0 && W.up) {
			// PUSH load-balances: the message may have gone to the hostile pipe
			if (rv == 0)
				nng_msg_free(r);
			return;
		}
		if (W.P->kind == K_REQUESTER && strstr(W.P->name, "req") && W.up) {
			if (rv == 0)
				nng_msg_free(r);
			return;
		}
		VR_CHECK(rv == 0, "C11:control-starved", "%s: the well-behaved control peer did not receive what the socket sent (%d)", W.P->name, rv);
		nng_msg_free(r);
	}
	vr_tag("control_ok");
}

inline int
exec_c11(const vcase *vc)
{
	h_cfg cfg;
	if (vc->nops < 2 || strcmp(vc->ops[0].name, "cfg") != 0 || strcmp(vc->ops[1].name, "world") != 0)
		return 0;
	h_cfg_from_op(&cfg, &vc->ops[0]);
	World W;
	int   pi = (int) vop_arg(&vc->ops[1], 0, 0);
	if (pi < 0 || pi >= kNProtos)
		return 0;
	W.P  = &kProtos[pi];
	W.tr = (int) vop_arg(&vc->ops[1], 1, 0);
	if (W.tr < 0 || W.tr > 2)
		W.tr = 0;
	long long rm = vop_arg(&vc->ops[1], 2, -1);
	if (W.tr == 2)
		cfg.grace_ms = 2;
	cfg.max_virtual_ms = 400000;
	if (h_begin(&cfg) != 0)
		return 0;
	vr_tagf("proto_%s", W.P->name);
	vr_tagf("tr%d", W.tr);
	H_OK(W.P->open(&W.s));
	if (rm >= 0) {
		H_OK(nng_socket_set_size(W.s, NNG_OPT_RECVMAXSZ, (size_t) rm));
		W.rcvmax = rm;
	} else
		W.rcvmax = 1073741824; // default
	nng_socket_set_int(W.s, NNG_OPT_RECVBUF, 64);
	if (strstr(W.P->name, "sub"))
		nng_sub0_socket_subscribe(W.s, "", 0);
	char pbuf[96];
	snprintf(pbuf, sizeof pbuf, "/tmp/verif-c11-%d", (int) getpid());
	W.path = pbuf;
	if (W.tr == 0) {
		H_OK(nng_listener_create(&W.l, W.s, "socket://"));
		H_OK(nng_listener_start(W.l, 0));
	} else if (W.tr == 1) {
		H_OK(nng_listener_create(&W.l, W.s, ("ipc://" + W.path).c_str()));
		H_OK(nng_listener_start(W.l, 0));
	} else {
		H_OK(nng_listener_create(&W.l, W.s, "tcp://127.0.0.1:0"));
		H_OK(nng_listener_start(W.l, 0));
		H_OK(nng_listener_get_int(W.l, NNG_OPT_BOUND_PORT, &W.port));
	}
	// control connection over inproc (not for PAIR, which has one peer at a time)
	if (!W.P->exclusive) {
		H_OK(nng_listen(W.s, "inproc://c11ctl", NULL, 0));
		H_OK(W.P->ctl_open(&W.ctl));
		if (W.P->ctl_open == nng_sub0_open)
			nng_sub0_socket_subscribe(W.ctl, "", 0);
		H_OK(nng_dial(W.ctl, "inproc://c11ctl", NULL, 0));
		W.ctl_up = true;
		vs_settle();
	}

	for (int i = 2; i < vc->nops; i++) {
		const vop  *o = &vc->ops[i];
		std::string n = o->name;
		vr_at(i, o->name);
		long long a0 = vop_arg(o, 0, 0), a1 = vop_arg(o, 1, 0), a2 = vop_arg(o, 2, 0), a3 = vop_arg(o, 3, 1), a4 = vop_arg(o, 4, 0);
		if (n == "reconnect") { // reconnect hskind k
			hostile_close(W);
			W.hs_tainted = false;
			if (raw_connect(W, &W.peer) != 0)
				vr_fail("C11:listener-dead", "%s: listener refuses connections during the hostile session", W.P->name);
			W.up = true;
			uint8_t h[8];
			rp_hello(h, W.P->peer);
			size_t hl = 8;
			switch (a0) {
			case 0: break;                              // valid
			case 1: h[1] = 'X'; break;                  // bad magic
			case 2: h[5] ^= 0x01; h[4] ^= (uint8_t) (a1 & 3); break; // wrong protocol
			case 3: h[6 + (a1 & 1)] = 1; break;         // reserved bytes set
			case 4: hl = (size_t) (a1 % 8); break;      // truncated at byte k
			case 5: break;                              // trickled byte by byte
			}
			Bytes hb(h, h + hl);
			int   wr = a0 == 5 ? 0 : rp_write(&W.peer, hb.data(), hb.size());
			if (a0 == 5) {
				int ones[8] = {1, 1, 1, 1, 1, 1, 1, 1};
				wr         = rp_write_chunked(&W.peer, hb.data(), hb.size(), ones, 8);
				vr_tag("handshake_trickled");
			}
			(void) wr;
			vs_settle();
			rp_pump(&W.peer);
			bool valid = a0 == 0 || a0 == 5;
			if (valid) {
				bool refused_pair = W.P->exclusive && false;
				(void) refused_pair;
				VR_CHECK(W.peer.rxlen >= 8, "C11:no-handshake", "%s: no handshake bytes from nng", W.P->name);
				rp_consume(&W.peer, NULL, 8);
				VR_CHECK(!W.peer.eof, "C11:valid-handshake-dropped", "%s: connection with a valid handshake was dropped", W.P->name);
				W.hs_ok = true;
				vr_tag("handshake_ok");
			} else {
				vr_tag("handshake_bad");
				if (a0 != 4) {
					// complete but invalid handshake: the connection must be dropped promptly
					// (the accept loop may be in its 100 ms back-off after an earlier failed connection)
					for (int w = 0; w < 40 && !W.peer.eof; w++) {
						vs_sleep(10);
						vs_settle();
						rp_pump(&W.peer);
					}
					VR_CHECK(W.peer.eof, "C11:bad-handshake-kept", "%s: connection with an invalid handshake (kind %lld) is still open", W.P->name, a0);
					hostile_close(W);
				} else
					vr_tag("handshake_truncated");
			}
		} else if (n == "frame") { // frame lenkind payloadkind size seed chunk
			if (!W.up || !W.hs_ok)
				continue;
			size_t sz = (size_t) a2;
			Bytes  pl;
			// protocol header
			switch (a1) {
			case 0: // valid for the protocol
				if (W.P->kind == K_PAIR1)
					pl = {0, 0, 0, 1};
				else if (W.P->kind == K_REPLIER || W.P->kind == K_REQUESTER)
					pl = {0x80, 0, 0, (uint8_t) a3};
				break;
			case 1: // backtrace of a few hops
				for (int hcount = (int) (a3 % 10); hcount > 0; hcount--)
					pl.insert(pl.end(), {0, 0, 1, (uint8_t) hcount});
				pl.insert(pl.end(), {0x80, 0, 0, 9});
				break;
			case 2: pl = {0, 0, 1, 0}; break;          // pair1: hop 0x100 / replier: no terminator
			case 3: pl = {0xff, 0xff, 0xff, 0xff}; break;
			case 4: break;                             // no header at all
			}
			for (size_t k = 0; k < sz; k++)
				pl.push_back((uint8_t) (a3 * 7 + k * 13));
			uint64_t len = pl.size();
			switch (a0) {
			case 1: len += 1; break;
			case 2: len = len ? len - 1 : 0; break;
			case 3: len = W.rcvmax > 0 ? (uint64_t) W.rcvmax : 4096; break;
			case 4: len = W.rcvmax > 0 ? (uint64_t) W.rcvmax + 1 : 4097; break;
			case 5: len = (1ull << 32) + 1; break;
			case 6: len = (1ull << 32) - 1; break;
			case 7: len = 1ull << 63; break;
			case 8: len = ~0ull; break;
			}
			Bytes f;
			if (W.tr == 1)
				f.push_back(0x01);
			for (int k = 7; k >= 0; k--)
				f.push_back((uint8_t) (len >> (8 * k)));
			f.insert(f.end(), pl.begin(), pl.end());
			peer_write(W, f, (int) a4);
			decode(W);
			app_drain(W);
		} else if (n == "bytes") {
			if (!W.up)
				continue;
			Bytes b;
			if (o->nd)
				b.assign(o->d[0], o->d[0] + o->dl[0]);
			if (!W.hs_ok) {
				if (!b.empty())
					W.hs_tainted = true;
				rp_write(&W.peer, b.data(), b.size());
				vs_settle();
			} else {
				peer_write(W, b, 0);
				decode(W);
				app_drain(W);
			}
		} else if (n == "close") {
			hostile_close(W);
		} else if (n == "stall") {
			int ms = (int) a0;
			vs_sleep(ms > 0 ? ms : 1);
			vs_settle();
			if (W.up && !W.hs_ok && !W.hs_tainted && ms >= 11000 && W.tr != 0) {
				rp_pump(&W.peer);
				VR_CHECK(W.peer.eof, "C11:stalled-handshake-kept", "%s: a connection that never completed its handshake is still open after %d ms", W.P->name, ms);
				vr_tag("handshake_timeout");
			}
		} else if (n == "apprecv") {
			app_drain(W);
		} else if (n == "good") {
			// while the hostile connection is (possibly) still there, well-behaved traffic must flow
			if (!(W.up && W.P->kind == K_REQUESTER) && !(W.up && !W.P->ctl_sends && strstr(W.P->name, "push")))
				control_exchange(W);
		}
		// closure obligations
		if (W.up && W.hs_ok && W.must_close) {
			app_drain(W);
			vs_settle();
			rp_pump(&W.peer);
			for (int w = 0; w < 40 && !W.peer.eof; w++) {
				// the receive path may be paused by back-pressure, or the connection may still be waiting for the
				// accept loop's back-off: give it (virtual) time
				vs_sleep(10);
				vs_settle();
				app_drain(W);
				rp_pump(&W.peer);
			}
			VR_CHECK(W.peer.eof, "C11:bad-frame-not-closed", "%s: connection that sent an oversize / invalid frame is still open", W.P->name);
			hostile_close(W);
			vr_tag("closed_after_bad_frame");
		}
	}
	app_drain(W);
	hostile_close(W);
	app_drain(W);
	fresh_good_connection(W);
	control_exchange(W);
	if (W.ctl_up)
		nng_socket_close(W.ctl);
	nng_socket_close(W.s);
	if (W.tr == 1)
		unlink(W.path.c_str());
	h_end();
	return 0;
}

} // namespace c11
