// C17: nng_msg behaves as two byte strings under all edit sequences.
// Generator: sequences over up to 3 live messages of the whole public nng_msg_* edit API.
// Oracle: reference model (two std::vector<uint8_t> per message, big-endian integers),
// compared after every operation; ASan/UBSan for out-of-storage access.
#include "pbt.hpp"
#include <nng/nng.h>

using bytes = std::vector<uint8_t>;

namespace {

struct Model {
	bool  live = false;
	bytes h, b;
	bool  trimmed = false; // body data sits (probably) at a non-zero offset
};

static uint8_t
pat(long long seed, size_t k)
{
	return (uint8_t) ((seed * 131 + (long long) k * 7 + (k >> 8)) & 0xff);
}

static bytes
mk(long long seed, size_t len)
{
	bytes v(len);
	for (size_t i = 0; i < len; i++)
		v[i] = pat(seed, i);
	return v;
}

static const uint8_t *
ptr(const bytes &v)
{
	static const uint8_t none[1] = {0};
	return v.empty() ? none : v.data(); // never hand nng a NULL data pointer
}

static void
be(bytes &out, unsigned long long v, int width)
{
	for (int i = width / 8 - 1; i >= 0; i--)
		out.push_back((uint8_t) (v >> (8 * i)));
}

static void
compare(nng_msg *m, const Model &md, const char *opname)
{
	size_t hl = nng_msg_header_len(m), bl = nng_msg_len(m);
	VR_CHECK(hl == md.h.size(), "C17:header-len", "%s: header len %zu, model %zu", opname, hl, md.h.size());
	VR_CHECK(bl == md.b.size(), "C17:body-len", "%s: body len %zu, model %zu", opname, bl, md.b.size());
	VR_CHECK(hl <= 64, "C17:header-cap", "%s: header len %zu > 64", opname, hl);
	VR_CHECK(nng_msg_capacity(m) >= bl, "C17:capacity", "%s: capacity %zu < len %zu", opname, nng_msg_capacity(m), bl);
	if (hl && memcmp(nng_msg_header(m), md.h.data(), hl) != 0)
		vr_fail("C17:header-content", "%s: header bytes differ from model", opname);
	if (bl && memcmp(nng_msg_body(m), md.b.data(), bl) != 0) {
		size_t i = 0;
		const uint8_t *p = (const uint8_t *) nng_msg_body(m);
		while (p[i] == md.b[i])
			i++;
		vr_fail("C17:body-content", "%s: body differs from model at offset %zu of %zu (got %02x want %02x)", opname,
		    i, bl, p[i], md.b[i]);
	}
}

int
exec_c17(const vcase *c)
{
	nng_msg *msg[3] = {nullptr, nullptr, nullptr};
	Model    md[3];
	for (int i = 0; i < c->nops; i++) {
		const vop *o = &c->ops[i];
		vr_at(i, o->name);
		std::string n = o->name;
		int         s = (int) vop_arg(o, 0, 0);
		if (s < 0 || s > 2)
			continue;
		long long a1 = vop_arg(o, 1, 0), a2 = vop_arg(o, 2, 0);
		if (n == "alloc") {
			if (md[s].live)
				continue;
			size_t sz = (size_t) a1;
			int    rv = nng_msg_alloc(&msg[s], sz);
			VR_CHECK(rv == 0, "C17:alloc-fail", "alloc(%zu) -> %d", sz, rv);
			VR_CHECK(nng_msg_len(msg[s]) == sz, "C17:alloc-len", "alloc(%zu) len %zu", sz, nng_msg_len(msg[s]));
			md[s]      = Model();
			md[s].live = true;
			md[s].b    = mk(a2, sz);
			if (sz)
				memcpy(nng_msg_body(msg[s]), md[s].b.data(), sz);
			if (sz >= 1024 && (sz & (sz - 1)) == 0)
				vr_tag("noheadroom_alloc");
			compare(msg[s], md[s], "alloc");
			continue;
		}
		if (!md[s].live)
			continue;
		nng_msg *m = msg[s];
		Model   &M = md[s];
		int      rv = 0, want = 0;
		if (n == "free") {
			nng_msg_free(m);
			msg[s]  = nullptr;
			M.live  = false;
			continue;
		} else if (n == "dup") {
			int d = (int) a1;
			if (d < 0 || d > 2 || md[d].live)
				continue;
			rv = nng_msg_dup(&msg[d], m);
			VR_CHECK(rv == 0, "C17:dup-fail", "dup -> %d", rv);
			md[d] = M;
			compare(msg[d], md[d], "dup(copy)");
			// independence: scribble over the copy, original must be unaffected (and vice versa below)
			if (nng_msg_len(msg[d]) > 0) {
				memset(nng_msg_body(msg[d]), 0xEE, nng_msg_len(msg[d]));
				std::fill(md[d].b.begin(), md[d].b.end(), 0xEE);
			}
			if (nng_msg_header_len(msg[d]) > 0) {
				memset(nng_msg_header(msg[d]), 0xDD, nng_msg_header_len(msg[d]));
				std::fill(md[d].h.begin(), md[d].h.end(), 0xDD);
			}
			compare(m, M, "dup(original after scribble)");
			vr_tag("dup");
			continue;
		} else if (n == "bapp") {
			bytes d = mk(a2, (size_t) a1);
			if (M.trimmed && nng_msg_capacity(m) < M.b.size() + d.size())
				vr_tag("grow_nonzero_off");
			rv = nng_msg_append(m, ptr(d), d.size());
			M.b.insert(M.b.end(), d.begin(), d.end());
		} else if (n == "bins") {
			bytes d = mk(a2, (size_t) a1);
			if (M.trimmed)
				vr_tag("ins_after_trim");
			if (d.size() > 32)
				vr_tag("ins_gt_headroom");
			rv = nng_msg_insert(m, ptr(d), d.size());
			M.b.insert(M.b.begin(), d.begin(), d.end());
		} else if (n == "btrim" || n == "bchop") {
			size_t k = (size_t) a1;
			rv       = n == "btrim" ? nng_msg_trim(m, k) : nng_msg_chop(m, k);
			if (k > M.b.size()) {
				want = NNG_EINVAL;
				vr_tag("fail_op");
			} else if (n == "btrim") {
				M.b.erase(M.b.begin(), M.b.begin() + k);
				if (k > 0 && !M.b.empty())
					M.trimmed = true;
			} else
				M.b.resize(M.b.size() - k);
		} else if (n == "happ" || n == "hins") {
			bytes d = mk(a2, (size_t) a1);
			rv = n == "happ" ? nng_msg_header_append(m, ptr(d), d.size())
			                 : nng_msg_header_insert(m, ptr(d), d.size());
			if (M.h.size() + d.size() > 64) {
				want = NNG_EINVAL;
				vr_tag("fail_op");
				vr_tag("header_overflow");
			} else if (n == "happ")
				M.h.insert(M.h.end(), d.begin(), d.end());
			else
				M.h.insert(M.h.begin(), d.begin(), d.end());
		} else if (n == "htrim" || n == "hchop") {
			size_t k = (size_t) a1;
			rv       = n == "htrim" ? nng_msg_header_trim(m, k) : nng_msg_header_chop(m, k);
			if (k > M.h.size()) {
				want = NNG_EINVAL;
				vr_tag("fail_op");
			} else if (n == "htrim")
				M.h.erase(M.h.begin(), M.h.begin() + k);
			else
				M.h.resize(M.h.size() - k);
		} else if (n == "bappu" || n == "binsu" || n == "happu" || n == "hinsu") {
			int                w = (int) a1;
			unsigned long long v = (unsigned long long) a2;
			bytes              d;
			be(d, v, w);
			bool hdr = n[0] == 'h', app = n[1] == 'a';
			if (hdr) {
				if (app)
					rv = w == 16 ? nng_msg_header_append_u16(m, (uint16_t) v)
					    : w == 32 ? nng_msg_header_append_u32(m, (uint32_t) v)
					              : nng_msg_header_append_u64(m, v);
				else
					rv = w == 16 ? nng_msg_header_insert_u16(m, (uint16_t) v)
					    : w == 32 ? nng_msg_header_insert_u32(m, (uint32_t) v)
					              : nng_msg_header_insert_u64(m, v);
				if (M.h.size() + d.size() > 64) {
					want = NNG_EINVAL;
					vr_tag("fail_op");
					vr_tag("header_overflow");
				} else if (app)
					M.h.insert(M.h.end(), d.begin(), d.end());
				else
					M.h.insert(M.h.begin(), d.begin(), d.end());
			} else {
				if (app)
					rv = w == 16 ? nng_msg_append_u16(m, (uint16_t) v)
					    : w == 32 ? nng_msg_append_u32(m, (uint32_t) v)
					              : nng_msg_append_u64(m, v);
				else {
					if (M.trimmed)
						vr_tag("ins_after_trim");
					rv = w == 16 ? nng_msg_insert_u16(m, (uint16_t) v)
					    : w == 32 ? nng_msg_insert_u32(m, (uint32_t) v)
					              : nng_msg_insert_u64(m, v);
				}
				if (app)
					M.b.insert(M.b.end(), d.begin(), d.end());
				else
					M.b.insert(M.b.begin(), d.begin(), d.end());
			}
			vr_tag("int_op");
		} else if (n == "btrimu" || n == "bchopu" || n == "htrimu" || n == "hchopu") {
			int      w   = (int) a1;
			bool     hdr = n[0] == 'h', trim = n[1] == 't';
			uint16_t v16 = 0;
			uint32_t v32 = 0;
			uint64_t v64 = 0;
			if (hdr) {
				if (trim)
					rv = w == 16 ? nng_msg_header_trim_u16(m, &v16)
					    : w == 32 ? nng_msg_header_trim_u32(m, &v32)
					              : nng_msg_header_trim_u64(m, &v64);
				else
					rv = w == 16 ? nng_msg_header_chop_u16(m, &v16)
					    : w == 32 ? nng_msg_header_chop_u32(m, &v32)
					              : nng_msg_header_chop_u64(m, &v64);
			} else {
				if (trim)
					rv = w == 16 ? nng_msg_trim_u16(m, &v16)
					    : w == 32 ? nng_msg_trim_u32(m, &v32)
					              : nng_msg_trim_u64(m, &v64);
				else
					rv = w == 16 ? nng_msg_chop_u16(m, &v16)
					    : w == 32 ? nng_msg_chop_u32(m, &v32)
					              : nng_msg_chop_u64(m, &v64);
			}
			bytes &S  = hdr ? M.h : M.b;
			size_t wb = w / 8;
			if (S.size() < wb) {
				want = NNG_EINVAL;
				vr_tag("fail_op");
			} else {
				unsigned long long exp = 0;
				size_t             off = trim ? 0 : S.size() - wb;
				for (size_t k = 0; k < wb; k++)
					exp = (exp << 8) | S[off + k];
				unsigned long long got = w == 16 ? v16 : w == 32 ? v32 : v64;
				VR_CHECK(rv != 0 || got == exp, "C17:int-value", "%s u%d got %llx want %llx", o->name, w, got, exp);
				if (trim) {
					S.erase(S.begin(), S.begin() + wb);
					if (!hdr && !S.empty())
						M.trimmed = true;
				} else
					S.resize(S.size() - wb);
			}
			vr_tag("int_op");
		} else if (n == "realloc") {
			size_t sz  = (size_t) a1;
			size_t old = M.b.size();
			if (M.trimmed && sz > nng_msg_capacity(m))
				vr_tag("grow_nonzero_off");
			rv = nng_msg_realloc(m, sz);
			M.b.resize(sz);
			if (rv == 0 && sz > old) {
				// contents of the grown region are unspecified: the application fills them
				for (size_t k = old; k < sz; k++)
					M.b[k] = pat(a2, k);
				memcpy((uint8_t *) nng_msg_body(m) + old, M.b.data() + old, sz - old);
			}
		} else if (n == "reserve") {
			size_t cap = (size_t) a1;
			if (M.trimmed && cap > nng_msg_capacity(m))
				vr_tag("grow_nonzero_off");
			rv = nng_msg_reserve(m, cap);
			VR_CHECK(rv != 0 || nng_msg_capacity(m) >= cap, "C17:reserve", "reserve(%zu) left capacity %zu", cap,
			    nng_msg_capacity(m));
		} else if (n == "clear") {
			nng_msg_clear(m);
			M.b.clear();
		} else if (n == "hclear") {
			nng_msg_header_clear(m);
			M.h.clear();
		} else
			continue;
		VR_CHECK(rv == want, "C17:retcode", "%s returned %d, model expects %d", o->name, rv, want);
		compare(m, M, o->name);
		// every byte of the stated capacity must be writable storage (ASan checks it)
		size_t cap = nng_msg_capacity(m), bl = nng_msg_len(m);
		if (cap > bl)
			memset((uint8_t *) nng_msg_body(m) + bl, 0xA5, cap - bl);
	}
	for (int s = 0; s < 3; s++)
		if (md[s].live) {
			compare(msg[s], md[s], "final");
			nng_msg_free(msg[s]);
		}
	return 0;
}

rc::Gen<long long>
genSize()
{
	using namespace rc;
	return gen::weightedOneOf<long long>({
	    {6, gen::element<long long>(0, 1, 2, 7, 8, 9, 24, 31, 32, 33, 40, 48, 63, 64, 65, 100, 200, 500)},
	    {2, gen::element<long long>(1000, 1023, 1024, 1025, 2047, 2048, 2049, 4096, 8192, 65536, 131072)},
	    {2, pbt::range<long long>(0, 3000)},
	});
}

rc::Gen<std::string>
genOp()
{
	using namespace rc;
	// state-independent op generator (the executor skips ops on dead slots), so that
	// rapidcheck can shrink by removing arbitrary ops
	return gen::exec([]() {
		std::ostringstream o;
		int                s = *pbt::range<int>(0, 2);
		int k = *gen::weightedElement<int>({{1, 0}, {2, 1}, {8, 2}, {10, 3}, {8, 4}, {5, 5}, {5, 6}, {5, 7}, {4, 8},
		    {4, 9}, {3, 10}, {3, 11}, {1, 12}, {1, 13}, {7, 14}});
		switch (k) {
		case 0: o << "free " << s; break;
		case 1: o << "dup " << s << " " << (s + 1 + *pbt::range<int>(0, 1)) % 3; break;
		case 2: o << "bapp " << s << " " << *genSize() << " " << *pbt::range<int>(0, 255); break;
		case 3: o << "bins " << s << " " << *genSize() << " " << *pbt::range<int>(0, 255); break;
		case 4: o << (*gen::arbitrary<bool>() ? "btrim " : "bchop ") << s << " " << *genSize(); break;
		case 5:
			o << (*gen::arbitrary<bool>() ? "happ " : "hins ") << s << " " << *pbt::range<int>(0, 70) << " "
			  << *pbt::range<int>(0, 255);
			break;
		case 6: o << (*gen::arbitrary<bool>() ? "htrim " : "hchop ") << s << " " << *pbt::range<int>(0, 70); break;
		case 7:
			o << *gen::element<std::string>("bappu", "binsu", "happu", "hinsu") << " " << s << " "
			  << *gen::element(16, 32, 64) << " " << *gen::arbitrary<uint64_t>();
			break;
		case 8:
			o << *gen::element<std::string>("btrimu", "bchopu", "htrimu", "hchopu") << " " << s << " "
			  << *gen::element(16, 32, 64);
			break;
		case 9: o << "realloc " << s << " " << *genSize() << " " << *pbt::range<int>(0, 255); break;
		case 10: o << "reserve " << s << " " << *genSize(); break;
		case 11: o << "btrim " << s << " " << *pbt::range<int>(1, 40); break;
		case 12: o << "clear " << s; break;
		case 13: o << "hclear " << s; break;
		case 14: o << "alloc " << s << " " << *genSize() << " " << *pbt::range<int>(0, 255); break;
		}
		return o.str();
	});
}

std::string
gen_c17()
{
	auto        ops = *rc::gen::container<std::vector<std::string>>(genOp());
	std::string t;
	for (auto &l : ops)
		t += l + "\n";
	return t;
}

} // namespace

#ifndef VERIF_FUZZ
int
main(int argc, char **argv)
{
	pbt::PropSpec sp;
	sp.id   = "C17";
	sp.gen  = gen_c17;
	sp.exec = exec_c17;
	sp.rule = "random op sequences (<=60 ops, <=3 live messages) over the whole nng_msg edit API with boundary-biased "
	          "sizes; non-trivial = case contains an insert after a trim (non-zero offset), a growth with data at a "
	          "non-zero offset, a no-headroom (power-of-two >= 1024) allocation, an insert larger than the headroom, "
	          "or an op that must fail; distinct by FNV-1a of the case text";
	sp.nontrivial = [](const std::set<std::string> &t) {
		return t.count("ins_after_trim") || t.count("grow_nonzero_off") || t.count("noheadroom_alloc") ||
		    t.count("fail_op") || t.count("ins_gt_headroom");
	};
	return pbt::pbt_main(argc, argv, sp);
}
#endif
