// C07: SURVEY - only responses to the current survey, only before its deadline; RESPONDENT replies
// only to the surveyor whose survey it most recently received.
// World 0: SURVEYOR socket + contexts under test against raw RESPONDENT wire peers, virtual clock
//          places responses and receives exactly around the deadline.
// World 1: RESPONDENT under test (shared replier world, same rules as REP).
#include "pbt.hpp"
#include "nngh.h"
#include "rawpeer.h"
#include "replier_world.hpp"
#include <deque>

namespace {

using replier::Bytes;
using replier::get32;
using replier::put32;

struct AioBox {
	nng_aio *aio  = nullptr;
	int      done = 0;
	uint64_t done_at = 0;
};
static void
box_cb(void *arg)
{
	AioBox *b = (AioBox *) arg;
	b->done++;
	b->done_at = vs_now();
}

struct SCtx {
	bool                 open = false;
	nng_ctx              ctx;
	bool                 live    = false; // a survey was sent and not ended by cancel/timeout/new survey
	uint32_t             tag     = 0;
	uint32_t             id      = 0, prev_id = 0;
	uint32_t             serial  = 0; // n-th survey sent on this socket (ids are issued sequentially)
	uint64_t             dl_lo = 0, dl_hi = 0; // deadline lies in [dl_lo, dl_hi] (virtual ms)
	int                  stime = 1000;
	std::deque<uint32_t> q;                    // accepted responses (tags) not yet received
	AioBox               rcv;
	bool                 rcv_pending = false;
	uint64_t             to_lo = 0, to_hi = 0; // window in which the pending receive may time out (own timeout or deadline)
	bool                 fuzzy = false;        // a response hit the deadline boundary: not judged until the next survey
	int                  last_tmo = -12345;    // timeout currently configured on the reused receive aio
};

struct SWorld {
	nng_socket   s;
	nng_listener l;
	SCtx         c[3];
	rp           peer[2];
	bool         up[2] = {false, false};
	uint32_t     seq = 0, rseq = 0, maxid = 0;
	uint32_t     nsurveys = 0;          // surveys sent so far (each consumes one id)
	uint32_t     base_id = 0, base_serial = 0; // one observed (id, serial) pair pins all the others
	int          accepted = 0, rejected = 0;
};

static void
s_peers_read(SWorld &W)
{
	for (int p = 0; p < 2; p++) {
		if (!W.up[p])
			continue;
		for (;;) {
			uint8_t *pl;
			size_t   pn;
			int      g = rp_recv_msg(&W.peer[p], &pl, &pn);
			VR_CHECK(g >= 0, "C07:wire-garbage", "SURVEYOR wrote a malformed frame");
			if (g == 0)
				break;
			VR_CHECK(pn == 8, "C07:wire-survey-shape", "survey frame of %zu bytes", pn);
			uint32_t id = get32(pl), tag = get32(pl + 4);
			free(pl);
			VR_CHECK(id & 0x80000000u, "C07:survey-id-bit", "survey id %x lacks the high bit", id);
			int k = (int) (tag >> 24);
			VR_CHECK(k >= 0 && k < 3, "C07:wire-body", "survey body corrupted (%x)", tag);
			W.maxid = std::max(W.maxid, id);
			if (W.c[k].open && W.c[k].tag == tag) {
				W.c[k].id = id;
				if (W.base_id == 0) {
					W.base_id     = id;
					W.base_serial = W.c[k].serial;
				} else
					VR_CHECK(id == W.base_id + (W.c[k].serial - W.base_serial) || id < 0x80000010u, "C07:id-sequence",
					    "survey ids are not sequential: serial %u has id %x, serial %u had %x", W.c[k].serial, id, W.base_serial, W.base_id);
			}
		}
		if (W.peer[p].eof) {
			rp_close(&W.peer[p]);
			W.up[p] = false;
		}
	}
}

// survey state of context k as seen at virtual time now: 1 definitely live, 0 definitely over, -1 boundary
static int
alive(SCtx &C, uint64_t now)
{
	if (!C.live)
		return 0;
	if (now < C.dl_lo)
		return 1;
	if (now > C.dl_hi)
		return 0;
	return -1; // the deadline millisecond itself: either outcome is acceptable
}

static void
finish_pending(SWorld &W, int k)
{
	SCtx &C = W.c[k];
	if (!(C.rcv_pending && C.rcv.done))
		return;
	C.rcv_pending = false;
	int rv        = nng_aio_result(C.rcv.aio);
	vr_trace("finish_pending ctx %d rv %d at %llu", k, rv, (unsigned long long) C.rcv.done_at);
	if (C.fuzzy) {
		if (rv == 0)
			nng_msg_free(nng_aio_get_msg(C.rcv.aio));
		else if (rv == NNG_ETIMEDOUT)
			C.live = false;
		return;
	}
	if (rv == 0) {
		nng_msg *m    = nng_aio_get_msg(C.rcv.aio);
		uint32_t body = nng_msg_len(m) >= 4 ? get32((uint8_t *) nng_msg_body(m)) : 0;
		VR_CHECK(!C.q.empty() && C.q.front() == body, "C07:wrong-response", "context %d: pending receive completed with %x, expected %x", k, body,
		    C.q.empty() ? 0 : C.q.front());
		VR_CHECK(C.rcv.done_at < C.dl_hi + 2, "C07:late-delivery", "context %d: receive completed with a response at %llu, deadline <= %llu", k,
		    (unsigned long long) C.rcv.done_at, (unsigned long long) C.dl_hi);
		C.q.pop_front();
		nng_msg_free(m);
		W.accepted++;
		vr_tag("response_received");
	} else if (rv == NNG_ETIMEDOUT) {
		VR_CHECK(C.rcv.done_at >= C.to_lo, "C07:early-timeout", "context %d: receive timed out at %llu, before its timeout / the survey deadline (>= %llu)", k,
		    (unsigned long long) C.rcv.done_at, (unsigned long long) C.to_lo);
		VR_CHECK(C.rcv.done_at <= C.to_hi + 25, "C07:late-timeout", "context %d: receive timed out at %llu, long after its timeout / the deadline (<= %llu)", k,
		    (unsigned long long) C.rcv.done_at, (unsigned long long) C.to_hi);
		C.live = false; // the survey is over
		C.q.clear();
		vr_tag("recv_timedout_at_deadline");
	} else
		vr_fail("C07:pending-recv-result", "context %d: pending receive finished with %d", k, rv);
}

int
exec_surveyor(const vcase *vc)
{
	SWorld W;
	H_OK(nng_surveyor0_open(&W.s));
	H_OK(nng_listener_create(&W.l, W.s, "socket://"));
	H_OK(nng_listener_start(W.l, 0));
	W.c[0].open = true;
	bool late_seen = false;
	for (int i = 2; i < vc->nops; i++) {
		const vop  *o = &vc->ops[i];
		std::string n = o->name;
		vr_at(i, o->name);
		int k = (int) vop_arg(o, 0, 0), a1 = (int) vop_arg(o, 1, 0), a2 = (int) vop_arg(o, 2, 0);
		for (int j = 0; j < 3; j++)
			if (W.c[j].open)
				finish_pending(W, j);
		if (n == "attach") {
			if (k < 0 || k > 1 || W.up[k])
				continue;
			H_OK(rp_attach_socket(&W.peer[k], W.l));
			uint16_t pp = 0;
			int      hr = rp_handshake(&W.peer[k], SP_RESPONDENT, &pp);
			VR_CHECK(hr == 0 && pp == SP_SURVEYOR, "harness:handshake", "surveyor wire handshake %d %x", hr, pp);
			vs_settle();
			W.up[k] = true;
			continue;
		}
		if (n == "detach") {
			if (k < 0 || k > 1 || !W.up[k])
				continue;
			s_peers_read(W);
			rp_close(&W.peer[k]);
			W.up[k] = false;
			vs_settle();
			continue;
		}
		if (n == "wait") { // wait ctx delta : sleep until deadline(ctx)+delta (if that is in the future), or plain ms when ctx<0
			if (k < 0) {
				vs_sleep(a1 > 0 ? a1 : 1);
			} else if (k < 3 && W.c[k].open && W.c[k].live) {
				uint64_t target = W.c[k].dl_lo + (uint64_t) (a1 + 16) - 16;
				if (target > vs_now())
					vs_sleep((int) (target - vs_now()));
				vr_tag("wait_near_deadline");
			}
			vs_settle();
			for (int j = 0; j < 3; j++)
				if (W.c[j].open)
					finish_pending(W, j);
			continue;
		}
		if (n == "resp") { // resp peer kind ctx
			int p = k;
			if (p < 0 || p > 1 || !W.up[p] || a2 < 0 || a2 > 2)
				continue;
			s_peers_read(W);
			if (!W.up[p])
				continue;
			// surveys that never reached a wire still own an id: derive it from the sequence
			if (W.base_id != 0)
				for (int j = 0; j < 3; j++)
					if (W.c[j].open && W.c[j].live && W.c[j].id == 0) {
						uint32_t pid = W.base_id + (W.c[j].serial - W.base_serial);
						if (pid >= 0x80000000u && pid >= W.base_id - 1000)
							W.c[j].id = pid;
					}
			SCtx    &C    = W.c[a2];
			uint32_t id   = 0;
			bool     shrt = false;
			int      dup  = 1;
			switch (a1) {
			case 0: id = C.id; break;
			case 1: id = C.prev_id; break;
			case 2: id = 0x80000000u | ((W.maxid + 9) & 0x7fffffffu); break;
			case 3: id = C.id & 0x7fffffffu; break;
			case 4: shrt = true; break;
			case 5: id = C.id; dup = 2; break;
			case 6:
				if (W.base_id == 0)
					continue;
				id = 0x80000000u | (((C.id ? C.id : W.maxid) + (uint32_t) (W.rseq % 5) - 2) & 0x7fffffffu);
				break;
			case 7: // a flood of responses to the current survey: the surveyor's queue (128) fills up exactly, or overflows
				id  = C.id;
				dup = 127 + (int) (W.rseq % 4);
				vr_tag("response_flood");
				break;
			default: continue;
			}
			if (!shrt && id == 0)
				continue;
			for (int d = 0; d < dup; d++) {
				Bytes    f;
				uint32_t rtag = 0x53000000u | ++W.rseq;
				if (shrt)
					f.assign((size_t) (a2 % 4), 0xCD);
				else {
					put32(f, id);
					put32(f, rtag);
				}
				uint64_t t_before = vs_now();
				int      wr       = rp_send_msg(&W.peer[p], f.data(), f.size());
				VR_CHECK(wr == 0, "harness:write", "raw response write failed %d", wr);
				vs_settle();
				uint64_t t_after = vs_now();
				if (shrt) {
					rp_pump(&W.peer[p]);
					VR_CHECK(W.peer[p].eof, "C07:malformed-response-not-disconnected", "peer that sent a %zu-byte response frame was not disconnected", f.size());
					rp_close(&W.peer[p]);
					W.up[p] = false;
					vr_tag("malformed_response");
					break;
				}
				// which context's current survey does it answer?
				int target = -1;
				for (int j = 0; j < 3; j++)
					if (W.c[j].open && W.c[j].live && W.c[j].id == id && W.c[j].id != 0)
						target = j;
				if (target >= 0 && W.c[target].fuzzy) {
					// not judged
				} else if (target >= 0) {
					SCtx &T = W.c[target];
					int   a0 = alive(T, t_before), a1x = alive(T, t_after);
					if (a0 == 1 && a1x == 1) {
						// (the surveyor buffers at most 128 unread responses per context; more are dropped whole)
						if (T.q.size() < 128 || T.rcv_pending)
							T.q.push_back(rtag);
						else
							vr_tag("response_queue_full");
						vr_tag("response_in_time");
					} else if (a0 == 0) {
						// arrived after the deadline: may be queued internally but can never be received
						W.rejected++;
						late_seen = true;
						vr_tag("response_late");
					} else {
						// boundary millisecond: either outcome is acceptable -> this context is not judged again
						// until its next survey (which flushes whatever nng holds)
						T.q.clear();
						T.fuzzy = true;
						vr_tag("response_at_boundary");
					}
				} else {
					W.rejected++;
					vr_tag("response_discarded");
					if (a1 == 1)
						vr_tag("stale_response");
				}
				for (int j = 0; j < 3; j++)
					if (W.c[j].open)
						finish_pending(W, j);
			}
			continue;
		}
		if (k < 0 || k > 2)
			continue;
		SCtx &C = W.c[k];
		if (n == "ctxopen") {
			if (k == 0 || C.open)
				continue;
			H_OK(nng_ctx_open(&C.ctx, W.s));
			C      = SCtx();
			C.open = true;
			nng_ctx_open(&C.ctx, W.s);
			C.stime = W.c[0].stime;
			vr_tag("ctx");
			continue;
		}
		if (!C.open)
			continue;
		if (n == "stime") {
			if (a1 < 1 || a1 > 5000)
				continue;
			int rv = k == 0 ? nng_socket_set_ms(W.s, NNG_OPT_SURVEYOR_SURVEYTIME, a1) : nng_ctx_set_ms(C.ctx, NNG_OPT_SURVEYOR_SURVEYTIME, a1);
			VR_CHECK(rv == 0, "C07:surveytime-set", "set SURVEYTIME -> %d", rv);
			C.stime = a1;
		} else if (n == "survey") {
			bool had = C.rcv_pending;
			if (C.id)
				C.prev_id = C.id;
			uint32_t tag = ((uint32_t) k << 24) | ++W.seq;
			nng_msg *m   = h_msg(tag, 0);
			nng_aio *a;
			H_OK(nng_aio_alloc(&a, NULL, NULL));
			nng_aio_set_timeout(a, 0);
			nng_aio_set_msg(a, m);
			uint64_t t_before = vs_now();
			if (k == 0)
				nng_socket_send(W.s, a);
			else
				nng_ctx_send(C.ctx, a);
			nng_aio_wait(a);
			uint64_t t_after = vs_now();
			VR_CHECK(nng_aio_result(a) == 0, "C07:survey-send", "survey send (zero timeout) -> %d: SURVEYOR send must never block", nng_aio_result(a));
			nng_aio_free(a);
			vs_settle();
			if (had) {
				VR_CHECK(C.rcv.done && nng_aio_result(C.rcv.aio) == NNG_ECANCELED, "C07:new-survey-cancels", "new survey did not cancel the pending receive (done %d)", C.rcv.done);
				C.rcv_pending = false;
			}
			if (C.live)
				vr_tag("superseded_survey");
			C.live   = true;
			C.fuzzy  = false;
			C.tag    = tag;
			C.id     = 0;
			C.serial = ++W.nsurveys;
			C.dl_lo = t_before + (uint64_t) C.stime;
			C.dl_hi = t_after + (uint64_t) C.stime;
			C.q.clear();
			s_peers_read(W);
		} else if (n == "recv") {
			if (C.rcv_pending)
				continue;
			nng_aio *a;
			H_OK(nng_aio_alloc(&a, NULL, NULL));
			nng_aio_set_timeout(a, 0);
			uint64_t t0 = vs_now();
			if (k == 0)
				nng_socket_recv(W.s, a);
			else
				nng_ctx_recv(C.ctx, a);
			nng_aio_wait(a);
			uint64_t t1 = vs_now();
			int      rv = nng_aio_result(a);
			int      s0 = alive(C, t0), s1 = alive(C, t1);
			uint32_t body = 0;
			nng_msg *m    = nullptr;
			if (rv == 0) {
				m    = nng_aio_get_msg(a);
				body = nng_msg_len(m) >= 4 ? get32((uint8_t *) nng_msg_body(m)) : 0;
			}
			VR_CHECK(t1 - t0 <= 3, "C07:nonblock-blocked", "non-blocking receive took %llu ms", (unsigned long long) (t1 - t0));
			if (C.fuzzy) {
				// not judged
			} else if (s0 == 1 && s1 == 1) {
				if (C.q.empty()) {
					if (rv == 0)
						vr_fail("C07:unexpected-response", "context %d received %x but no acceptable response is due (stale, foreign, duplicate or late)", k, body);
					VR_CHECK(rv == NNG_ETIMEDOUT, "C07:recv-code", "receive with live survey and nothing queued -> %d", rv);
				} else {
					VR_CHECK(rv == 0, "C07:response-lost", "context %d: response %x arrived in time but receive -> %d", k, C.q.front(), rv);
					VR_CHECK(body == C.q.front(), "C07:wrong-response", "context %d received %x, expected %x", k, body, C.q.front());
					C.q.pop_front();
					W.accepted++;
					vr_tag("response_received");
				}
			} else if (s0 == 0) {
				if (rv == 0)
					vr_fail("C07:received-after-deadline", "context %d received %x although its survey is over / no survey is live", k, body);
				VR_CHECK(rv == NNG_ESTATE, "C07:recv-no-survey", "receive with no live survey -> %d, expected NNG_ESTATE", rv);
				vr_tag("recv_estate");
				if (C.live)
					vr_tag("recv_after_deadline");
			} else {
				// boundary: ESTATE, ETIMEDOUT or a queued in-time response are all acceptable
				if (rv == 0 && !C.q.empty() && body == C.q.front())
					C.q.pop_front();
				else if (rv == 0)
					vr_fail("C07:unexpected-response", "context %d received %x at the deadline boundary, not the queued head", k, body);
			}
			if (m)
				nng_msg_free(m);
			nng_aio_free(a);
		} else if (n == "arecv") { // arecv ctx timeout(0 = infinite)
			vr_trace("arecv ctx %d tmo %d pending %d live %d now %llu dl [%llu,%llu] q %zu", k, a1, C.rcv_pending, C.live, (unsigned long long) vs_now(),
			    (unsigned long long) C.dl_lo, (unsigned long long) C.dl_hi, C.q.size());
			if (C.rcv_pending)
				continue;
			if (!C.rcv.aio)
				H_OK(nng_aio_alloc(&C.rcv.aio, box_cb, &C.rcv));
			C.rcv.done = 0;
			// like an application that configures its aio once and re-uses it: only touch the timeout when it changes
			if (C.last_tmo != a1) {
				nng_aio_set_timeout(C.rcv.aio, a1 > 0 ? a1 : NNG_DURATION_INFINITE);
				C.last_tmo = a1;
			} else
				vr_tag("aio_reused_same_timeout");
			uint64_t t0 = vs_now();
			if (k == 0)
				nng_socket_recv(W.s, C.rcv.aio);
			else
				nng_ctx_recv(C.ctx, C.rcv.aio);
			uint64_t t1 = vs_now(); // nng read the clock somewhere in [t0, t1]
			vs_settle();
			int s0 = alive(C, t0);
			if (s0 == 1 && alive(C, t1) != 1)
				s0 = -1; // submitted in the boundary window: not judged
			C.to_lo = C.dl_lo;
			C.to_hi = C.dl_hi;
			if (a1 > 0) {
				C.to_lo = std::min(C.to_lo, t0 + (uint64_t) a1);
				C.to_hi = std::min(C.to_hi, t1 + (uint64_t) a1);
			}
			if (C.fuzzy)
				s0 = -1;
			if (s0 == 0) {
				VR_CHECK(C.rcv.done && nng_aio_result(C.rcv.aio) == NNG_ESTATE, "C07:recv-no-survey", "receive with no live survey: done %d rv %d", C.rcv.done,
				    C.rcv.done ? nng_aio_result(C.rcv.aio) : -1);
				vr_tag("recv_estate");
			} else if (s0 == 1) {
				C.rcv_pending = true;
				if (!C.q.empty()) {
					VR_CHECK(C.rcv.done, "C07:response-lost", "queued response %x not handed to receive", C.q.front());
					finish_pending(W, k);
				} else if (a1 > 0 && t0 + (uint64_t) a1 + 2 < C.dl_lo) {
					// own timeout shorter than the survey: expires on its own schedule and ends the survey (cancel path)
					vs_sleep(a1 + 3);
					vs_settle();
					VR_CHECK(C.rcv.done && nng_aio_result(C.rcv.aio) == NNG_ETIMEDOUT, "C07:recv-own-timeout", "receive with %d ms timeout: done %d", a1, C.rcv.done);
					VR_CHECK(C.rcv.done_at >= t0 + (uint64_t) a1, "C07:early-timeout", "receive timed out after %llu ms, timeout %d",
					    (unsigned long long) (C.rcv.done_at - t0), a1);
					C.rcv_pending = false;
					C.live        = false; // a timed-out receive abandons the survey
					C.q.clear();
					vr_tag("recv_own_timeout");
				} else
					vr_tag("pending_recv");
			} else {
				// boundary: let it resolve, do not judge
				vs_sleep(5);
				vs_settle();
				if (C.rcv.done) {
					if (nng_aio_result(C.rcv.aio) == 0)
						nng_msg_free(nng_aio_get_msg(C.rcv.aio));
				} else {
					nng_aio_cancel(C.rcv.aio);
					nng_aio_wait(C.rcv.aio);
				}
				C.live = false;
				C.q.clear();
			}
		} else if (n == "crowd") { // crowd ctx n : n receives pending on one live survey; at its deadline every one of them must fail with NNG_ETIMEDOUT
			int cn = a1 < 2 ? 2 : (a1 > 140 ? 140 : a1);
			uint64_t t0 = vs_now();
			if (C.rcv_pending || C.fuzzy || !C.q.empty() || alive(C, t0) != 1 || t0 + 8 >= C.dl_lo)
				continue;
			std::vector<AioBox> boxes((size_t) cn);
			for (auto &b : boxes) {
				H_OK(nng_aio_alloc(&b.aio, box_cb, &b));
				nng_aio_set_timeout(b.aio, NNG_DURATION_INFINITE);
				if (k == 0)
					nng_socket_recv(W.s, b.aio);
				else
					nng_ctx_recv(C.ctx, b.aio);
			}
			vs_settle();
			uint64_t now = vs_now();
			if (now < C.dl_hi + 6)
				vs_sleep((int) (C.dl_hi + 6 - now));
			vs_settle();
			int pending = 0, wrong = 0, early = 0;
			for (auto &b : boxes) {
				if (!b.done)
					pending++;
				else if (nng_aio_result(b.aio) != NNG_ETIMEDOUT) {
					wrong++;
					if (nng_aio_result(b.aio) == 0)
						nng_msg_free(nng_aio_get_msg(b.aio));
				} else if (b.done_at + 1 < C.dl_lo)
					early++;
			}
			vr_trace("crowd of %d: pending %d wrong %d early %d", cn, pending, wrong, early);
			int rv_first = boxes[0].done ? nng_aio_result(boxes[0].aio) : -1;
			for (auto &b : boxes) {
				if (!b.done) {
					nng_aio_cancel(b.aio);
					nng_aio_wait(b.aio);
				}
				nng_aio_free(b.aio);
			}
			// (a second concurrent receive refused with NNG_ESTATE is the other legal design: then exactly the first one waits)
			VR_CHECK(pending == 0, "C07:recv-survives-deadline", "%d of %d receives pending on one survey were still pending %d ms after its deadline", pending, cn, 6);
			VR_CHECK(wrong == 0 || rv_first == NNG_ETIMEDOUT, "C07:recv-survives-deadline", "%d of %d receives pending at the deadline ended with something else than NNG_ETIMEDOUT (first: %d)", wrong, cn, rv_first);
			VR_CHECK(early == 0, "C07:early-timeout", "%d of %d receives timed out before the survey deadline", early, cn);
			C.live = false;
			C.q.clear();
			if (cn > 100)
				vr_tag("crowd_over_100_at_deadline");
			vr_tag("crowd_at_deadline");
		} else if (n == "cancel") {
			if (!C.rcv_pending)
				continue;
			nng_aio_cancel(C.rcv.aio);
			nng_aio_wait(C.rcv.aio);
			int rv = nng_aio_result(C.rcv.aio);
			if (rv == 0) {
				C.rcv.done = 1;
				finish_pending(W, k);
			} else {
				VR_CHECK(rv == NNG_ECANCELED || rv == NNG_ETIMEDOUT, "C07:cancel-result", "cancelled receive -> %d", rv);
				C.rcv_pending = false;
				C.live        = false; // cancelling the receive abandons the survey
				C.q.clear();
				vr_tag("cancelled");
			}
		}
	}
	if (W.accepted && W.rejected)
		vr_tag("accepted_and_rejected");
	if (W.accepted && late_seen)
		vr_tag("accepted_and_late");
	for (int k = 0; k < 3; k++) {
		SCtx &C = W.c[k];
		if (!C.open)
			continue;
		if (C.rcv.aio) {
			// (never cancel a completed aio: a late nng_aio_cancel overwrites the stored result, see C02)
			if (C.rcv_pending && !C.rcv.done) {
				nng_aio_cancel(C.rcv.aio);
				nng_aio_wait(C.rcv.aio);
			}
			nng_aio_wait(C.rcv.aio);
			if (C.rcv_pending && nng_aio_result(C.rcv.aio) == 0)
				nng_msg_free(nng_aio_get_msg(C.rcv.aio));
			nng_aio_free(C.rcv.aio);
		}
		if (k)
			nng_ctx_close(C.ctx);
	}
	for (int p = 0; p < 2; p++)
		if (W.up[p])
			rp_close(&W.peer[p]);
	nng_socket_close(W.s);
	return 0;
}

static const replier::Flavor kRespFlavor = {"C07", nng_respondent0_open, SP_SURVEYOR, SP_RESPONDENT};

int
exec_c07(const vcase *vc)
{
	h_cfg cfg;
	if (vc->nops < 2 || strcmp(vc->ops[0].name, "cfg") != 0 || strcmp(vc->ops[1].name, "world") != 0)
		return 0;
	h_cfg_from_op(&cfg, &vc->ops[0]);
	int w = (int) vop_arg(&vc->ops[1], 0, 0);
	if (h_begin(&cfg) != 0)
		return 0;
	vr_tagf("world%d", w);
	int rv = w == 0 ? exec_surveyor(vc) : replier::exec_rep(vc, &kRespFlavor);
	h_end();
	return rv;
}

using namespace rc;

Gen<std::string>
genSurvOp()
{
	return gen::exec([]() {
		std::ostringstream o;
		int k = *gen::weightedElement<int>({{4, 0}, {3, 1}, {2, 2}});
		int t = *gen::weightedElement<int>({{8, 0}, {12, 1}, {8, 2}, {7, 3}, {2, 4}, {6, 5}, {2, 6}, {1, 7}, {2, 8}, {4, 9}, {1, 10}, {1, 11}});
		switch (t) {
		case 11: // many receives pending on one survey when its deadline arrives (more than the expire thread handles in one batch)
			o << "stime " << k << " " << *gen::element(20, 50) << "\nsurvey " << k << "\ncrowd " << k << " " << *gen::element(3, 60, 101, 120, 130);
			break;
		case 10: // the queue of unread responses fills up (exactly, or beyond), then a new survey: only its own response may come out
			o << "stime " << k << " 500\nsurvey " << k << "\nresp " << *pbt::range<int>(0, 1) << " 7 " << k << "\nsurvey " << k << "\nresp " << *pbt::range<int>(0, 1) << " 0 " << k << "\nrecv " << k << "\nrecv " << k;
			break;
		case 0: o << "survey " << k; break;
		case 1: o << "resp " << *pbt::range<int>(0, 1) << " " << *gen::weightedElement<int>({{10, 0}, {4, 1}, {2, 2}, {2, 3}, {1, 4}, {3, 5}, {4, 6}}) << " " << k; break;
		case 2: o << "recv " << k; break;
		case 3: o << "arecv " << k << " " << *gen::element(0, 5, 30, 30, 60, 200); break;
		case 4: o << "cancel " << k; break;
		case 5: o << "wait " << k << " " << *gen::element(-3, -2, -1, 0, 1, 2, 6); break;
		case 6: o << "wait -1 " << *gen::element(1, 7, 40); break;
		case 7: o << "detach " << *pbt::range<int>(0, 1); break;
		case 8: o << "attach " << *pbt::range<int>(0, 1); break;
		case 9: o << "stime " << k << " " << *gen::element(20, 50, 120, 500); break;
		}
		return o.str();
	});
}

Gen<std::string>
genRespOp()
{
	return gen::exec([]() {
		std::ostringstream o;
		int k = *gen::weightedElement<int>({{4, 0}, {2, 1}, {1, 2}});
		int p = *pbt::range<int>(0, 2);
		int t = *gen::weightedElement<int>({{12, 0}, {10, 1}, {8, 2}, {3, 3}, {1, 4}, {2, 5}, {1, 6}, {1, 7}, {2, 8}});
		switch (t) {
		case 0: o << "req " << p << " " << *gen::weightedElement<int>({{6, 0}, {3, 1}, {2, 2}, {1, 6}, {1, 7}, {1, 8}, {1, 14}, {1, 15}}); break;
		case 1: o << "recv " << k; break;
		case 2: o << "send " << k << " " << *pbt::welem<int>({{4, 0}, {1, 1}, {1, 2}}) << " " << *pbt::range<int>(0, 1); break;
		case 3: o << "attach " << p; break;
		case 4: o << "detach " << p; break;
		case 5: o << "ctxopen " << *pbt::range<int>(1, 2); break;
		case 6: o << "ttl " << *gen::element(1, 2, 3, 8, 15); break;
		case 7: o << "badreq " << p << " " << *pbt::range<int>(0, 2); break;
		case 8: o << "jamrep " << *pbt::range<int>(2, 4) << " " << *pbt::range<int>(0, 4); break;
		}
		return o.str();
	});
}

std::string
gen_c07()
{
	std::ostringstream t;
	int mode = *pbt::welem<int>({{3, 0}, {2, 1}, {2, 2}, {1, 3}});
	int w    = *pbt::welem<int>({{3, 0}, {1, 1}});
	t << "cfg " << *pbt::range<int>(1, 1000000) << " " << mode << " " << (mode == 3 ? *gen::element(5, 20, 50) : *gen::element(10, 30, 60)) << " " << *pbt::range<int>(1, 3) << " " << (mode == 3 ? *gen::element(60, 150, 400) : 600) << " 0\n";
	t << "world " << w << "\n";
	if (*pbt::welem<int>({{1, 0}, {6, 1}}))
		t << "attach 0\n";
	if (w == 0) {
		t << "stime 0 " << *gen::element(20, 50, 120) << "\n";
		if (*pbt::welem<int>({{1, 0}, {1, 1}}))
			t << "ctxopen 1\n";
	}
	auto ops = *gen::container<std::vector<std::string>>(w == 0 ? genSurvOp() : genRespOp());
	for (auto &l : ops)
		t << l << "\n";
	return t.str();
}

} // namespace

int
main(int argc, char **argv)
{
	pbt::PropSpec sp;
	sp.id   = "C07";
	sp.gen  = gen_c07;
	sp.exec = exec_c07;
	sp.rule = "world 0: a SURVEYOR socket with up to 2 extra contexts (SURVEYTIME 20..500 ms) against 1-2 raw RESPONDENT wire peers; surveys, "
	          "non-blocking / pending / timed receives, cancels, new surveys, responses with the current, previous, never-issued, neighbouring, "
	          "bit-stripped, duplicated or malformed id, and virtual waits landing at deadline-3..+6 ms; model: responses are receivable iff "
	          "they answer that context's live survey and arrived before its deadline (the boundary millisecond is not judged), ETIMEDOUT at "
	          "the deadline, ESTATE without a live survey. world 1: RESPONDENT with contexts against raw SURVEYOR peers (same replier model "
	          "as REP). Non-trivial = >= 1 response received and >= 1 rejected (stale/foreign/late), or a receive timing out at the deadline; "
	          "distinct by case hash";
	sp.nontrivial = [](const std::set<std::string> &t) {
		return t.count("accepted_and_rejected") || t.count("accepted_and_late") || t.count("recv_timedout_at_deadline") ||
		    (t.count("two_exchanges") && t.count("backtrace"));
	};
	return pbt::pbt_main(argc, argv, sp);
}
