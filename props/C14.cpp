// C14: pipe events are ordered; dialers redial; listeners keep accepting.
// One nng socket (BUS / PULL / PUB) with generated listeners (socket-fd / ipc / tcp) and dialers towards raw
// stream listeners owned by the harness.  Raw peers connect, complete or sabotage the SP handshake, drop
// connections; the application rejects pipes inside ADD_PRE by a generated pattern, closes pipes and
// endpoints; the raw listeners a dialer talks to come and go.  The virtual clock turns "dials again after a
// randomised delay no longer than the larger reconnect time" into bounded obligations on the connection
// attempts the raw listener observes.
#include "pbt.hpp"
#include "nngh.h"
#include "rawpeer.h"
#include <deque>
#include <map>
#include <unistd.h>

namespace {

enum { HS_GOOD = 0, HS_GARBAGE = 1, HS_CLOSE = 2, HS_PARTIAL = 3, HS_WRONGPROTO = 4 };

struct Conn {
	rp       r;
	int      owner_l = -1, owner_d = -1; // connected to S's listener l / accepted from S's dialer d
	int      hs      = HS_GOOD;
	bool     hs_ok   = false; // nng's hello was received
	bool     closed_by_us = false;
	bool     eof_seen     = false;
	size_t   rx_total     = 0; // bytes received in all (kept when the descriptor is closed)
	uint64_t t_open = 0;
};

struct Lis {
	nng_listener l;
	int          kind;
	std::string  path;
	int          port = 0;
	bool         open = true;
};

struct Dia {
	nng_dialer  d;
	int         kind; // RP_IPC / RP_TCP
	std::string path;
	int         port = 0;
	int         lfd  = -1;
	int         mint, maxt;
	int         policy = HS_GOOD;
	bool        open   = true;
	uint64_t    due    = 0; // a connection attempt must be observed by then (0 = no obligation)
	const char *why    = "";
	int         attempts = 0;
	uint64_t    last_attempt = 0;
};

struct PipeRec {
	uint32_t id;
	int      last = 0; // 0 none, 1 ADD_PRE, 2 ADD_POST, 3 REM_POST
	bool     post = false, rejected = false;
	int      dialer_id = 0;
	int      listener_id = 0;
};

struct World {
	nng_socket              s;
	int                     proto = 0;
	uint16_t                rawproto = SP_BUS;
	std::deque<Lis>         lis;
	std::deque<Dia>         dia;
	std::deque<Conn>        conns;
	std::map<uint32_t, PipeRec> pipes;
	std::vector<uint32_t>   order; // pipe ids in ADD_PRE order
	int                     reject_mode = 0;
	int                     npre = 0;
	bool                    registered = false;
	bool                    late = false; // callbacks registered after connections may already exist: per-dialer pipe knowledge is incomplete
	bool                    sock_open  = true;
	const char             *ev_fail = nullptr;
	char                    ev_msg[200];
	int                     nrejected = 0, nposted = 0;
	// inproc: dialers of S towards an address on which a harness-owned peer socket listens (or not)
	struct IDia {
		nng_dialer d;
		int        id = 0;
		int        mint = 10, maxt = 0;
		bool       open = true;
		int        attempts = 0; // pipes announced (ADD_PRE) for this dialer
		uint64_t   due = 0;
	};
	std::deque<IDia> idia;
	nng_socket       ipeer;
	bool             ipeer_open = false;
	nng_listener     ilis;
	bool             ilistening = false;
	std::string      iurl;
};

static void
ev_fail(World *W, const char *sig, const char *fmt, ...)
{
	if (W->ev_fail)
		return;
	va_list ap;
	va_start(ap, fmt);
	vsnprintf(W->ev_msg, sizeof W->ev_msg, fmt, ap);
	va_end(ap);
	W->ev_fail = sig;
}

static void
pipe_cb(nng_pipe p, nng_pipe_ev ev, void *arg)
{
	World   *W  = (World *) arg;
	uint32_t id = (uint32_t) nng_pipe_id(p);
	int      e  = ev == NNG_PIPE_EV_ADD_PRE ? 1 : ev == NNG_PIPE_EV_ADD_POST ? 2 : 3;
	auto     it = W->pipes.find(id);
	if (it == W->pipes.end()) {
		if (e != 1) {
			ev_fail(W, "C14:event-without-add-pre", "pipe %u: %s delivered but ADD_PRE never was", id, e == 2 ? "ADD_POST" : "REM_POST");
			return;
		}
		PipeRec r;
		r.id          = id;
		r.dialer_id   = nng_dialer_id(nng_pipe_dialer(p));
		r.listener_id = nng_listener_id(nng_pipe_listener(p));
		it            = W->pipes.emplace(id, r).first;
		W->order.push_back(id);
	}
	PipeRec &r = it->second;
	if (e <= r.last) {
		ev_fail(W, "C14:event-order", "pipe %u: event %d delivered after event %d", id, e, r.last);
		return;
	}
	r.last = e;
	if (e == 1) {
		// a dialer owns at most one pipe at a time
		if (r.dialer_id > 0)
			for (auto &q : W->pipes)
				if (q.second.id != id && q.second.dialer_id == r.dialer_id && q.second.last != 3)
					ev_fail(W, "C14:dialer-two-pipes", "dialer %d: pipe %u announced while its pipe %u has not been removed", r.dialer_id, id, q.second.id);
		W->npre++;
		for (auto &I : W->idia)
			if (I.id == r.dialer_id && r.dialer_id > 0) {
				I.attempts++;
				I.due = 0;
			}
		bool rej = false;
		switch (W->reject_mode) {
		case 1: rej = true; break;
		case 2: rej = (W->npre % 2) == 0; break;
		case 3: rej = W->npre == 1; break;
		case 4: rej = r.dialer_id > 0; break; // every dialed pipe, no accepted one
		default: break;
		}
		if (rej) {
			r.rejected = true;
			W->nrejected++;
			nng_pipe_close(p);
		}
	}
	if (e == 2) {
		r.post = true;
		W->nposted++;
		if (r.rejected)
			ev_fail(W, "C14:add-post-after-reject", "pipe %u was closed inside ADD_PRE but ADD_POST was delivered", id);
	}
}

// the peer socket's ADD_PRE callback dawdles: while it runs, the inproc listener has no accept outstanding and further
// connects queue up behind it
static bool g_slow_peer_cb = false; // only while an "ilisten 3" race is in progress (pipe callbacks are serialised process-wide)
static void
ipeer_cb(nng_pipe, nng_pipe_ev, void *)
{
	if (!g_slow_peer_cb)
		return;
	for (int i = 0; i < 3; i++)
		vs_yield();
	vs_sleep(3); // (a slow application callback: 3 virtual ms)
}

struct ICloser {
	World *W;
	int    after;
};
static void
icloser_main(void *arg)
{
	ICloser *C = (ICloser *) arg;
	if (C->after > 0)
		vs_sleep(C->after);
	nng_listener_close(C->W->ilis);
}

static void
reg(World *W)
{
	H_OK(nng_pipe_notify(W->s, NNG_PIPE_EV_ADD_PRE, pipe_cb, W));
	H_OK(nng_pipe_notify(W->s, NNG_PIPE_EV_ADD_POST, pipe_cb, W));
	H_OK(nng_pipe_notify(W->s, NNG_PIPE_EV_REM_POST, pipe_cb, W));
	W->registered = true;
}

static int
bound_of(const Dia &D)
{
	return std::max(D.mint, D.maxt) + 40;
}

static bool
dialer_has_live_conn(World *W, int di)
{
	for (auto &c : W->conns)
		if (c.owner_d == di && !c.closed_by_us && !c.eof_seen)
			return true;
	return false;
}

static void
oblige(World *W, int di, const char *why)
{
	Dia &D = W->dia[di];
	if (!D.open || D.lfd < 0 || !W->sock_open || dialer_has_live_conn(W, di))
		return;
	if (D.due == 0) {
		D.due = vs_now() + (uint64_t) bound_of(D);
		D.why = why;
	}
}

// write the handshake variant on a fresh connection
static void
play_handshake(World *W, Conn &c)
{
	uint8_t hello[8];
	switch (c.hs) {
	case HS_GOOD: {
		uint16_t pp = 0;
		if (rp_handshake(&c.r, W->rawproto, &pp) == 0)
			c.hs_ok = true;
		break;
	}
	case HS_GARBAGE:
		memset(hello, 0xa5, sizeof hello);
		rp_write(&c.r, hello, 8);
		break;
	case HS_CLOSE:
		rp_close(&c.r);
		c.closed_by_us = true;
		break;
	case HS_PARTIAL:
		rp_hello(hello, W->rawproto);
		rp_write(&c.r, hello, 5);
		break;
	case HS_WRONGPROTO:
		rp_hello(hello, (uint16_t) (W->rawproto == SP_BUS ? SP_PAIR0 : SP_BUS));
		rp_write(&c.r, hello, 8);
		break;
	}
	vs_settle();
}

// service the raw side: EOFs, accepts on the dialers' listeners
static void
service(World *W)
{
	vs_settle();
	for (auto &c : W->conns) {
		if (c.closed_by_us || c.eof_seen)
			continue;
		rp_pump(&c.r);
		c.rx_total = c.r.rxlen;
		if (c.r.eof) {
			c.eof_seen = true;
			rp_close(&c.r);
			vr_trace("t=%llu eof on conn of d=%d l=%d", (unsigned long long) vs_now(), c.owner_d, c.owner_l);
			if (c.owner_d >= 0)
				oblige(W, c.owner_d, "nng closed the dialed connection");
		}
	}
	for (size_t di = 0; di < W->dia.size(); di++) {
		Dia &D = W->dia[di];
		if (D.lfd < 0)
			continue;
		// (at most two accepts per round: a dialer whose pipes are all rejected redials without pause)
		for (int round = 0; round < 2; round++) {
			if (W->conns.size() >= 150) {
				// a redial storm filled the case: stop listening, nothing more is judged for this dialer
				close(D.lfd);
				D.lfd = -1;
				D.due = 0;
				vr_tag("storm_capped");
				break;
			}
			W->conns.emplace_back();
			Conn &c = W->conns.back();
			if (rp_accept(&c.r, D.lfd, D.kind) != 0) {
				W->conns.pop_back();
				break;
			}
			c.owner_d = (int) di;
			c.hs      = D.policy;
			c.t_open  = vs_now();
			D.attempts++;
			D.last_attempt = vs_now();
			vr_trace("t=%llu attempt #%d from dialer %d (policy %d)", (unsigned long long) vs_now(), D.attempts, (int) di, D.policy);
			D.due          = 0;
			vr_count(0, 1);
			play_handshake(W, c);
			if (c.closed_by_us)
				oblige(W, (int) di, "raw listener closed the accepted connection");
		}
	}
	// obligations
	for (size_t di = 0; di < W->dia.size(); di++) {
		Dia &D = W->dia[di];
		if (D.due != 0 && (!D.open || D.lfd < 0 || !W->sock_open))
			D.due = 0;
		if (D.due != 0 && vs_now() > D.due) {
			vr_fail("C14:no-redial", "dialer %d (reconnect min %d max %d ms): %s at or before %llu, no connection attempt reached the raw listener by %llu (%d attempts so far, last at %llu)",
			    (int) di, D.mint, D.maxt, D.why, (unsigned long long) (D.due - bound_of(D)), (unsigned long long) vs_now(), D.attempts, (unsigned long long) D.last_attempt);
		}
	}
	for (size_t k = 0; k < W->idia.size(); k++) {
		auto &I = W->idia[k];
		if (I.due != 0 && (!I.open || !W->ilistening || !W->sock_open || !W->registered))
			I.due = 0;
		if (I.due != 0 && vs_now() > I.due)
			vr_fail("C14:no-redial", "inproc dialer %d (reconnect min %d max %d ms): a listener has been up on its address since %llu or earlier, but no new pipe was announced by %llu (%d so far)",
			    (int) k, I.mint, I.maxt, (unsigned long long) (I.due - (uint64_t) (std::max(I.mint, I.maxt) + 40)), (unsigned long long) vs_now(), I.attempts);
	}
	if (W->ev_fail)
		vr_fail(W->ev_fail, "%s", W->ev_msg);
}

static bool
idialer_has_live_pipe(World *W, int id)
{
	for (auto &q : W->pipes)
		if (q.second.dialer_id == id && q.second.last != 3)
			return true;
	return false;
}

static void
ioblige(World *W)
{
	if (!W->ilistening || !W->registered || W->late)
		return;
	for (auto &I : W->idia)
		if (I.open && I.due == 0 && !idialer_has_live_pipe(W, I.id))
			I.due = vs_now() + (uint64_t) (std::max(I.mint, I.maxt) + 40);
}

static void
wait_ms(World *W, int ms)
{
	for (int i = 0; i < ms; i++) {
		vs_sleep(1);
		service(W);
	}
}

static void
drain_app(World *W)
{
	for (;;) {
		nng_msg *m = nullptr;
		if (nng_recvmsg(W->s, &m, NNG_FLAG_NONBLOCK) != 0)
			break;
		uint32_t pid = (uint32_t) nng_pipe_id(nng_msg_get_pipe(m));
		auto     it  = W->pipes.find(pid);
		vr_tag("app_received");
		if (it != W->pipes.end() && it->second.rejected)
			vr_fail("C14:rejected-pipe-carried-message", "the application received a message from pipe %u, which it closed inside ADD_PRE", pid);
		// (a message can be received between the protocol's pipe_start and the ADD_POST callback that follows it: the manual
		// page says otherwise, the listed property does not, so this is only counted)
		if (it != W->pipes.end() && !it->second.post)
			vr_tag("message_before_add_post");
		nng_msg_free(m);
	}
}

static void
diag_tcp(Lis &L)
{
	int bound = -1;
	int rv    = nng_listener_get_int(L.l, NNG_OPT_BOUND_PORT, &bound);
	fprintf(stderr, "DIAG listener port=%d bound-port rv=%d port=%d\n", L.port, rv, bound);
	FILE *f = fopen("/proc/net/tcp", "r");
	char  line[256], want[16];
	snprintf(want, sizeof want, ":%04X ", L.port);
	while (f && fgets(line, sizeof line, f))
		if (strstr(line, want))
			fprintf(stderr, "DIAG %s", line);
	if (f)
		fclose(f);
}

int
exec_c14(const vcase *vc)
{
	h_cfg cfg;
	if (vc->nops < 2 || strcmp(vc->ops[0].name, "cfg") != 0 || strcmp(vc->ops[1].name, "world") != 0)
		return 0;
	h_cfg_from_op(&cfg, &vc->ops[0]);
	cfg.task_threads = 3;
	const vop *wo    = &vc->ops[1];
	World      W;
	W.proto       = (int) vop_arg(wo, 0, 0);
	int late      = (int) vop_arg(wo, 1, 0);
	W.reject_mode = (int) vop_arg(wo, 2, 0);
	if (W.proto < 0 || W.proto > 2 || W.reject_mode < 0 || W.reject_mode > 4)
		return 0;
	if (h_begin(&cfg) != 0)
		return 0;
	switch (W.proto) {
	case 0: H_OK(nng_bus0_open(&W.s)); W.rawproto = SP_BUS; vr_tag("proto_bus"); break;
	case 1: H_OK(nng_pull0_open(&W.s)); W.rawproto = SP_PUSH; vr_tag("proto_pull"); break;
	default: H_OK(nng_pub0_open(&W.s)); W.rawproto = SP_SUB; vr_tag("proto_pub"); break;
	}
	W.late = late != 0;
	if (!late)
		reg(&W);
	else
		vr_tag("late_registration");
	vr_tagf("reject_mode_%d", W.reject_mode);
	char buf[128];
	bool all_rejected_from_start = !late && W.reject_mode == 1;

	for (int i = 2; i < vc->nops; i++) {
		const vop  *o = &vc->ops[i];
		const char *n = o->name;
		vr_at(i, n);
		if (strcmp(n, "lis") == 0 && W.lis.size() < 3 && W.sock_open) {
			Lis L;
			L.kind = (int) vop_arg(o, 0, 1);
			if (L.kind < 0 || L.kind > 2)
				continue;
			if (L.kind == RP_SOCKET)
				snprintf(buf, sizeof buf, "socket://");
			else if (L.kind == RP_IPC) {
				snprintf(buf, sizeof buf, "/tmp/verif-c14-l%d-%d", (int) W.lis.size(), (int) getpid());
				L.path = buf;
				unlink(buf);
				snprintf(buf, sizeof buf, "ipc://%s", L.path.c_str());
			} else {
				snprintf(buf, sizeof buf, "tcp://127.0.0.1:0");
			}
			if (nng_listen(W.s, buf, &L.l, 0) != 0)
				continue;
			if (L.kind == RP_TCP)
				H_OK(nng_listener_get_int(L.l, NNG_OPT_BOUND_PORT, &L.port));
			W.lis.push_back(L);
		} else if (strcmp(n, "dial") == 0 && W.dia.size() < 3 && W.sock_open) {
			Dia D;
			D.kind = (int) vop_arg(o, 0, 1) == 2 ? RP_TCP : RP_IPC;
			D.mint = (int) vop_arg(o, 1, 10);
			D.maxt = (int) vop_arg(o, 2, 0);
			if (D.mint < 1 || D.mint > 500 || D.maxt < 0 || D.maxt > 500)
				continue;
			bool listening = vop_arg(o, 3, 1) != 0;
			if (D.kind == RP_IPC) {
				snprintf(buf, sizeof buf, "/tmp/verif-c14-d%d-%d", (int) W.dia.size(), (int) getpid());
				D.path = buf;
				unlink(buf);
				if (listening)
					D.lfd = rp_listen_ipc(buf);
				snprintf(buf, sizeof buf, "ipc://%s", D.path.c_str());
			} else {
				D.lfd = rp_listen_tcp(&D.port);
				if (D.lfd < 0)
					continue; // (no port to be had: not the subject)
				if (!listening) {
					close(D.lfd);
					D.lfd = -1;
				}
				snprintf(buf, sizeof buf, "tcp://127.0.0.1:%d", D.port);
			}
			if (nng_dialer_create(&D.d, W.s, buf) != 0) {
				if (D.lfd >= 0)
					close(D.lfd);
				continue;
			}
			H_OK(nng_dialer_set_ms(D.d, NNG_OPT_RECONNMINT, D.mint));
			H_OK(nng_dialer_set_ms(D.d, NNG_OPT_RECONNMAXT, D.maxt));
			W.dia.push_back(D);
			int rv = nng_dialer_start(D.d, NNG_FLAG_NONBLOCK);
			if (rv != 0)
				vr_fail("harness:dialer_start", "nng_dialer_start -> %d", rv);
			// the first attempt is immediate
			if (listening) {
				W.dia.back().due = vs_now() + 40;
				W.dia.back().why = "dialer started";
			}
			vr_tag("has_dialer");
		} else if (strcmp(n, "conn") == 0 && W.conns.size() < 40) {
			if (W.lis.empty())
				continue;
			size_t li = (size_t) vop_arg(o, 0, 0) % W.lis.size();
			Lis   &L  = W.lis[li];
			if (!L.open || !W.sock_open)
				continue;
			W.conns.emplace_back();
			Conn &c = W.conns.back();
			int   rv;
			if (L.kind == RP_SOCKET)
				rv = rp_attach_socket(&c.r, L.l);
			else if (L.kind == RP_IPC)
				rv = rp_connect_ipc(&c.r, L.path.c_str());
			else
				rv = rp_connect_tcp(&c.r, L.port);
			if (rv != 0) {
				int e = errno;
				W.conns.pop_back();
				// only a refusal says something about the listener (the sandbox can run out of ephemeral ports during redial storms)
				if (e == ECONNREFUSED && L.kind == RP_TCP)
					diag_tcp(L);
				if (e == ECONNREFUSED || e == ENOENT)
					vr_fail("C14:listener-stopped-accepting", "connecting to open listener %d (kind %d) failed: %s", (int) li, L.kind, strerror(e));
				vr_tag("connect_env_failure");
				continue;
			}
			c.owner_l = (int) li;
			c.hs      = (int) vop_arg(o, 1, 0);
			if (c.hs < 0 || c.hs > 4)
				c.hs = 0;
			c.t_open = vs_now();
			vs_settle();
			play_handshake(&W, c);
			if (c.hs != HS_GOOD)
				vr_tag("sabotaged_handshake");
			if (c.hs == HS_GOOD && !c.hs_ok)
				vr_fail("C14:listener-stopped-accepting", "listener %d (kind %d): a well-behaved peer got no handshake reply", (int) li, L.kind);
		} else if (strcmp(n, "restart") == 0) {
			// a dialer that was started stays started (it is redialing in the background): a second start is refused,
			// whatever happened to its dials so far - otherwise two connect chains run and it ends up with two pipes
			if (W.dia.empty() || !W.sock_open)
				continue;
			Dia &D = W.dia[(size_t) vop_arg(o, 0, 0) % W.dia.size()];
			if (!D.open)
				continue;
			int rv = nng_dialer_start(D.d, NNG_FLAG_NONBLOCK);
			VR_CHECK(rv == NNG_ESTATE, "C14:dialer-started-twice", "nng_dialer_start on a dialer that is already started (reconnect min %d max %d, %d attempts so far) -> %d (%s), expected NNG_ESTATE",
			    D.mint, D.maxt, D.attempts, rv, nng_strerror((nng_err) rv));
			vr_tag("second_start_refused");
		} else if (strcmp(n, "rlisten") == 0) {
			if (W.dia.empty())
				continue;
			size_t di = (size_t) vop_arg(o, 0, 0) % W.dia.size();
			Dia   &D  = W.dia[di];
			bool   on = vop_arg(o, 1, 1) != 0;
			if (on && D.lfd < 0) {
				if (D.kind == RP_IPC) {
					unlink(D.path.c_str());
					D.lfd = rp_listen_ipc(D.path.c_str());
				} else {
					// re-bind the same port
					D.lfd = rp_listen_tcp_port(D.port);
				}
				if (D.lfd >= 0)
					oblige(&W, (int) di, "the address the dialer dials started listening");
				vr_tag("listener_reappeared");
			} else if (!on && D.lfd >= 0) {
				close(D.lfd);
				D.lfd = -1;
				D.due = 0;
				if (D.kind == RP_IPC)
					unlink(D.path.c_str());
			}
		} else if (strcmp(n, "policy") == 0) {
			if (W.dia.empty())
				continue;
			Dia &D   = W.dia[(size_t) vop_arg(o, 0, 0) % W.dia.size()];
			D.policy = (int) vop_arg(o, 1, 0);
			if (D.policy < 0 || D.policy > 4)
				D.policy = 0;
		} else if (strcmp(n, "drop") == 0) {
			// the raw side closes one live connection (k-th of the live ones)
			std::vector<Conn *> live;
			for (auto &c : W.conns)
				if (!c.closed_by_us && !c.eof_seen)
					live.push_back(&c);
			if (live.empty())
				continue;
			Conn *c = live[(size_t) vop_arg(o, 0, 0) % live.size()];
			rp_close(&c->r);
			c->closed_by_us = true;
			vr_tag("peer_loss");
			vs_settle();
			if (c->owner_d >= 0)
				oblige(&W, c->owner_d, "the peer dropped the dialed connection");
		} else if (strcmp(n, "pclose") == 0) {
			std::vector<uint32_t> live;
			for (auto id : W.order)
				if (W.pipes[id].last == 2)
					live.push_back(id);
			if (live.empty())
				continue;
			nng_pipe p;
			memset(&p, 0, sizeof p);
			p.id = live[(size_t) vop_arg(o, 0, 0) % live.size()];
			nng_pipe_close(p);
			vr_tag("app_pipe_close");
		} else if (strcmp(n, "dclose") == 0) {
			if (W.dia.empty())
				continue;
			Dia &D = W.dia[(size_t) vop_arg(o, 0, 0) % W.dia.size()];
			if (D.open) {
				nng_dialer_close(D.d);
				D.open = false;
				D.due  = 0;
			}
		} else if (strcmp(n, "lclose") == 0) {
			if (W.lis.empty())
				continue;
			Lis &L = W.lis[(size_t) vop_arg(o, 0, 0) % W.lis.size()];
			if (L.open) {
				nng_listener_close(L.l);
				L.open = false;
			}
		} else if (strcmp(n, "send") == 0 && W.proto != 1 && W.sock_open) {
			nng_msg *m = h_msg(0x0e000001u, 4);
			if (nng_sendmsg(W.s, m, NNG_FLAG_NONBLOCK) != 0)
				nng_msg_free(m);
		} else if (strcmp(n, "rsend") == 0 && W.proto != 2) {
			int k = 0;
			for (auto &c : W.conns) {
				if (c.closed_by_us || c.eof_seen || !c.hs_ok)
					continue;
				uint8_t body[8] = {0x0e, 0, 0, (uint8_t) k, 1, 2, 3, 4};
				rp_send_msg(&c.r, body, sizeof body);
				k++;
			}
			vs_settle();
			drain_app(&W);
		} else if (strcmp(n, "register") == 0 && !W.registered) {
			reg(&W);
		} else if (strcmp(n, "idial") == 0 && W.idia.size() < 3 && W.sock_open) {
			World::IDia I;
			I.mint = (int) vop_arg(o, 0, 10);
			I.maxt = (int) vop_arg(o, 1, 0);
			if (I.mint < 1 || I.mint > 500 || I.maxt < 0 || I.maxt > 500)
				continue;
			if (W.iurl.empty()) {
				snprintf(buf, sizeof buf, "inproc://c14-%d", (int) getpid());
				W.iurl = buf;
			}
			if (nng_dialer_create(&I.d, W.s, W.iurl.c_str()) != 0)
				continue;
			H_OK(nng_dialer_set_ms(I.d, NNG_OPT_RECONNMINT, I.mint));
			H_OK(nng_dialer_set_ms(I.d, NNG_OPT_RECONNMAXT, I.maxt));
			I.id = nng_dialer_id(I.d);
			W.idia.push_back(I);
			H_OK(nng_dialer_start(I.d, NNG_FLAG_NONBLOCK));
			vr_tag("inproc_dialer");
			ioblige(&W);
		} else if (strcmp(n, "ilisten") == 0) {
			int mode = (int) vop_arg(o, 0, 1); // 1 listen, 0 close, 2 flap: listen and close again without letting things settle
			if (W.iurl.empty()) {
				snprintf(buf, sizeof buf, "inproc://c14-%d", (int) getpid());
				W.iurl = buf;
			}
			if (!W.ipeer_open) {
				int rv = W.proto == 0 ? nng_bus0_open(&W.ipeer) : W.proto == 1 ? nng_push0_open(&W.ipeer) : nng_sub0_open(&W.ipeer);
				if (rv != 0)
					continue;
				W.ipeer_open = true;
				nng_pipe_notify(W.ipeer, NNG_PIPE_EV_ADD_PRE, ipeer_cb, NULL);
			}
			if (mode == 3 && !W.ilistening) {
				// listen, and let another thread close the listener k ms later, while the dialers are (re)connecting
				if (nng_listen(W.ipeer, W.iurl.c_str(), &W.ilis, 0) != 0)
					continue;
				int     k = (int) vop_arg(o, 1, 3);
				ICloser C = {&W, k < 0 ? 0 : k > 30 ? 30 : k};
				g_slow_peer_cb = true;
				int     h = vs_spawn(icloser_main, &C);
				wait_ms(&W, C.after + 2);
				vs_join(h);
				g_slow_peer_cb = false;
				wait_ms(&W, 4); // let a callback that is still dawdling finish before anything else is judged
				vr_tag("inproc_listener_closed_during_connects");
			} else if ((mode == 1 || mode == 2) && !W.ilistening) {
				if (nng_listen(W.ipeer, W.iurl.c_str(), &W.ilis, 0) != 0)
					continue;
				W.ilistening = true;
				if (mode == 2) {
					vs_yield();
					nng_listener_close(W.ilis);
					W.ilistening = false;
					vr_tag("inproc_listener_flap");
				} else {
					vr_tag("inproc_listener_up");
					ioblige(&W);
				}
			} else if (mode == 0 && W.ilistening) {
				nng_listener_close(W.ilis);
				W.ilistening = false;
				for (auto &I : W.idia)
					I.due = 0;
			}
		} else if (strcmp(n, "idclose") == 0) {
			if (W.idia.empty())
				continue;
			auto &I = W.idia[(size_t) vop_arg(o, 0, 0) % W.idia.size()];
			if (I.open) {
				nng_dialer_close(I.d);
				I.open = false;
				I.due  = 0;
			}
		} else if (strcmp(n, "stall") == 0) {
			// longer than the 10 s negotiation timeout: connections stuck in the handshake are expired by nng
			vs_sleep(11000);
			vr_tag("negotiation_timeout_passed");
		} else if (strcmp(n, "wait") == 0) {
			int ms = (int) vop_arg(o, 0, 1);
			if (ms < 1 || ms > 600)
				ms = 1;
			wait_ms(&W, ms);
		}
		service(&W);
		ioblige(&W); // (a dialer that lost its pipe while the address is being listened on owes a new one)
		drain_app(&W);
	}
	// let every outstanding redial obligation fall due
	uint64_t latest = 0;
	for (auto &D : W.dia)
		latest = std::max(latest, D.due);
	for (auto &I : W.idia)
		latest = std::max(latest, I.due);
	if (latest > vs_now()) {
		vr_tag("redial_obligation_at_end");
		wait_ms(&W, (int) (latest - vs_now()) + 2);
	}
	service(&W);
	// every open listener still accepts a well-behaved peer
	if (W.sock_open)
		for (size_t li = 0; li < W.lis.size(); li++) {
			Lis &L = W.lis[li];
			if (!L.open)
				continue;
			W.conns.emplace_back();
			Conn &c = W.conns.back();
			int   rv;
			if (L.kind == RP_SOCKET)
				rv = rp_attach_socket(&c.r, L.l);
			else if (L.kind == RP_IPC)
				rv = rp_connect_ipc(&c.r, L.path.c_str());
			else
				rv = rp_connect_tcp(&c.r, L.port);
			if (rv != 0) {
				int e = errno;
				W.conns.pop_back();
				if (e == ECONNREFUSED && L.kind == RP_TCP)
					diag_tcp(L);
				if (e == ECONNREFUSED || e == ENOENT)
					vr_fail("C14:listener-stopped-accepting", "final probe: connecting to open listener %d (kind %d) failed: %s", (int) li, L.kind, strerror(e));
				vr_tag("connect_env_failure");
				continue;
			}
			c.owner_l = (int) li;
			c.hs      = HS_GOOD;
			vs_settle();
			int     npre_before = W.npre;
			uint8_t hello[8];
			rp_hello(hello, W.rawproto);
			rp_write(&c.r, hello, 8);
			for (int t = 0; t < 160 && c.r.rxlen < 8 && !c.r.eof; t++) {
				vs_sleep(1);
				vs_settle();
				rp_pump(&c.r);
			}
			if (c.r.rxlen < 8)
				vr_fail("C14:listener-stopped-accepting", "final probe: listener %d (kind %d) did not answer a well-behaved peer's handshake within 160 ms", (int) li, L.kind);
			c.hs_ok = true;
			// ... and the connection must become a pipe of the socket, not just a negotiated transport connection
			if (W.registered) {
				int pre0 = npre_before;
				for (int t = 0; t < 100 && W.npre == pre0; t++) {
					vs_sleep(1);
					vs_settle();
				}
				VR_CHECK(W.npre > pre0, "C14:listener-stopped-accepting", "final probe: listener %d (kind %d) completed the handshake but no pipe was announced within 100 ms", (int) li,
				    L.kind);
			}
			vr_tag("final_accept_probe");
		}
	service(&W);
	// with every pipe rejected from the start no raw peer may ever have seen application data
	if (all_rejected_from_start)
		for (auto &c : W.conns) {
			if (!c.closed_by_us && !c.eof_seen) {
				rp_pump(&c.r);
				c.rx_total = c.r.rxlen;
			}
			size_t hello = 8;
			if (c.rx_total > hello)
				vr_fail("C14:rejected-pipe-carried-message", "every pipe was closed inside ADD_PRE, yet a raw peer received %zu bytes beyond the handshake", c.rx_total - hello);
		}
	// close: every pipe that reached ADD_POST has REM_POST when nng_socket_close returns
	nng_socket_close(W.s);
	W.sock_open = false;
	for (auto &q : W.pipes)
		if (q.second.post && q.second.last != 3)
			vr_fail("C14:no-rem-post", "pipe %u reached ADD_POST but had no REM_POST when nng_socket_close returned", q.second.id);
	if (W.ipeer_open)
		nng_socket_close(W.ipeer);
	if (W.ev_fail)
		vr_fail(W.ev_fail, "%s", W.ev_msg);
	if (W.nrejected)
		vr_tag("rejected_in_add_pre");
	if (W.nposted)
		vr_tag("pipes_posted");
	int redials = 0;
	for (auto &D : W.dia)
		if (D.attempts >= 2)
			redials++;
	for (auto &I : W.idia)
		if (I.attempts >= 2)
			redials++;
	if (redials)
		vr_tag("redial_observed");
	for (auto &c : W.conns)
		if (!c.closed_by_us && !c.eof_seen)
			rp_close(&c.r);
	for (auto &D : W.dia) {
		if (D.lfd >= 0)
			close(D.lfd);
		if (!D.path.empty())
			unlink(D.path.c_str());
	}
	for (auto &L : W.lis)
		if (!L.path.empty())
			unlink(L.path.c_str());
	h_end();
	return 0;
}

using namespace rc;

Gen<std::string>
genOp()
{
	return gen::exec([]() {
		std::ostringstream o;
		int k = *pbt::welem<int>({{3, 0}, {4, 1}, {6, 2}, {3, 3}, {2, 4}, {4, 5}, {3, 6}, {1, 7}, {1, 8}, {2, 9}, {3, 10}, {6, 11}, {1, 12}, {1, 13}, {3, 14}, {4, 15}, {1, 16}, {2, 17}, {2, 18}});
		switch (k) {
		case 17: o << "restart " << *pbt::range<int>(0, 2); break;
		case 18: // a reconnect maximum that is not min * 2^k, towards an address where nobody listens at first
			o << "dial " << *pbt::welem<int>({{3, 1}, {1, 2}}) << " 80 " << *gen::element(100, 110) << " 0\nwait " << *gen::element(400, 900) << "\nrlisten " << *pbt::range<int>(0, 2) << " 1";
			break;
		case 0: o << "lis " << *pbt::range<int>(0, 2); break;
		case 1: o << "dial " << *pbt::welem<int>({{3, 1}, {1, 2}}) << " " << *gen::element(5, 10, 20, 80) << " " << *gen::element(0, 0, 10, 40, 160, 25, 70, 100) << " " << *pbt::welem<int>({{3, 1}, {1, 0}}); break;
		case 2: o << "conn " << *pbt::range<int>(0, 2) << " " << *pbt::welem<int>({{6, 0}, {1, 1}, {1, 2}, {1, 3}, {1, 4}}); break;
		case 3: o << "rlisten " << *pbt::range<int>(0, 2) << " " << *pbt::range<int>(0, 1); break;
		case 4: o << "policy " << *pbt::range<int>(0, 2) << " " << *pbt::welem<int>({{4, 0}, {2, 1}, {2, 2}, {1, 3}, {1, 4}}); break;
		case 5: o << "drop " << *pbt::range<int>(0, 5); break;
		case 6: o << "pclose " << *pbt::range<int>(0, 5); break;
		case 7: o << "dclose " << *pbt::range<int>(0, 2); break;
		case 8: o << "lclose " << *pbt::range<int>(0, 2); break;
		case 9: o << "send"; break;
		case 10: o << "rsend"; break;
		case 11: o << "wait " << *gen::element(1, 2, 5, 10, 25, 50, 100); break;
		case 12: o << "register"; break;
		case 13: o << "stall"; break;
		case 14: o << "idial " << *gen::element(5, 10, 20) << " " << *gen::element(0, 0, 40); break;
		case 15: o << "ilisten " << *pbt::welem<int>({{4, 1}, {2, 0}, {1, 2}, {4, 3}}) << " " << *pbt::range<int>(0, 12); break;
		default: o << "idclose " << *pbt::range<int>(0, 2); break;
		}
		return o.str();
	});
}

std::string
gen_c14()
{
	std::ostringstream t;
	int mode = *pbt::welem<int>({{3, 0}, {3, 1}, {2, 2}, {2, 3}});
	t << "cfg " << *pbt::range<int>(1, 1000000) << " " << mode << " " << (mode == 3 ? *gen::element(5, 20, 50) : *gen::element(10, 30, 60)) << " " << *pbt::range<int>(0, 3) << " " << (mode == 3 ? *gen::element(60, 150, 400) : 400) << " 0\n";
	t << "world " << *pbt::range<int>(0, 2) << " " << *pbt::welem<int>({{5, 0}, {1, 1}}) << " " << *pbt::welem<int>({{4, 0}, {1, 1}, {2, 2}, {1, 3}, {2, 4}}) << "\n";
	auto ops = *gen::container<std::vector<std::string>>(genOp());
	for (auto &l : ops)
		t << l << "\n";
	return t.str();
}

} // namespace

int
main(int argc, char **argv)
{
	pbt::PropSpec sp;
	sp.id         = "C14";
	sp.gen        = gen_c14;
	sp.exec       = exec_c14;
	sp.watchdog_s = 90;
	sp.rule = "a BUS / PULL / PUB socket with up to 3 listeners (socket-fd / ipc / tcp) and up to 3 dialers (ipc / tcp, reconnect min 5..80 ms, max 0..160 ms) "
	          "towards raw stream listeners that appear and disappear, and up to 3 inproc dialers towards an address on which a peer socket listens, stops or flaps; raw peers connect with a good, garbage, truncated, wrong-protocol or aborted handshake "
	          "and drop connections; the application closes pipes inside ADD_PRE by pattern (none / all / every 2nd / first / every dialed one), closes pipes and "
	          "endpoints, registers the callbacks late, lets 11 s pass (negotiation timeout); messages flow both ways. Oracle: per pipe ADD_PRE < ADD_POST < REM_POST, each once, nothing without "
	          "ADD_PRE; no ADD_POST and no application message for a pipe closed in ADD_PRE; a dialer never has two announced "
	          "pipes; after each loss / failed handshake / rejection / reappearing listener a new connection attempt reaches the raw listener within "
	          "max(reconnect min, max) + 40 ms of virtual time while the dialer is open; open listeners answer a well-behaved peer at any time and at the end; "
	          "every posted pipe has REM_POST when nng_socket_close returns. Non-trivial = a redial was observed, or a pipe was rejected in ADD_PRE, or a "
	          "handshake was sabotaged, with at least one pipe posted or rejected; distinct by case hash";
	sp.nontrivial = [](const std::set<std::string> &t) {
		return (t.count("redial_observed") || t.count("rejected_in_add_pre") || t.count("sabotaged_handshake")) && (t.count("pipes_posted") || t.count("rejected_in_add_pre"));
	};
	return pbt::pbt_main(argc, argv, sp);
}
