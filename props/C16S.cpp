// C16S: WebSocket in *stream* mode (nng_stream over ws://): the bytes of the data frames - binary or text, fragmented,
// with control frames interleaved, in any TCP segmentation - come out of nng_stream_recv exactly and in order;
// framing violations fail the connection instead of delivering data; everything nng_stream_send emits is a
// well-formed frame sequence whose payloads concatenate to what was sent.  Both roles (nng behind an
// nng_stream_listener, nng behind an nng_stream_dialer) against a raw TCP peer run by the harness.
#include "pbt.hpp"
#include "nngh.h"
#include "rawpeer.h"
#include "wsref.hpp"
#include <deque>
#include <unistd.h>

namespace {

using wsref::Bytes;

struct World {
	int  role = 0; // 0: nng is the server, 1: nng is the client
	bool recv_text = false, send_text = false;
	size_t sendmax = 0, maxframe = 0;
	nng_stream_listener *sl = nullptr;
	nng_stream_dialer   *sd = nullptr;
	nng_stream          *st = nullptr;
	rp                   r;
	std::vector<int>     seg;
	// model of the inbound direction
	bool  alive = true, failed = false, assembling = false, peer_closed = false;
	Bytes expect;        // bytes the application must still read, in order
	std::deque<Bytes> exp_pongs; // pings not yet discharged
	std::vector<Bytes> all_pings;
	size_t pings_answered = 0; // pings [0, pings_answered) are discharged
	// outbound
	Bytes rx;
	size_t rxpos = 0;
	Bytes sent;          // bytes the application sent that must still appear on the wire
	bool  out_assembling = false;
	bool  saw_close = false;
	long  data_frames = 0;
};

static void
wr(World *W, const Bytes &b)
{
	if (b.empty())
		return;
	if (W->seg.empty()) {
		rp_write(&W->r, b.data(), b.size());
		return;
	}
	std::vector<int> ch;
	size_t           tot = 0;
	for (size_t i = 0; tot < b.size() && ch.size() < 4000; i++) {
		int c = W->seg[i % W->seg.size()];
		ch.push_back(c);
		tot += (size_t) c;
	}
	rp_write_chunked(&W->r, b.data(), b.size(), ch.data(), (int) ch.size());
}

static void
pump(World *W)
{
	vs_settle();
	rp_pump(&W->r);
	uint8_t tmp[4096];
	size_t  n;
	while ((n = rp_consume(&W->r, tmp, sizeof tmp)) > 0)
		W->rx.insert(W->rx.end(), tmp, tmp + n);
}

static void
check_emitted(World *W)
{
	pump(W);
	wsref::Parsed f;
	while (wsref::parse(W->rx, W->rxpos, f) == 1) {
		bool want_mask = W->role == 1;
		VR_CHECK(f.rsv == 0, "C16:emitted-rsv", "nng emitted a frame with reserved bits %d", f.rsv);
		VR_CHECK(f.op == 0 || f.op == 1 || f.op == 2 || f.op == 8 || f.op == 9 || f.op == 10, "C16:emitted-opcode", "nng emitted reserved opcode %d", f.op);
		VR_CHECK(f.masked == want_mask, "C16:emitted-mask", "nng (as %s) emitted a%s frame", W->role ? "client" : "server", f.masked ? " masked" : "n unmasked");
		VR_CHECK(f.minimal, "C16:emitted-length", "nng emitted a non-minimal length encoding for %zu bytes", f.payload.size());
		if (f.op >= 8) {
			VR_CHECK(f.fin && f.payload.size() <= 125, "C16:emitted-control", "nng emitted a control frame with fin=%d len=%zu", (int) f.fin, f.payload.size());
			if (f.op == wsref::OP_CLOSE) {
				W->saw_close = true;
				VR_CHECK(f.payload.size() != 1, "C16:emitted-close", "close frame with a 1-byte body");
			} else if (f.op == wsref::OP_PONG) {
				// RFC 6455 5.5.3: a pong echoes the payload of a ping; with several pings outstanding the endpoint may answer only the
				// most recent one, in any order (nng answers newest first): every pong must echo SOME ping we sent, and answering a ping
				// discharges it and all older ones
				bool found = false;
				for (size_t q = W->all_pings.size(); q-- > 0;)
					if (W->all_pings[q] == f.payload) {
						found = true;
						if (q + 1 > W->pings_answered)
							W->pings_answered = q + 1;
						break;
					}
				VR_CHECK(found, "C16:pong-payload", "nng sent a pong of %zu bytes that echoes none of the %zu pings sent", f.payload.size(), W->all_pings.size());
				while (W->exp_pongs.size() > W->all_pings.size() - W->pings_answered)
					W->exp_pongs.pop_front();
				vr_tag("pong_checked");
			}
			continue;
		}
		W->data_frames++;
		if (f.op == wsref::OP_CONT) {
			VR_CHECK(W->out_assembling, "C16:emitted-continuation", "nng emitted a continuation frame without a start");
		} else {
			VR_CHECK(!W->out_assembling, "C16:emitted-continuation", "nng started a new data frame inside a fragmented message");
			VR_CHECK(f.op == (W->send_text ? wsref::OP_TEXT : wsref::OP_BIN), "C16:emitted-opcode", "stream data sent as opcode %d with ws:send-text %s", f.op, W->send_text ? "on" : "off");
		}
		if (W->sendmax > 0)
			VR_CHECK(f.payload.size() <= W->sendmax, "C16:emitted-frame-size", "frame of %zu bytes with ws:txframe-max %zu", f.payload.size(), W->sendmax);
		W->out_assembling = !f.fin;
		VR_CHECK(f.payload.size() <= W->sent.size() && memcmp(f.payload.data(), W->sent.data(), f.payload.size()) == 0, "C16:emitted-stream",
		    "a data frame of %zu bytes does not continue the byte stream the application sent (%zu bytes outstanding)", f.payload.size(), W->sent.size());
		W->sent.erase(W->sent.begin(), W->sent.begin() + (long) f.payload.size());
		vr_tag("emitted_data_checked");
	}
}

static Bytes
pattern(size_t n, uint32_t seed)
{
	Bytes b(n);
	for (size_t i = 0; i < n; i++)
		b[i] = (uint8_t) ((seed * 2654435761u + i * 40503u) >> 7);
	return b;
}

static void
model_frame(World *W, const wsref::FrameSpec &f)
{
	if (!W->alive)
		return;
	bool   want_mask = W->role == 0;
	size_t n         = f.payload.size();
	bool   bad       = false;
	if (f.rsv != 0)
		bad = true;
	if (!(f.op == 0 || f.op == 1 || f.op == 2 || f.op == 8 || f.op == 9 || f.op == 10))
		bad = true;
	if ((f.lenform == 1 && n < 126) || (f.lenform == 2 && n < 65536))
		bad = true;
	if (f.masked != want_mask)
		bad = true;
	if (W->maxframe > 0 && n > W->maxframe)
		bad = true;
	if (f.op >= 8) {
		if (n > 125)
			bad = true;
	} else if (!bad) {
		if (f.op == wsref::OP_CONT && !W->assembling)
			bad = true;
		if (f.op != wsref::OP_CONT && W->assembling)
			bad = true;
		if (f.op == wsref::OP_TEXT && !W->recv_text)
			bad = true; // (nng closes with 1003 unless text frames were enabled)
	}
	if (bad) {
		W->alive  = false;
		W->failed = true;
		vr_tag("violation_sent");
		return;
	}
	switch (f.op) {
	case wsref::OP_CLOSE:
		W->alive       = false;
		W->peer_closed = true;
		break;
	case wsref::OP_PING:
		W->exp_pongs.push_back(f.payload);
		W->all_pings.push_back(f.payload);
		break;
	case wsref::OP_PONG: break;
	default:
		W->expect.insert(W->expect.end(), f.payload.begin(), f.payload.end());
		W->assembling = !f.fin;
		break;
	}
}

static void
send_frame(World *W, wsref::FrameSpec f, Bytes &stream)
{
	f.masked = (W->role == 0) != (f.masked); // f.masked == true on entry means "wrong masking"
	model_frame(W, f);
	wsref::encode(f, stream);
}

// read up to k bytes through nng_stream_recv; returns the result code, appends to got
static int
app_read(World *W, size_t k, Bytes &got, int tmo)
{
	nng_aio *a;
	H_OK(nng_aio_alloc(&a, NULL, NULL));
	Bytes   buf(k ? k : 1);
	nng_iov iov = {buf.data(), buf.size()};
	nng_aio_set_iov(a, 1, &iov);
	nng_aio_set_timeout(a, tmo);
	nng_stream_recv(W->st, a);
	nng_aio_wait(a);
	int rv = nng_aio_result(a);
	if (rv == 0) {
		size_t n = nng_aio_count(a);
		VR_CHECK(n >= 1 && n <= buf.size(), "C16:stream-recv-count", "nng_stream_recv returned %zu bytes for a %zu-byte buffer", n, buf.size());
		got.insert(got.end(), buf.begin(), buf.begin() + (long) n);
	}
	nng_aio_free(a);
	return rv;
}

static void
consume_expected(World *W, const Bytes &got, const char *when)
{
	if (got.empty())
		return;
	if (got.size() > W->expect.size() || memcmp(got.data(), W->expect.data(), got.size()) != 0) {
		size_t i = 0;
		while (i < got.size() && i < W->expect.size() && got[i] == W->expect[i])
			i++;
		vr_fail(W->failed && i >= W->expect.size() ? "C16:delivered-despite-violation" : "C16:stream-bytes", "%s: nng_stream_recv produced %zu bytes; the reference byte stream has %zu outstanding and differs at offset %zu%s", when, got.size(),
		    W->expect.size(), i, W->failed ? " (the connection should have been failed)" : "");
	}
	W->expect.erase(W->expect.begin(), W->expect.begin() + (long) got.size());
	vr_tag("stream_bytes_delivered");
}

int
exec_c16s(const vcase *vc)
{
	h_cfg cfg;
	if (vc->nops < 2 || strcmp(vc->ops[0].name, "cfg") != 0 || strcmp(vc->ops[1].name, "world") != 0)
		return 0;
	h_cfg_from_op(&cfg, &vc->ops[0]);
	cfg.task_threads = 3;
	World W;
	W.role      = (int) vop_arg(&vc->ops[1], 0, 0) ? 1 : 0;
	W.recv_text = vop_arg(&vc->ops[1], 1, 0) != 0;
	W.send_text = vop_arg(&vc->ops[1], 2, 0) != 0;
	W.sendmax   = (size_t) vop_arg(&vc->ops[1], 3, 0);
	W.maxframe  = (size_t) vop_arg(&vc->ops[1], 4, 0);
	for (int i = 2; i < vc->nops; i++)
		if (strcmp(vc->ops[i].name, "seg") == 0)
			for (int k = 0; k < vc->ops[i].na && k < 12; k++) {
				long c = vop_arg(&vc->ops[i], k, 1);
				if (c >= 1 && c <= 100000)
					W.seg.push_back((int) c);
			}
	if (h_begin(&cfg) != 0)
		return 0;
	vr_tag(W.role ? "nng_client" : "nng_server");
	char        buf[200];
	std::string key = "dGhlIHNhbXBsZSBub25jZQ==";
	int         port = 0, lfd = -1;
	nng_aio    *ca = nullptr;
	H_OK(nng_aio_alloc(&ca, NULL, NULL));
	nng_aio_set_timeout(ca, 2000);
	bool up = false;
	if (W.role == 0) {
		H_OK(nng_stream_listener_alloc(&W.sl, "ws://127.0.0.1:0/s"));
		H_OK(nng_stream_listener_set_bool(W.sl, NNG_OPT_WS_RECV_TEXT, W.recv_text));
		H_OK(nng_stream_listener_set_bool(W.sl, NNG_OPT_WS_SEND_TEXT, W.send_text));
		if (W.sendmax)
			H_OK(nng_stream_listener_set_size(W.sl, NNG_OPT_WS_SENDMAXFRAME, W.sendmax));
		if (W.maxframe)
			H_OK(nng_stream_listener_set_size(W.sl, NNG_OPT_WS_RECVMAXFRAME, W.maxframe));
		H_OK(nng_stream_listener_listen(W.sl));
		H_OK(nng_stream_listener_get_int(W.sl, NNG_OPT_BOUND_PORT, &port));
		nng_stream_listener_accept(W.sl, ca);
		if (rp_connect_tcp(&W.r, port) == 0) {
			vs_settle();
			std::string req = "GET /s HTTP/1.1\r\n";
			snprintf(buf, sizeof buf, "Host: 127.0.0.1:%d\r\n", port);
			req += buf;
			req += "Upgrade: websocket\r\nConnection: Upgrade\r\nSec-WebSocket-Key: " + key + "\r\nSec-WebSocket-Version: 13\r\n\r\n";
			wr(&W, Bytes(req.begin(), req.end()));
			size_t he = 0;
			for (int t = 0; t < 300 && he == 0 && !W.r.eof; t++) {
				pump(&W);
				he = wsref::head_end(W.rx);
				if (he == 0)
					vs_sleep(1);
			}
			VR_CHECK(he != 0, "C16:no-upgrade-response", "a valid upgrade request got no response within 300 ms");
			wsref::Head h = wsref::parse_head(W.rx, he);
			VR_CHECK(h.wellformed && h.first.rfind("HTTP/1.1 101", 0) == 0, "C16:upgrade-response", "valid upgrade request answered with '%s'", h.first.c_str());
			VR_CHECK(h.get("Sec-WebSocket-Accept") == wsref::accept_key(key), "C16:accept-key", "Sec-WebSocket-Accept '%s' != '%s'", h.get("Sec-WebSocket-Accept").c_str(),
			    wsref::accept_key(key).c_str());
			W.rx.erase(W.rx.begin(), W.rx.begin() + (long) he);
			nng_aio_wait(ca);
			VR_CHECK(nng_aio_result(ca) == 0, "C16:accept-failed", "the upgrade was answered with 101 but nng_stream_listener_accept -> %d", nng_aio_result(ca));
			W.st = (nng_stream *) nng_aio_get_output(ca, 0);
			up   = true;
		}
	} else {
		lfd = rp_listen_tcp(&port);
		if (lfd >= 0) {
			snprintf(buf, sizeof buf, "ws://127.0.0.1:%d/s", port);
			H_OK(nng_stream_dialer_alloc(&W.sd, buf));
			H_OK(nng_stream_dialer_set_bool(W.sd, NNG_OPT_WS_RECV_TEXT, W.recv_text));
			H_OK(nng_stream_dialer_set_bool(W.sd, NNG_OPT_WS_SEND_TEXT, W.send_text));
			if (W.sendmax)
				H_OK(nng_stream_dialer_set_size(W.sd, NNG_OPT_WS_SENDMAXFRAME, W.sendmax));
			if (W.maxframe)
				H_OK(nng_stream_dialer_set_size(W.sd, NNG_OPT_WS_RECVMAXFRAME, W.maxframe));
			nng_stream_dialer_dial(W.sd, ca);
			bool acc = false;
			for (int t = 0; t < 100 && !acc; t++) {
				vs_settle();
				if (rp_accept(&W.r, lfd, RP_TCP) == 0)
					acc = true;
				else
					vs_sleep(1);
			}
			if (acc) {
				size_t he = 0;
				for (int t = 0; t < 300 && he == 0 && !W.r.eof; t++) {
					pump(&W);
					he = wsref::head_end(W.rx);
					if (he == 0)
						vs_sleep(1);
				}
				VR_CHECK(he != 0, "C16:no-upgrade-request", "the dialer connected but sent no complete upgrade request");
				wsref::Head h = wsref::parse_head(W.rx, he);
				VR_CHECK(h.wellformed && h.first == "GET /s HTTP/1.1", "C16:upgrade-request", "upgrade request line '%s'", h.first.c_str());
				VR_CHECK(strcasecmp(h.get("Upgrade").c_str(), "websocket") == 0 && h.get("Sec-WebSocket-Version") == "13" && !h.get("Sec-WebSocket-Key").empty(),
				    "C16:upgrade-request", "upgrade request lacks Upgrade / Version / Key");
				W.rx.erase(W.rx.begin(), W.rx.begin() + (long) he);
				std::string resp = "HTTP/1.1 101 Switching Protocols\r\nUpgrade: websocket\r\nConnection: Upgrade\r\nSec-WebSocket-Accept: " + wsref::accept_key(h.get("Sec-WebSocket-Key")) + "\r\n\r\n";
				wr(&W, Bytes(resp.begin(), resp.end()));
				nng_aio_wait(ca);
				VR_CHECK(nng_aio_result(ca) == 0, "C16:dial-failed", "a correct 101 response (segmented) was refused: nng_stream_dialer_dial -> %d", nng_aio_result(ca));
				W.st = (nng_stream *) nng_aio_get_output(ca, 0);
				up   = true;
			}
		}
	}
	if (!up) { // (no port to be had: not the subject)
		nng_aio_cancel(ca);
		nng_aio_wait(ca);
		if (nng_aio_result(ca) == 0)
			nng_stream_free((nng_stream *) nng_aio_get_output(ca, 0));
	}
	uint32_t seq = 1;
	for (int i = 2; i < vc->nops && up; i++) {
		const vop  *o = &vc->ops[i];
		std::string n = o->name;
		vr_at(i, o->name);
		long a0 = vop_arg(o, 0, 0), a1 = vop_arg(o, 1, 0), a2 = vop_arg(o, 2, 0), a3 = vop_arg(o, 3, 0);
		if (n == "msg") { // msg text? nfrag size pingmask : a data message in fragments with interleaved control frames
			int    op    = a0 ? wsref::OP_TEXT : wsref::OP_BIN;
			int    nfrag = (int) (a1 < 1 ? 1 : a1 > 6 ? 6 : a1);
			size_t size  = (size_t) (a2 < 0 ? 0 : a2 > 70000 ? 70000 : a2);
			Bytes  body  = pattern(size, seq++);
			if (op == wsref::OP_TEXT)
				for (auto &b : body)
					b = (uint8_t) ('a' + b % 26);
			Bytes stream;
			for (int k = 0; k < nfrag; k++) {
				size_t          lo = size * (size_t) k / (size_t) nfrag, hi = size * (size_t) (k + 1) / (size_t) nfrag;
				wsref::FrameSpec f;
				f.op  = k == 0 ? op : wsref::OP_CONT;
				f.fin = k == nfrag - 1;
				f.payload.assign(body.begin() + (long) lo, body.begin() + (long) hi);
				send_frame(&W, f, stream);
				if (k < nfrag - 1 && ((a3 >> k) & 1)) {
					wsref::FrameSpec p;
					p.op      = (k & 1) ? wsref::OP_PONG : wsref::OP_PING;
					p.payload = pattern((size_t) (k * 31 % 126), seq++);
					send_frame(&W, p, stream);
					vr_tag("control_interleaved");
				}
			}
			if (nfrag > 1)
				vr_tag("fragmented");
			wr(&W, stream);
			vs_settle();
			check_emitted(&W);
		} else if (n == "bad") { // one framing violation
			wsref::FrameSpec f;
			f.payload = pattern((size_t) (a1 < 0 ? 0 : a1 > 300 ? 300 : a1), seq++);
			switch (a0 % 8) {
			case 0: f.rsv = 1 + (int) (a1 % 7); break;
			case 1: f.op = 3 + (int) (a1 % 5); break;
			case 2: f.masked = true; break; // wrong masking for our role
			case 3: f.lenform = 1; f.payload.resize(f.payload.size() % 126); break;
			case 4: f.lenform = 2; break;
			case 5: f.op = wsref::OP_PING; f.payload = pattern(126 + (size_t) (a1 % 50), seq++); break;
			case 6: f.op = wsref::OP_CONT; break; // continuation without a start (unless a message is open: then a new start)
			default: // a frame above ws:rxframe-max (when one is configured; otherwise a non-minimal 64-bit length)
				if (W.maxframe > 0)
					f.payload = pattern(W.maxframe + 1 + (size_t) (a1 % 7), seq++);
				else
					f.lenform = 2;
				break;
			}
			if (a0 % 8 == 6 && W.assembling)
				f.op = wsref::OP_BIN;
			Bytes stream;
			send_frame(&W, f, stream);
			wr(&W, stream);
			vs_settle();
			check_emitted(&W);
		} else if (n == "read") { // the application reads up to a0 bytes
			size_t k = (size_t) (a0 < 1 ? 1 : a0 > 100000 ? 100000 : a0);
			Bytes  got;
			int    rv = app_read(&W, k, got, 30);
			if (rv == 0)
				consume_expected(&W, got, "read");
			else if (rv == NNG_ETIMEDOUT) {
				VR_CHECK(W.expect.empty() || W.failed || W.peer_closed, "C16:stream-bytes-missing", "nng_stream_recv timed out although %zu byte(s) of complete data frames are outstanding", W.expect.size());
			} else {
				VR_CHECK(W.failed || W.peer_closed || !W.alive, "C16:good-stream-failed", "nng_stream_recv -> %d (%s) on a connection that saw only well-formed frames", rv,
				    nng_strerror((nng_err) rv));
				vr_tag("connection_failed_as_expected");
			}
		} else if (n == "send") { // the application writes a0 bytes
			size_t   k = (size_t) (a0 < 1 ? 1 : a0 > 70000 ? 70000 : a0);
			Bytes    d = pattern(k, seq++);
			nng_aio *a;
			H_OK(nng_aio_alloc(&a, NULL, NULL));
			nng_iov iov = {d.data(), d.size()};
			nng_aio_set_iov(a, 1, &iov);
			nng_aio_set_timeout(a, 200);
			size_t before = W.sent.size();
			W.sent.insert(W.sent.end(), d.begin(), d.end()); // (frames may appear on the wire before the send completes)
			nng_stream_send(W.st, a);
			// (the peer has to read for a large write to finish)
			for (int t = 0; t < 50 && nng_aio_busy(a); t++) {
				check_emitted(&W);
				vs_sleep(1);
			}
			nng_aio_wait(a);
			int rv = nng_aio_result(a);
			if (rv == 0) {
				size_t cnt = nng_aio_count(a);
				VR_CHECK(cnt >= 1 && cnt <= k, "C16:stream-send-count", "nng_stream_send reported %zu of %zu bytes", cnt, k);
				// (a short count: the rest was not taken)
				size_t untaken = k - cnt;
				if (untaken > 0 && W.sent.size() >= untaken)
					W.sent.resize(W.sent.size() - untaken);
				vr_tag("app_sent");
			} else {
				VR_CHECK(W.failed || W.peer_closed || !W.alive, "C16:good-stream-failed", "nng_stream_send -> %d (%s) on a connection that saw only well-formed frames", rv,
				    nng_strerror((nng_err) rv));
				if (W.sent.size() > before)
					W.sent.resize(before);
			}
			nng_aio_free(a);
			check_emitted(&W);
		} else if (n == "ping") {
			wsref::FrameSpec p;
			p.op      = wsref::OP_PING;
			p.payload = pattern((size_t) (a0 < 0 ? 0 : a0 > 125 ? 125 : a0), seq++);
			Bytes stream;
			send_frame(&W, p, stream);
			wr(&W, stream);
			vs_settle();
			check_emitted(&W);
		}
	}
	if (up) {
		// drain: everything the reference delivers must come out, nothing else
		for (int round = 0; round < 400 && !W.expect.empty(); round++) {
			Bytes got;
			int   rv = app_read(&W, 4096, got, 20);
			if (rv != 0)
				break;
			consume_expected(&W, got, "final drain");
		}
		if (!W.failed && !W.peer_closed)
			VR_CHECK(W.expect.empty(), "C16:stream-bytes-missing", "%zu byte(s) of complete, well-formed data frames never came out of nng_stream_recv", W.expect.size());
		if (W.failed) {
			// after a violation nothing more is delivered and the connection ends
			Bytes got;
			int   rv = app_read(&W, 4096, got, 50);
			if (rv == 0)
				consume_expected(&W, got, "after the violation");
			vr_tag("violation_checked");
		}
		if (!W.exp_pongs.empty() && !W.failed && !W.peer_closed) {
			// (in stream mode nng processes incoming frames only while the application has a receive posted)
			Bytes got;
			int   rv = app_read(&W, 4096, got, 20);
			if (rv == 0)
				consume_expected(&W, got, "read for pending pings");
		}
		for (int t = 0; t < 20; t++) {
			check_emitted(&W);
			if (W.sent.empty() && W.exp_pongs.empty())
				break;
			vs_sleep(1);
		}
		if (!W.failed && !W.peer_closed) {
			VR_CHECK(W.sent.empty(), "C16:emitted-stream", "%zu byte(s) the application sent never appeared on the wire", W.sent.size());
			VR_CHECK(W.exp_pongs.empty(), "C16:pong-missing", "%zu ping(s) were never answered", W.exp_pongs.size());
		}
		nng_stream_close(W.st);
		nng_stream_free(W.st);
		rp_close(&W.r);
	}
	nng_aio_free(ca);
	if (W.sl)
		nng_stream_listener_free(W.sl);
	if (W.sd)
		nng_stream_dialer_free(W.sd);
	if (lfd >= 0)
		close(lfd);
	h_end();
	return 0;
}

using namespace rc;

std::string
gen_c16s()
{
	std::ostringstream t;
	int mode = *pbt::welem<int>({{4, 0}, {2, 1}, {1, 2}, {1, 3}});
	t << "cfg " << *pbt::range<int>(1, 1000000) << " " << mode << " " << (mode == 3 ? *gen::element(5, 20) : *gen::element(10, 30)) << " " << *pbt::range<int>(0, 2) << " " << (mode == 3 ? 150 : 600) << " 0\n";
	t << "world " << *pbt::range<int>(0, 1) << " " << *pbt::range<int>(0, 1) << " " << *pbt::range<int>(0, 1) << " " << *gen::element(0, 0, 1, 2, 125, 126, 65535, 65536) << " "
	  << *gen::element(0, 0, 0, 100, 1000) << "\n";
	if (*pbt::range<int>(0, 2)) {
		t << "seg";
		int ns = *pbt::range<int>(1, 6);
		for (int i = 0; i < ns; i++)
			t << " " << *gen::element(1, 1, 2, 3, 5, 7, 13, 100, 1000);
		t << "\n";
	}
	auto ops = *gen::container<std::vector<std::string>>(gen::exec([]() {
		std::ostringstream o;
		switch (*pbt::welem<int>({{16, 0}, {12, 1}, {8, 2}, {4, 3}, {1, 4}})) {
		case 0:
			o << "msg " << *pbt::welem<int>({{3, 0}, {1, 1}}) << " " << *pbt::range<int>(1, 5) << " " << *gen::element(0, 1, 2, 125, 126, 127, 300, 4000, 65535, 65536, 70000) << " " << *pbt::range<int>(0, 15);
			break;
		case 1: o << "read " << *gen::element(1, 2, 7, 100, 126, 4096, 70000); break;
		case 2: o << "send " << *gen::element(1, 2, 125, 126, 127, 300, 4000, 65535, 65536); break;
		case 3: o << "ping " << *gen::element(0, 1, 50, 125); break;
		default: o << "bad " << *pbt::range<int>(0, 7) << " " << *pbt::range<int>(0, 300); break;
		}
		return o.str();
	}));
	for (auto &l : ops)
		t << l << "\n";
	return t.str();
}

} // namespace

int
main(int argc, char **argv)
{
	pbt::PropSpec sp;
	sp.id         = "C16S";
	sp.gen        = gen_c16s;
	sp.exec       = exec_c16s;
	sp.watchdog_s = 60;
	sp.rule = "WebSocket stream mode (nng_stream over ws://) in both roles against a raw TCP peer: binary / text messages in 1-5 fragments of 0..70000 bytes with pings / pongs "
	          "interleaved, the framing violations the property lists (reserved bits / opcodes, wrong masking, non-minimal lengths, control frame above 125 bytes, continuation without a start, new start inside a message, frame above ws:rxframe-max, text frame without ws:recv-text), application reads of 1..70000 bytes and writes of 1..65536 bytes, ws:recv-text / ws:send-text / ws:txframe-max / "
	          "ws:rxframe-max options, generated TCP segmentation of everything the peer writes. Oracle: the bytes coming out of nng_stream_recv are exactly the concatenated "
	          "payloads of the well-formed data frames, in order, none lost (reference model), nothing after a violation; pongs echo pings; every frame nng emits is well-formed "
	          "(masking by role, minimal lengths, no reserved bits / opcodes, continuation discipline, frame size limit, opcode by ws:send-text) and the data payloads concatenate "
	          "to what the application wrote. Non-trivial = a fragmented message or a violation or interleaved control frames; distinct by case hash";
	sp.nontrivial = [](const std::set<std::string> &t) { return t.count("fragmented") || t.count("violation_sent") || t.count("control_interleaved"); };
	return pbt::pbt_main(argc, argv, sp);
}
