// C05: PUB/SUB delivery iff a current subscription prefixes the body; per-context filtering,
// unsubscribe purge, drop policy on full buffer, PUB send never blocks.
// Model-based under the deterministic scheduler (E1): after every publish the system is run
// to quiescence, so arrival order == publish order and the model is exact.
#include "pbt.hpp"
#include "nngh.h"
#include <deque>

namespace {

using Body = std::string;

struct Ctx {
	bool                          open = false;
	nng_ctx                       ctx;
	std::set<Body>                topics;
	std::vector<std::deque<Body>> cand; // candidate queue contents (resize may cut either end)
	size_t                        cap     = 128;
	bool                          prefnew = true;
	nng_aio                      *aio     = nullptr; // pending async receive
	bool                          pending = false;
	int                           done    = 0;
};

static bool
matches(const Ctx &c, const Body &b)
{
	for (auto &t : c.topics)
		if (t.size() <= b.size() && memcmp(t.data(), b.data(), t.size()) == 0)
			return true;
	return false;
}

static std::string
hex(const Body &b)
{
	std::string        o;
	static const char *d = "0123456789abcdef";
	for (unsigned char c : b) {
		o += d[c >> 4];
		o += d[c & 15];
	}
	return o.empty() ? "<empty>" : o;
}

static void
aio_cb(void *arg)
{
	Ctx *c = (Ctx *) arg;
	c->done++;
}

// slot 0 is the socket itself (master context), 1..3 are contexts
struct World {
	nng_socket sub, pub[2];
	Ctx        c[4];
	size_t     sock_cap     = 128;
	bool       sock_prefnew = true;
};

static int
do_recv(World &W, int s, nng_msg **mp)
{
	if (s == 0)
		return nng_recvmsg(W.sub, mp, NNG_FLAG_NONBLOCK);
	nng_aio *a;
	H_OK(nng_aio_alloc(&a, NULL, NULL));
	nng_aio_set_timeout(a, 0); // non-blocking
	nng_ctx_recv(W.c[s].ctx, a);
	nng_aio_wait(a);
	int rv = nng_aio_result(a);
	*mp    = rv == 0 ? nng_aio_get_msg(a) : NULL;
	nng_aio_free(a);
	return rv == NNG_ETIMEDOUT ? NNG_EAGAIN : rv;
}

static void
check_msg(Ctx &c, int s, nng_msg *m, const char *how)
{
	Body got((const char *) nng_msg_body(m), nng_msg_len(m));
	std::vector<std::deque<Body>> keep;
	for (auto &q : c.cand)
		if (!q.empty() && q.front() == got) {
			q.pop_front();
			keep.push_back(q);
		}
	if (keep.empty()) {
		std::string exp = c.cand[0].empty() ? std::string("nothing (queue empty)") : hex(c.cand[0].front());
		vr_fail("C05:wrong-message", "%s on slot %d delivered %s, model expects %s", how, s, hex(got).c_str(), exp.c_str());
	}
	c.cand = keep;
	// the application owns this message now and may edit it in place (trimming a header is the usual idiom): no other
	// context's copy of the same publication may change because of that
	if (nng_msg_len(m) > 0) {
		memset(nng_msg_body(m), 0xEE, nng_msg_len(m));
		nng_msg_trim(m, 1);
	}
	nng_msg_append(m, "scribble", 8);
	nng_msg_free(m);
}

// The model keeps a *set* of candidate queues (a shrinking resize may legally keep either end); after an unsubscribe
// purge the candidates can differ in length, so emptiness is a property of the set.
static bool
all_empty(const Ctx &c)
{
	for (auto &q : c.cand)
		if (!q.empty())
			return false;
	return true;
}
static bool
none_empty(const Ctx &c)
{
	for (auto &q : c.cand)
		if (q.empty())
			return false;
	return true;
}
static const std::deque<Body> &
longest(const Ctx &c)
{
	size_t b = 0;
	for (size_t i = 1; i < c.cand.size(); i++)
		if (c.cand[i].size() > c.cand[b].size())
			b = i;
	return c.cand[b];
}
// the real queue turned out to be empty: only the empty candidates survive
static void
narrow_to_empty(Ctx &c)
{
	std::vector<std::deque<Body>> keep;
	for (auto &q : c.cand)
		if (q.empty())
			keep.push_back(q);
	c.cand = keep;
}

static void
finish_pending(World &W, int s)
{
	Ctx &c = W.c[s];
	if (c.pending && c.done) {
		int rv = nng_aio_result(c.aio);
		VR_CHECK(rv == 0, "C05:arecv-result", "pending receive on slot %d completed with %d", s, rv);
		// the model put the directly delivered message at the queue front (see publish)
		check_msg(c, s, nng_aio_get_msg(c.aio), "async receive");
		c.pending = false;
		c.done    = 0;
	}
}

int
exec_c05(const vcase *vc)
{
	World W;
	h_cfg cfg;
	int   first = 0;
	if (vc->nops > 0 && strcmp(vc->ops[0].name, "cfg") == 0) {
		h_cfg_from_op(&cfg, &vc->ops[0]);
		first = 1;
	} else {
		vop none;
		memset(&none, 0, sizeof none);
		h_cfg_from_op(&cfg, &none);
	}
	if (h_begin(&cfg) != 0)
		return 0;
	H_OK(nng_sub0_open(&W.sub));
	H_OK(nng_pub0_open(&W.pub[0]));
	H_OK(nng_pub0_open(&W.pub[1]));
	H_OK(nng_listen(W.sub, "inproc://c05", NULL, 0));
	H_OK(nng_dial(W.pub[0], "inproc://c05", NULL, 0));
	H_OK(nng_dial(W.pub[1], "inproc://c05", NULL, 0));
	vs_settle();
	W.c[0].open = true;
	W.c[0].cand = {{}};
	int nmatch_some = 0, npub = 0;

	for (int i = first; i < vc->nops; i++) {
		const vop  *o = &vc->ops[i];
		std::string n = o->name;
		vr_at(i, o->name);
		int s = (int) vop_arg(o, 0, 0);
		if (s < 0 || s > 3)
			continue;
		Ctx &c = W.c[s];
		if (n == "pubjam") {
			// round 7: the publisher's per-pipe send queue behind a BUSY pipe.  A separate PUB / SUB pair over inproc; the
			// subscriber's receive callback holds its pipe (the callback of a pending receive runs before the pipe read is
			// re-armed) while n more messages are published: the first waits in the transport, the others in the send queue
			// of depth SENDBUF, which drops the OLDEST when it is full - exactly one message per arrival, none early.
			int n2 = (int) vop_arg(o, 1, 6), sbuf = (int) vop_arg(o, 2, 4);
			if (n2 < 2 || n2 > 24 || sbuf < 1 || sbuf > 16)
				continue;
			static int jamserial = 0;
			char       url[64];
			snprintf(url, sizeof url, "inproc://c05-jam-%d", ++jamserial);
			nng_socket pub, sub;
			H_OK(nng_pub0_open(&pub));
			H_OK(nng_sub0_open(&sub));
			H_OK(nng_socket_set_int(pub, NNG_OPT_SENDBUF, sbuf));
			H_OK(nng_sub0_socket_subscribe(sub, "", 0));
			H_OK(nng_listen(pub, url, NULL, 0));
			H_OK(nng_dial(sub, url, NULL, 0));
			vs_settle();
			struct Jam {
				int      calls = 0;
				nng_aio *aio   = nullptr;
			} jam;
			H_OK(nng_aio_alloc(&jam.aio, [](void *a) {
				Jam *j = (Jam *) a;
				if (j->calls++ == 0)
					nng_msleep(40); // the application is slow: the pipe is not read meanwhile
			}, &jam));
			nng_socket_recv(sub, jam.aio);
			std::vector<uint32_t> sent;
			for (int q = 0; q <= n2; q++) {
				uint32_t tag = 0x05a00000u | (uint32_t) (jamserial << 8) | (uint32_t) q;
				nng_msg *m   = h_msg(tag, 8);
				uint64_t t0  = vs_now();
				int      rv  = nng_sendmsg(pub, m, NNG_FLAG_NONBLOCK);
				VR_CHECK(rv == 0, "C05:pub-send-blocked", "PUB non-blocking send towards a busy subscriber returned %d", rv);
				VR_CHECK(vs_now() - t0 < 5, "C05:pub-send-slow", "PUB send took %llu virtual ms", (unsigned long long) (vs_now() - t0));
				sent.push_back(tag);
				vs_settle();
			}
			bool held = jam.calls == 1 && nng_aio_busy(jam.aio);
			vs_sleep(60);
			vs_settle();
			nng_aio_wait(jam.aio);
			std::vector<uint32_t> got;
			if (nng_aio_result(jam.aio) == 0) {
				uint32_t t = 0;
				nng_msg *m = nng_aio_get_msg(jam.aio);
				h_msg_tag(m, &t);
				got.push_back(t);
				nng_msg_free(m);
			}
			for (int q = 0; q < 40; q++) {
				nng_msg *m = nullptr;
				if (nng_recvmsg(sub, &m, NNG_FLAG_NONBLOCK) != 0)
					break;
				uint32_t t  = 0;
				int      ok = h_msg_tag(m, &t);
				nng_msg_free(m);
				VR_CHECK(ok == 0, "C05:corrupt-message", "message %x corrupted behind a busy pipe", t);
				got.push_back(t);
				vs_settle();
			}
			nng_aio_free(jam.aio);
			nng_socket_close(sub);
			nng_socket_close(pub);
			// always: an in-order subsequence without duplicates that ends with the newest message
			size_t pos = 0;
			for (uint32_t t : got) {
				while (pos < sent.size() && sent[pos] != t)
					pos++;
				VR_CHECK(pos < sent.size(), "C05:reordered-or-duplicated", "the subscriber behind a busy pipe received %x out of order / twice", t);
				pos++;
			}
			VR_CHECK(!got.empty() && got.back() == sent.back(), "C05:missing-delivery", "the newest publication never reached the subscriber behind a busy pipe (%zu of %zu received)", got.size(), sent.size());
			if (held) {
				// exact: m0 (callback), m1 (in the transport), then the newest min(n - 1, SENDBUF) of the rest
				size_t rest = (size_t) n2 - 1, keep = rest < (size_t) sbuf ? rest : (size_t) sbuf;
				VR_CHECK(got.size() == 2 + keep, "C05:send-queue-depth", "PUB SENDBUF %d, %d messages published behind a busy pipe: the subscriber received %zu, expected %zu (one message lost per arrival on a FULL queue, none earlier)",
				    sbuf, n2, got.size(), 2 + keep);
				vr_tag(rest > keep ? "pub_queue_overflow_behind_busy_pipe" : "pub_queue_behind_busy_pipe");
			}
			continue;
		}
		if (n == "ctxopen") {
			if (s == 0 || c.open)
				continue;
			H_OK(nng_ctx_open(&c.ctx, W.sub));
			c         = Ctx{true, c.ctx};
			c.cand    = {{}};
			c.cap     = W.sock_cap;
			c.prefnew = W.sock_prefnew;
			vr_tag("ctx");
			continue;
		}
		if (n == "pub") {
			Body b = o->nd ? Body((const char *) o->d[0], o->dl[0]) : Body();
			int  p = s & 1;
			nng_msg *m;
			H_OK(nng_msg_alloc(&m, 0));
			if (!b.empty())
				H_OK(nng_msg_append(m, b.data(), b.size()));
			uint64_t t0 = vs_now();
			int      rv = nng_sendmsg(W.pub[p], m, NNG_FLAG_NONBLOCK);
			VR_CHECK(rv == 0, "C05:pub-send-blocked", "PUB non-blocking send returned %d (%s)", rv, nng_strerror((nng_err) rv));
			VR_CHECK(vs_now() - t0 < 5, "C05:pub-send-slow", "PUB send took %llu virtual ms", (unsigned long long) (vs_now() - t0));
			vs_settle();
			npub++;
			int nm = 0, nn = 0;
			for (int k = 0; k < 4; k++) {
				Ctx &x = W.c[k];
				if (!x.open)
					continue;
				if (!matches(x, b)) {
					nn++;
					continue;
				}
				nm++;
				if (x.pending && !x.done) {
					// a receive is waiting: model says it gets this message directly
					VR_CHECK(all_empty(x), "harness:pending-nonempty", "pending with non-empty model");
				}
				for (auto &q : x.cand) {
					if (x.pending) {
						q.push_back(b);
					} else if (q.size() >= x.cap) {
						vr_tag("overflow");
						if (x.prefnew) {
							q.pop_front();
							q.push_back(b);
						}
					} else
						q.push_back(b);
				}
			}
			if (nm && nn)
				vr_tag("mixed_match");
			if (nm)
				nmatch_some++;
			int ndirect = 0;
			for (int k = 0; k < 4; k++)
				if (W.c[k].open && W.c[k].pending && W.c[k].done)
					ndirect++;
			if (ndirect >= 2)
				vr_tag("one_publication_completes_2_receives");
			for (int k = 0; k < 4; k++)
				if (W.c[k].open && W.c[k].pending) {
					if (matches(W.c[k], b))
						VR_CHECK(W.c[k].done == 1, "C05:pending-not-completed",
						    "slot %d had a receive pending and the published message matches, but it did not complete", k);
					finish_pending(W, k);
				}
			continue;
		}
		if (!c.open)
			continue;
		if (n == "ctxclose") {
			if (s == 0)
				continue;
			if (c.pending) {
				nng_aio_cancel(c.aio);
				nng_aio_wait(c.aio);
				if (nng_aio_result(c.aio) == 0)
					nng_msg_free(nng_aio_get_msg(c.aio));
				c.pending = false;
			}
			H_OK(nng_ctx_close(c.ctx));
			if (c.aio)
				nng_aio_free(c.aio);
			c = Ctx();
		} else if (n == "sub" || n == "unsub") {
			Body t = o->nd ? Body((const char *) o->d[0], o->dl[0]) : Body();
			static const char none[1] = {0};
			const void *tp = t.empty() ? (const void *) none : (const void *) t.data();
			int         rv;
			if (n == "sub") {
				rv = s == 0 ? nng_sub0_socket_subscribe(W.sub, tp, t.size()) : nng_sub0_ctx_subscribe(c.ctx, tp, t.size());
				VR_CHECK(rv == 0, "C05:subscribe-fail", "subscribe -> %d", rv);
				if (c.topics.count(t))
					vr_tag("dup_topic");
				c.topics.insert(t);
			} else {
				rv = s == 0 ? nng_sub0_socket_unsubscribe(W.sub, tp, t.size()) : nng_sub0_ctx_unsubscribe(c.ctx, tp, t.size());
				if (!c.topics.count(t)) {
					VR_CHECK(rv == NNG_ENOENT, "C05:unsubscribe-missing", "unsubscribe of absent topic -> %d", rv);
				} else {
					VR_CHECK(rv == 0, "C05:unsubscribe-fail", "unsubscribe -> %d", rv);
					c.topics.erase(t);
					for (auto &q : c.cand) {
						std::deque<Body> nq;
						for (auto &b : q)
							if (matches(c, b))
								nq.push_back(b);
						if (nq.size() != q.size())
							vr_tag("unsub_purge");
						q = nq;
					}
				}
			}
		} else if (n == "recv") {
			if (c.pending)
				continue;
			nng_msg *m  = nullptr;
			uint64_t t0 = vs_now();
			int      rv = do_recv(W, s, &m);
			VR_CHECK(vs_now() - t0 < 5, "C05:nb-recv-slow", "non-blocking receive took %llu virtual ms",
			    (unsigned long long) (vs_now() - t0));
			if (rv != 0) {
				VR_CHECK(rv == NNG_EAGAIN, "C05:recv-empty-code", "receive on empty queue -> %d", rv);
				VR_CHECK(!none_empty(c), "C05:missing-delivery", "slot %d: receive returned %d but the model holds %zu message(s), head %s", s, rv, longest(c).size(),
				    hex(longest(c).front()).c_str());
				narrow_to_empty(c);
			} else {
				if (all_empty(c)) {
					Body got((const char *) nng_msg_body(m), nng_msg_len(m));
					vr_fail("C05:unexpected-delivery", "slot %d received %s but the model queue is empty (no matching subscription / purged / dropped)", s,
					    hex(got).c_str());
				}
				check_msg(c, s, m, "receive");
				vr_tag("delivered");
			}
		} else if (n == "arecv") {
			if (c.pending)
				continue;
			if (!c.aio)
				H_OK(nng_aio_alloc(&c.aio, aio_cb, &c));
			nng_aio_set_timeout(c.aio, NNG_DURATION_INFINITE);
			c.done = 0;
			if (s == 0)
				nng_socket_recv(W.sub, c.aio);
			else
				nng_ctx_recv(c.ctx, c.aio);
			vs_settle();
			c.pending = true;
			if (c.done == 1) {
				VR_CHECK(!all_empty(c), "C05:arecv-spurious", "async receive completed (%d) although nothing is queued", nng_aio_result(c.aio));
				finish_pending(W, s);
			} else {
				VR_CHECK(!none_empty(c), "C05:arecv-not-immediate", "async receive with %zu queued message(s) did not complete", longest(c).size());
				narrow_to_empty(c);
				vr_tag("pending_recv");
			}
		} else if (n == "rbuf") {
			int v = (int) vop_arg(o, 1, 1);
			if (v < 1 || v > 8192)
				continue;
			int rv = s == 0 ? nng_socket_set_int(W.sub, NNG_OPT_RECVBUF, v) : nng_ctx_set_int(c.ctx, NNG_OPT_RECVBUF, v);
			VR_CHECK(rv == 0, "C05:recvbuf-set", "set RECVBUF %d -> %d", v, rv);
			std::vector<std::deque<Body>> nc;
			for (auto &q : c.cand) {
				if (q.size() <= (size_t) v) {
					nc.push_back(q);
					continue;
				}
				vr_tag("resize_drop");
				nc.push_back(std::deque<Body>(q.begin(), q.begin() + v));
				nc.push_back(std::deque<Body>(q.end() - v, q.end()));
			}
			std::sort(nc.begin(), nc.end());
			nc.erase(std::unique(nc.begin(), nc.end()), nc.end());
			c.cand = nc;
			c.cap  = (size_t) v;
			if (s == 0)
				W.sock_cap = (size_t) v;
			int got = 0;
			rv = s == 0 ? nng_socket_get_int(W.sub, NNG_OPT_RECVBUF, &got) : nng_ctx_get_int(c.ctx, NNG_OPT_RECVBUF, &got);
			VR_CHECK(rv == 0 && got == v, "C05:recvbuf-get", "RECVBUF reads back %d (rv %d), set %d", got, rv, v);
		} else if (n == "pref") {
			bool v  = vop_arg(o, 1, 1) != 0;
			int  rv = s == 0 ? nng_socket_set_bool(W.sub, NNG_OPT_SUB_PREFNEW, v) : nng_ctx_set_bool(c.ctx, NNG_OPT_SUB_PREFNEW, v);
			VR_CHECK(rv == 0, "C05:prefnew-set", "set PREFNEW -> %d", rv);
			c.prefnew = v;
			if (s == 0)
				W.sock_prefnew = v;
			if (!v)
				vr_tag("prefold");
		}
	}
	// final drain: everything the model holds must come out, in order, and nothing else
	for (int s = 0; s < 4; s++) {
		Ctx &c = W.c[s];
		if (!c.open)
			continue;
		if (c.pending) {
			nng_aio_cancel(c.aio);
			nng_aio_wait(c.aio);
			VR_CHECK(nng_aio_result(c.aio) == NNG_ECANCELED, "C05:cancel-result", "cancelled receive finished with %d", nng_aio_result(c.aio));
			c.pending = false;
		}
		for (;;) {
			nng_msg *m  = nullptr;
			int      rv = do_recv(W, s, &m);
			if (rv != 0) {
				VR_CHECK(rv == NNG_EAGAIN, "C05:recv-empty-code", "final drain -> %d", rv);
				VR_CHECK(!none_empty(c), "C05:missing-delivery", "slot %d: final drain ended but the model still holds %zu message(s), head %s", s, longest(c).size(),
				    hex(longest(c).front()).c_str());
				narrow_to_empty(c);
				break;
			}
			if (all_empty(c)) {
				Body got((const char *) nng_msg_body(m), nng_msg_len(m));
				vr_fail("C05:unexpected-delivery", "slot %d: final drain produced %s, model queue is empty", s, hex(got).c_str());
			}
			check_msg(c, s, m, "final drain");
		}
		if (c.aio)
			nng_aio_free(c.aio);
		if (s != 0)
			nng_ctx_close(c.ctx);
	}
	if (nmatch_some && npub > nmatch_some)
		vr_tag("some_unmatched");
	nng_socket_close(W.pub[0]);
	nng_socket_close(W.pub[1]);
	nng_socket_close(W.sub);
	h_end();
	return 0;
}

using namespace rc;

Gen<std::string>
genBytes(int maxlen)
{
	// 3 letters + NUL + 0xff alphabet
	return gen::map(gen::resize(maxlen, gen::container<std::vector<uint8_t>>(gen::element<uint8_t>('a', 'b', 'c', 0x00, 0xff))),
	    [maxlen](std::vector<uint8_t> v) {
		    if ((int) v.size() > maxlen)
			    v.resize(maxlen);
		    return pbt::hexs(v);
	    });
}

Gen<std::string>
genOp()
{
	return gen::exec([]() {
		std::ostringstream o;
		int s = *gen::weightedElement<int>({{5, 0}, {3, 1}, {2, 2}, {1, 3}});
		int k = *gen::weightedElement<int>({{14, 0}, {8, 1}, {4, 2}, {8, 3}, {2, 4}, {3, 5}, {2, 6}, {3, 7}, {1, 8}, {2, 9}, {2, 10}});
		switch (k) {
		case 10: o << "pubjam 0 " << *pbt::range<int>(2, 12) << " " << *gen::element(1, 2, 3, 4, 4, 8); break;
		case 0: o << "pub " << *pbt::range<int>(0, 1) << " " << *genBytes(6); break;
		case 1: o << "sub " << s << " " << *genBytes(4); break;
		case 2: o << "unsub " << s << " " << *genBytes(3); break;
		case 3: o << "recv " << s; break;
		case 4: o << "arecv " << s; break;
		case 5: o << "rbuf " << s << " " << *gen::weightedElement<int>({{4, 1}, {4, 2}, {3, 3}, {3, 4}, {1, 5}, {1, 8}, {1, 16}}); break;
		case 6: o << "pref " << s << " " << *pbt::range<int>(0, 1); break;
		case 7: o << "ctxopen " << *pbt::range<int>(1, 3); break;
		case 8: o << "ctxclose " << *pbt::range<int>(1, 3); break;
		case 9: {
			// several receivers waiting for the same publication: contexts (and the socket) subscribed to a common prefix, each with a
			// receive pending, then one matching message
			std::string topic = *genBytes(2);
			int         nctx  = *pbt::range<int>(2, 3);
			bool        sock  = *pbt::range<int>(0, 1) != 0;
			for (int q = 1; q <= nctx; q++)
				o << "ctxopen " << q << "\nsub " << q << " " << topic << "\narecv " << q << "\n";
			if (sock)
				o << "sub 0 " << topic << "\narecv 0\n";
			o << "pub " << *pbt::range<int>(0, 1) << " " << topic << (*genBytes(3)).substr(1);
			break;
		}
		}
		return o.str();
	});
}

std::string
gen_c05()
{
	std::ostringstream t;
	int mode = *pbt::welem<int>({{3, 0}, {2, 1}, {1, 2}, {2, 3}});
	t << "cfg " << *pbt::range<int>(1, 1000000) << " " << mode << " " << (mode == 3 ? *gen::element(5, 20, 50) : *gen::element(10, 30, 60)) << " " << *pbt::range<int>(1, 3)
	  << " " << (mode == 3 ? *gen::element(60, 150, 400) : 400) << " 0\n";
	// usually start small so that overflow is reachable
	if (*gen::weightedElement<int>({{3, 1}, {1, 0}}))
		t << "rbuf 0 " << *pbt::range<int>(1, 4) << "\n";
	auto ops = *gen::container<std::vector<std::string>>(genOp());
	for (auto &l : ops)
		t << l << "\n";
	return t.str();
}

} // namespace

int
main(int argc, char **argv)
{
	pbt::PropSpec sp;
	sp.id   = "C05";
	sp.gen  = gen_c05;
	sp.exec = exec_c05;
	sp.rule = "random histories of subscribe/unsubscribe/publish/receive(nb + pending aio)/RECVBUF/PREFNEW/ctx open+close on a SUB "
	          "socket + up to 3 contexts fed by two PUB sockets over inproc, under fifo/random/pct schedules with quiescence after "
	          "each publish; exact per-context model (topic set, bounded FIFO, drop policy). Non-trivial = a message arrived while "
	          ">=1 context matched and >=1 did not, or an overflow, unsubscribe purge or shrinking resize happened; distinct by case hash";
	sp.nontrivial = [](const std::set<std::string> &t) {
		return t.count("mixed_match") || t.count("overflow") || t.count("unsub_purge") || t.count("resize_drop");
	};
	return pbt::pbt_main(argc, argv, sp);
}
