// C15: non-blocking calls never block; poll descriptors mirror readiness.
// Random histories drive a socket of every protocol (cooked and raw) through its reachable
// states; at every quiescent point a probe compares poll(2) on the send/recv descriptors with
// the result of the corresponding NNG_FLAG_NONBLOCK operation:
//      R == 0  =>  P (no missed wake-up)          P  =>  R != NNG_EAGAIN (no busy loop)
#include "pbt.hpp"
#include "nngh.h"
#include <poll.h>

namespace {

struct Proto {
	const char *name;
	int (*open_a)(nng_socket *);
	int (*open_b)(nng_socket *);
	bool a_sends, a_recvs, b_sends, b_recvs;
	int  rawhdr;
	const char *peer; // raw A: 0 none, 1 needs be32 id header with high bit, 2 echo only, 3 pair1 hop header
};

static const Proto kProtos[] = {
    {"pair0", nng_pair0_open, nng_pair0_open, true, true, true, true, 0, "pair0"},
    {"pair1", nng_pair1_open, nng_pair1_open, true, true, true, true, 0, "pair1"},
    {"push", nng_push0_open, nng_pull0_open, true, false, false, true, 0, "pull"},
    {"pull", nng_pull0_open, nng_push0_open, false, true, true, false, 0, "push"},
    {"pub", nng_pub0_open, nng_sub0_open, true, false, false, true, 0, "sub"},
    {"sub", nng_sub0_open, nng_pub0_open, false, true, true, false, 0, "pub"},
    {"req", nng_req0_open, nng_rep0_open, true, true, true, true, 0, "rep"},
    {"rep", nng_rep0_open, nng_req0_open, true, true, true, true, 0, "req"},
    {"surveyor", nng_surveyor0_open, nng_respondent0_open, true, true, true, true, 0, "respondent"},
    {"respondent", nng_respondent0_open, nng_surveyor0_open, true, true, true, true, 0, "surveyor"},
    {"bus", nng_bus0_open, nng_bus0_open, true, true, true, true, 0, "bus"},
    // raw A, cooked B
    {"xpair0", nng_pair0_open_raw, nng_pair0_open, true, true, true, true, 0, "pair0"},
    {"xpair1", nng_pair1_open_raw, nng_pair1_open, true, true, true, true, 3, "pair1"},
    {"xpush", nng_push0_open_raw, nng_pull0_open, true, false, false, true, 0, "pull"},
    {"xpull", nng_pull0_open_raw, nng_push0_open, false, true, true, false, 0, "push"},
    {"xpub", nng_pub0_open_raw, nng_sub0_open, true, false, false, true, 0, "sub"},
    {"xsub", nng_sub0_open_raw, nng_pub0_open, false, true, true, false, 0, "pub"},
    {"xreq", nng_req0_open_raw, nng_rep0_open, true, true, true, true, 1, "rep"},
    {"xrep", nng_rep0_open_raw, nng_req0_open, true, true, true, true, 2, "req"},
    {"xsurveyor", nng_surveyor0_open_raw, nng_respondent0_open, true, true, true, true, 1, "respondent"},
    {"xrespondent", nng_respondent0_open_raw, nng_surveyor0_open, true, true, true, true, 2, "surveyor"},
    {"xbus", nng_bus0_open_raw, nng_bus0_open, true, true, true, true, 0, "bus"},
};
static const int kNProtos = (int) (sizeof(kProtos) / sizeof(kProtos[0]));

struct World {
	const Proto *p;
	nng_socket   s[3]; // 0 = socket under test, 1 and 2 = peers of the matching protocol
	nng_dialer   d, d2;
	bool         connected = false, connected2 = false;
	std::vector<nng_pipe> pipes; // live pipes of the socket under test, in order of arrival
	nng_msg     *last[2]   = {nullptr, nullptr}; // last message received on a raw A (for forwarding)
	uint32_t     tag       = 1;
	std::set<std::string> states;
	// round 7: up to two contexts on the socket under test (req, rep, sub, surveyor, respondent support them)
	nng_ctx      ctx[2];
	bool         ctx_open[2] = {false, false};
};

static const char *
rclass(int rv)
{
	switch (rv) {
	case 0: return "ok";
	case NNG_EAGAIN: return "eagain";
	case NNG_ESTATE: return "estate";
	case NNG_ENOTSUP: return "enotsup";
	default: return "other";
	}
}

static nng_msg *
fresh(World &W, int x, bool &needs_fwd)
{
	needs_fwd = false;
	nng_msg *m = h_msg(W.tag++, 3);
	if (x == 0) {
		switch (W.p->rawhdr) {
		case 1: nng_msg_header_append_u32(m, 0x80000000u | W.tag); break;
		case 3: nng_msg_header_append_u32(m, 1); break;
		case 2:
			// raw REP/RESPONDENT can only answer something it received
			nng_msg_free(m);
			m = nullptr;
			if (W.last[0]) {
				m         = W.last[0];
				W.last[0] = nullptr;
			}
			needs_fwd = true;
			break;
		}
	}
	return m;
}

static void
keep(World &W, int x, nng_msg *m)
{
	if (x == 0 && W.p->rawhdr == 2) {
		if (W.last[0])
			nng_msg_free(W.last[0]);
		W.last[0] = m; // keeps the routing header pushed by the raw socket
	} else
		nng_msg_free(m);
}

static World *gW;
static void
pipe_ev(nng_pipe p, nng_pipe_ev ev, void *)
{
	auto &v = gW->pipes;
	if (ev == NNG_PIPE_EV_ADD_POST)
		v.push_back(p);
	else
		for (size_t i = 0; i < v.size(); i++)
			if (nng_pipe_id(v[i]) == nng_pipe_id(p)) {
				v.erase(v.begin() + (long) i);
				break;
			}
}

// one direction of the probe
static void
probe(World &W, int x, bool send)
{
	nng_socket s  = W.s[x];
	int        fd = -1;
	int        rv = send ? nng_socket_get_send_poll_fd(s, &fd) : nng_socket_get_recv_poll_fd(s, &fd);
	if (rv != 0) {
		VR_CHECK(rv == NNG_ENOTSUP, "C15:pollfd-error", "%s: get %s poll fd -> %d", W.p->name, send ? "send" : "recv", rv);
		return;
	}
	struct pollfd pf = {fd, POLLIN, 0};
	int           P  = poll(&pf, 1, 0) > 0 && (pf.revents & POLLIN);
	uint64_t      t0 = vs_now();
	int           R;
	const char   *who = x == 0 ? W.p->name : "peer";
	if (send) {
		bool     fwd;
		nng_msg *m = fresh(W, x, fwd);
		if (m == nullptr)
			return; // nothing to forward: direction cannot be probed now
		R = nng_sendmsg(s, m, NNG_FLAG_NONBLOCK);
		if (R != 0) {
			VR_CHECK(at_is_live(m), "C15:failed-send-consumed-message", "%s: non-blocking send failed with %d but the message was released",
			    who, R);
			nng_msg_free(m);
		}
	} else {
		nng_msg *m = nullptr;
		R = nng_recvmsg(s, &m, NNG_FLAG_NONBLOCK);
		if (R == 0)
			keep(W, x, m);
	}
	uint64_t dt = vs_now() - t0;
	VR_CHECK(dt <= 3, "C15:nonblock-blocked", "%s: non-blocking %s took %llu virtual ms (result %d)", who, send ? "send" : "recv",
	    (unsigned long long) dt, R);
	if (x == 0) {
		char st[64];
		snprintf(st, sizeof st, "%s:P%d:%s", send ? "snd" : "rcv", P, rclass(R));
		W.states.insert(st);
	}
	std::string pname = x == 0 ? W.p->name : W.p->peer;
	if (R == 0 && !P)
		vr_soft_fail(("C15:missed-wakeup:" + pname + (send ? ":send" : ":recv")).c_str(),
		    "%s (%s of %s world): non-blocking %s succeeded but the %s descriptor did not poll readable", pname.c_str(), who, W.p->name,
		    send ? "send" : "recv", send ? "send" : "recv");
	if (P && R == NNG_EAGAIN)
		vr_soft_fail(("C15:busy-loop:" + pname + (send ? ":send" : ":recv")).c_str(),
		    "%s (%s of %s world): %s descriptor polls readable but non-blocking %s returned NNG_EAGAIN", pname.c_str(), who, W.p->name,
		    send ? "send" : "recv", send ? "send" : "recv");
	vs_settle();
}

int
exec_c15(const vcase *vc)
{
	World W;
	h_cfg cfg;
	if (vc->nops < 2 || strcmp(vc->ops[0].name, "cfg") != 0 || strcmp(vc->ops[1].name, "world") != 0)
		return 0;
	h_cfg_from_op(&cfg, &vc->ops[0]);
	int pi = (int) vop_arg(&vc->ops[1], 0, 0);
	if (pi < 0 || pi >= kNProtos)
		return 0;
	W.p = &kProtos[pi];
	if (h_begin(&cfg) != 0)
		return 0;
	vr_tagf("proto_%s", W.p->name);
	gW = &W;
	H_OK(W.p->open_a(&W.s[0]));
	H_OK(W.p->open_b(&W.s[1]));
	H_OK(W.p->open_b(&W.s[2]));
	H_OK(nng_pipe_notify(W.s[0], NNG_PIPE_EV_ADD_POST, pipe_ev, NULL));
	H_OK(nng_pipe_notify(W.s[0], NNG_PIPE_EV_REM_POST, pipe_ev, NULL));
	H_OK(nng_listen(W.s[0], "inproc://c15", NULL, 0));
	// subscribers take everything by default so that traffic flows
	if (strcmp(W.p->name, "sub") == 0)
		H_OK(nng_sub0_socket_subscribe(W.s[0], "", 0));
	if (strcmp(W.p->name, "pub") == 0 || strcmp(W.p->name, "xpub") == 0) {
		H_OK(nng_sub0_socket_subscribe(W.s[1], "", 0));
		H_OK(nng_sub0_socket_subscribe(W.s[2], "", 0));
	}
	vs_settle();

	for (int i = 2; i < vc->nops; i++) {
		const vop  *o = &vc->ops[i];
		std::string n = o->name;
		vr_at(i, o->name);
		int x = (int) vop_arg(o, 0, 0);
		x     = x == 2 ? 2 : (x & 1);
		if (n == "conn2") {
			// a second peer (PAIR refuses it; the fan-in / fan-out protocols get a second pipe)
			if (W.connected2)
				continue;
			H_OK(nng_dialer_create(&W.d2, W.s[2], "inproc://c15"));
			nng_dialer_start(W.d2, NNG_FLAG_NONBLOCK);
			W.connected2 = true;
			vs_settle();
			vr_tag("second_peer");
		} else if (n == "drop2") {
			if (!W.connected2)
				continue;
			nng_dialer_close(W.d2);
			W.connected2 = false;
			vs_settle();
		} else if (n == "pclose") {
			// the socket under test closes one of its own pipes (possibly one that holds an unread message)
			if (W.pipes.empty())
				continue;
			nng_pipe p = W.pipes[(size_t) vop_arg(o, 1, 0) % W.pipes.size()];
			nng_pipe_close(p);
			vs_settle();
			vr_tag("own_pipe_closed");
		} else if (n == "conn") {
			if (W.connected)
				continue;
			H_OK(nng_dial(W.s[1], "inproc://c15", &W.d, 0));
			W.connected = true;
			vs_settle();
			vr_tag("connected");
		} else if (n == "drop") {
			if (!W.connected)
				continue;
			nng_dialer_close(W.d);
			W.connected = false;
			vs_settle();
			vr_tag("disconnect");
		} else if (n == "send") {
			bool sends = x == 0 ? W.p->a_sends : W.p->b_sends;
			if (!sends)
				continue;
			probe(W, x, true);
		} else if (n == "recv") {
			bool recvs = x == 0 ? W.p->a_recvs : W.p->b_recvs;
			if (!recvs)
				continue;
			probe(W, x, false);
		} else if (n == "probe") {
			// both directions, whether supported or not (unsupported must fail at once, never EAGAIN-with-readable)
			probe(W, x, false);
			probe(W, x, true);
		} else if (n == "sbuf" || n == "rbuf") {
			int v  = (int) vop_arg(o, 1, 1);
			int rv = nng_socket_set_int(W.s[x], n == "sbuf" ? NNG_OPT_SENDBUF : NNG_OPT_RECVBUF, v);
			(void) rv; // not every protocol has the option
			if (rv == 0)
				vr_tag("resize");
			vs_settle();
		} else if (n == "wait") {
			vs_sleep((int) vop_arg(o, 1, 10));
			vs_settle();
		} else if (n == "subs" || n == "unsubs") {
			int si = -1;
			if (strcmp(W.p->name, "sub") == 0)
				si = 0;
			else if (strcmp(W.p->name, "pub") == 0 || strcmp(W.p->name, "xpub") == 0)
				si = 1;
			if (si < 0)
				continue;
			if (n == "subs")
				nng_sub0_socket_subscribe(W.s[si], "", 0);
			else {
				nng_sub0_socket_unsubscribe(W.s[si], "", 0);
				vr_tag("unsubscribe");
			}
			vs_settle();
		} else if (n == "ctxopen") {
			// a context on the socket under test: it shares the pipes (and, for SUB, the arrivals) with the socket,
			// whose descriptors must keep mirroring the SOCKET's own state whatever the contexts do
			int k = (int) vop_arg(o, 1, 0) & 1;
			if (W.ctx_open[k])
				continue;
			int rv = nng_ctx_open(&W.ctx[k], W.s[0]);
			if (rv != 0) {
				VR_CHECK(rv == NNG_ENOTSUP, "C15:ctx-open", "%s: nng_ctx_open -> %d", W.p->name, rv);
				continue;
			}
			W.ctx_open[k] = true;
			if (strcmp(W.p->name, "sub") == 0 && vop_arg(o, 2, 1) != 0)
				nng_sub0_ctx_subscribe(W.ctx[k], "", 0);
			vr_tag("context");
			vs_settle();
		} else if (n == "ctxclose") {
			int k = (int) vop_arg(o, 1, 0) & 1;
			if (!W.ctx_open[k])
				continue;
			nng_ctx_close(W.ctx[k]);
			W.ctx_open[k] = false;
			vs_settle();
		} else if (n == "ctxrecv" || n == "ctxsend") {
			int k = (int) vop_arg(o, 1, 0) & 1;
			if (!W.ctx_open[k])
				continue;
			uint64_t t0 = vs_now();
			int      R;
			if (n == "ctxrecv") {
				nng_msg *m = nullptr;
				R          = nng_ctx_recvmsg(W.ctx[k], &m, NNG_FLAG_NONBLOCK);
				if (R == 0) {
					nng_msg_free(m);
					vr_tag("context_received");
				}
			} else {
				nng_msg *m = h_msg(W.tag++, 3);
				R          = nng_ctx_sendmsg(W.ctx[k], m, NNG_FLAG_NONBLOCK);
				if (R != 0) {
					VR_CHECK(at_is_live(m), "C15:failed-send-consumed-message", "%s context: non-blocking send failed with %d but the message was released", W.p->name, R);
					nng_msg_free(m);
				} else
					vr_tag("context_sent");
			}
			uint64_t dt = vs_now() - t0;
			VR_CHECK(dt <= 3, "C15:nonblock-blocked", "%s context: non-blocking %s took %llu virtual ms (result %d)", W.p->name, n.c_str(), (unsigned long long) dt, R);
			vs_settle();
		} else if (n == "stime") {
			// short survey time so that surveys expire within the history
			int rv = nng_socket_set_ms(W.s[x], NNG_OPT_SURVEYOR_SURVEYTIME, (nng_duration) vop_arg(o, 1, 50));
			(void) rv;
		}
	}
	vr_count(0, (long) W.states.size());
	if (W.states.size() >= 3)
		vr_tag("three_states");
	for (auto &s : W.states)
		vr_tagf("%s", s.c_str());
	for (int k = 0; k < 2; k++)
		if (W.last[k])
			nng_msg_free(W.last[k]);
	for (int k = 0; k < 2; k++)
		if (W.ctx_open[k] && vop_arg(&vc->ops[0], 0, 0) % 2 == 0)
			nng_ctx_close(W.ctx[k]); // (otherwise the context dies with its socket)
	nng_socket_close(W.s[2]);
	nng_socket_close(W.s[1]);
	nng_socket_close(W.s[0]);
	h_end();
	return 0;
}

using namespace rc;

Gen<std::string>
genOp()
{
	return gen::exec([]() {
		std::ostringstream o;
		int x = *gen::weightedElement<int>({{3, 0}, {2, 1}, {1, 2}});
		int k = *gen::weightedElement<int>({{10, 0}, {10, 1}, {6, 2}, {2, 3}, {1, 4}, {2, 5}, {2, 6}, {1, 7}, {1, 8}, {2, 9}, {1, 10}, {2, 11}, {2, 12}, {3, 13}, {2, 14}, {1, 15}});
		switch (k) {
		case 0: o << "send " << x; break;
		case 1: o << "recv " << x; break;
		case 2: o << "probe " << x; break;
		case 3: o << "conn"; break;
		case 4: o << "drop"; break;
		case 5: o << "sbuf " << x << " " << *pbt::range<int>(0, 4); break;
		case 6: o << "rbuf " << x << " " << *pbt::range<int>(0, 4); break;
		case 7: o << "wait 0 " << *gen::element(1, 20, 60, 200, 1100); break;
		case 8: o << (*gen::arbitrary<bool>() ? "subs" : "unsubs"); break;
		case 9: o << "conn2"; break;
		case 10: o << "drop2"; break;
		case 11: o << "pclose 0 " << *pbt::range<int>(0, 3); break;
		case 12: o << "ctxopen 0 " << *pbt::range<int>(0, 1) << " " << *gen::weightedElement<int>({{4, 1}, {1, 0}}); break;
		case 13: o << "ctxrecv 0 " << *pbt::range<int>(0, 1); break;
		case 14: o << "ctxsend 0 " << *pbt::range<int>(0, 1); break;
		case 15: o << "ctxclose 0 " << *pbt::range<int>(0, 1); break;
		}
		return o.str();
	});
}

std::string
gen_c15()
{
	std::ostringstream t;
	int mode = *pbt::welem<int>({{4, 0}, {1, 1}, {1, 2}, {1, 3}});
	t << "cfg " << *pbt::range<int>(1, 1000000) << " " << mode << " " << (mode == 3 ? *gen::element(5, 20) : *gen::element(10, 30)) << " " << *pbt::range<int>(1, 3) << " " << (mode == 3 ? *gen::element(60, 150, 400) : 400) << " 0\n";
	t << "world " << *pbt::range<int>(0, kNProtos - 1) << "\n";
	if (*gen::weightedElement<int>({{1, 0}, {3, 1}}))
		t << "stime 0 " << *gen::element(30, 100, 1000) << "\nstime 1 " << *gen::element(30, 100, 1000) << "\n";
	if (*gen::weightedElement<int>({{1, 0}, {5, 1}}))
		t << "conn\n";
	auto ops = *gen::container<std::vector<std::string>>(genOp());
	for (auto &l : ops)
		t << l << "\n";
	return t.str();
}

} // namespace

int
main(int argc, char **argv)
{
	pbt::PropSpec sp;
	sp.id   = "C15";
	sp.gen  = gen_c15;
	sp.exec = exec_c15;
	sp.rule = "random histories (send/recv/probe on both ends, connect/disconnect, SENDBUF/RECVBUF resize, virtual waits, "
	          "subscribe/unsubscribe, and - round 7 - up to two contexts opened on the socket under test with non-blocking context sends / receives) over 22 socket kinds (11 cooked + 11 raw) against a cooked peer on inproc; at each "
	          "quiescent point poll(2) on the send/recv descriptor is compared with the non-blocking operation. Non-trivial = "
	          "the socket under test was observed in >= 3 distinct (direction, pollable, result) states; distinct by case hash";
	sp.nontrivial = [](const std::set<std::string> &t) { return t.count("three_states") > 0; };
	return pbt::pbt_main(argc, argv, sp);
}
