// chunk_oracle: reference decoder for the HTTP/1.1 chunked transfer coding (RFC 9112 section 7.1) and the check
// shared by the rapidcheck driver (props/C16P.cpp) and the libFuzzer target (fuzz/fz_chunk.cc).
#pragma once
#include "caseio.h"
#include <nng/nng.h>
#include <string>
#include <vector>
#include <cstring>
#include <cstdint>

extern "C" int sh_chunks_run(const unsigned char *data, size_t n, const size_t *cuts, int ncuts, size_t maxsz, unsigned char *out, size_t outcap, size_t *outlen, size_t *consumed,
    size_t *nchunks);

namespace chko {

enum Verdict { DONE, INCOMPLETE, BAD };
struct Ref {
	Verdict     v = INCOMPLETE;
	size_t      consumed = 0;
	std::string body;
	size_t      nchunks = 0;
	const char *why     = "";
	bool        huge    = false; // a chunk of more than 1 MiB is announced and allowed by the limit (nng allocates it up front: not fed to the parser)
};

static bool
printable(unsigned char c)
{
	return c >= 0x20 && c <= 0x7e;
}

// strict reference: 1*HEXDIG [";" ext] CRLF data CRLF ... "0" [";" ext] CRLF *(trailer CRLF) CRLF
static Ref
decode(const std::string &in, size_t maxsz)
{
	Ref    r;
	size_t i = 0, n = in.size();
	for (;;) {
		// size line
		size_t             digits = 0;
		unsigned long long sz     = 0;
		bool               over   = false;
		while (i < n && isxdigit((unsigned char) in[i])) {
			int d = isdigit((unsigned char) in[i]) ? in[i] - '0' : (tolower(in[i]) - 'a' + 10);
			if (sz > (0xffffffffffffffffull - (unsigned) d) / 16)
				over = true;
			sz = sz * 16 + (unsigned) d;
			digits++;
			i++;
			if (over) {
				r.v   = BAD;
				r.why = "chunk size overflows";
				return r;
			}
		}
		if (i >= n)
			return r; // incomplete
		if (digits == 0) {
			r.v   = BAD;
			r.why = "chunk size line does not start with a hex digit";
			return r;
		}
		if (in[i] == ';') {
			i++;
			while (i < n && in[i] != '\r') {
				if (!printable((unsigned char) in[i])) {
					r.v   = BAD;
					r.why = "control character in chunk extension";
					return r;
				}
				i++;
			}
			if (i >= n)
				return r;
		}
		if (in[i] != '\r') {
			r.v   = BAD;
			r.why = "junk after chunk size";
			return r;
		}
		i++;
		if (i >= n)
			return r;
		if (in[i] != '\n') {
			r.v   = BAD;
			r.why = "CR without LF after chunk size";
			return r;
		}
		i++;
		if (sz == 0)
			break;
		if (sz > 0xfffffffffffffffdull || (maxsz > 0 && (r.body.size() > maxsz || sz > maxsz - r.body.size()))) {
			r.v   = BAD;
			r.why = "chunk exceeds the configured maximum";
			return r;
		}
		if (sz > (1ull << 20)) { // (the harness never feeds that much data: such a chunk can only be incomplete)
			r.huge = true;
			return r;
		}
		if (n - i < sz + 2) {
			// the data and its CRLF are not all here yet
			if (n - i > sz) {
				// enough to see the first terminator byte? nng checks the terminator only once both bytes are in
			}
			return r;
		}
		r.body.append(in, i, (size_t) sz);
		i += (size_t) sz;
		if (in[i] != '\r' || in[i + 1] != '\n') {
			r.v   = BAD;
			r.why = "chunk data not followed by CRLF";
			return r;
		}
		i += 2;
		r.nchunks++;
	}
	// trailer section
	for (;;) {
		size_t line = 0;
		while (i < n && in[i] != '\r') {
			if (!printable((unsigned char) in[i])) {
				r.v   = BAD;
				r.why = "control character in trailer";
				return r;
			}
			line++;
			i++;
		}
		if (i >= n)
			return r;
		i++;
		if (i >= n)
			return r;
		if (in[i] != '\n') {
			r.v   = BAD;
			r.why = "CR without LF in trailer";
			return r;
		}
		i++;
		if (line == 0)
			break;
	}
	r.v        = DONE;
	r.consumed = i;
	return r;
}

// run nng's parser over `in` cut at `cuts`, compare with the reference and with the unsplit run
static void
check(const std::string &in, size_t maxsz, const std::vector<size_t> &cuts)
{
	Ref                        ref = decode(in, maxsz);
	if (ref.huge) {
		vr_tag("huge_chunk_skipped");
		return;
	}
	std::vector<unsigned char> out(in.size() + 16), out1(in.size() + 16);
	size_t                     ol = 0, cons = 0, nch = 0, ol1 = 0, cons1 = 0, nch1 = 0;
	int rv1 = sh_chunks_run((const unsigned char *) in.data(), in.size(), nullptr, 0, maxsz, out1.data(), out1.size(), &ol1, &cons1, &nch1);
	int rv  = sh_chunks_run((const unsigned char *) in.data(), in.size(), cuts.data(), (int) cuts.size(), maxsz, out.data(), out.size(), &ol, &cons, &nch);
	auto cls = [](int r) { return r == 0 ? "complete" : r == NNG_EAGAIN ? "needs-more" : "error"; };
	if (rv == NNG_ENOMEM || rv1 == NNG_ENOMEM)
		return;
	// metamorphic: the segmentation does not change the outcome
	if (strcmp(cls(rv), cls(rv1)) != 0)
		vr_fail("C16:chunks-split-dependent", "chunked body parsed %s in one piece but %s when split into %zu reads (rv %d vs %d)", cls(rv1), cls(rv), cuts.size() + 1, rv1, rv);
	if (rv == 0 && (cons != cons1 || ol != ol1 || nch != nch1 || memcmp(out.data(), out1.data(), ol) != 0))
		vr_fail("C16:chunks-split-dependent", "chunked body decodes differently when split: %zu / %zu bytes consumed, %zu / %zu body bytes, %zu / %zu chunks", cons, cons1, ol, ol1, nch,
		    nch1);
	// differential against the reference decoder
	switch (ref.v) {
	case DONE:
		if (rv1 != 0)
			vr_fail("C16:good-chunks-refused", "well-formed chunked body refused (rv %d): %s", rv1, nng_strerror((nng_err) rv1));
		if (cons1 != ref.consumed || ol1 != ref.body.size() || memcmp(out1.data(), ref.body.data(), ol1) != 0)
			vr_fail("C16:chunks-decoded-wrong", "chunked body decoded to %zu bytes (consumed %zu), reference %zu bytes (consumed %zu)%s", ol1, cons1, ref.body.size(), ref.consumed,
			    ol1 == ref.body.size() ? ", content differs" : "");
		if (nch1 != ref.nchunks)
			vr_fail("C16:chunks-decoded-wrong", "%zu chunks, reference %zu", nch1, ref.nchunks);
		vr_tag("chunks_complete");
		break;
	case INCOMPLETE:
		if (rv1 == 0)
			vr_fail("C16:chunks-complete-early", "parser reports a complete chunked body for a truncated stream (%zu bytes)", in.size());
		if (rv1 != NNG_EAGAIN) {
			// an error before the reference can tell is acceptable only if the stream could not be completed into a valid one;
			// the reference returns INCOMPLETE only for prefixes of valid streams except inside chunk data (terminator not yet visible)
			vr_tag("early_error_on_prefix");
		} else
			vr_tag("chunks_incomplete");
		break;
	case BAD:
		if (rv1 == 0)
			vr_fail("C16:bad-chunks-accepted", "malformed chunked body accepted (%s)", ref.why);
		if (rv1 == NNG_EAGAIN && cons1 == in.size())
			vr_fail("C16:bad-chunks-accepted", "malformed chunked body not rejected: parser wants more after %zu bytes (%s)", cons1, ref.why);
		vr_tag("chunks_rejected");
		break;
	}
}

} // namespace chko
