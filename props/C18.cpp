// C18 (in-process part): nni_lmq as a bounded FIFO under put/get/resize/flush, and nng_id_map as a
// finite map with unique in-range ids.  Model-based: std::deque / std::map references.
#include "pbt.hpp"
#include <nng/nng.h>
#include <deque>
#include <arpa/inet.h>

extern "C" {
void  *sh_lmq_new(size_t cap);
void   sh_lmq_free(void *q);
int    sh_lmq_put(void *q, nng_msg *m);
int    sh_lmq_get(void *q, nng_msg **m);
int    sh_lmq_resize(void *q, size_t cap);
void   sh_lmq_flush(void *q);
size_t sh_lmq_len(void *q);
size_t sh_lmq_cap(void *q);
int    sh_lmq_full(void *q);
int    sh_lmq_empty(void *q);
void   sh_msg_clone(nng_msg *m);
int    sh_msg_shared(nng_msg *m);
}

namespace {

// ---------------------------------------------------------------- lmq
struct LmqState {
	void                            *q = nullptr;
	size_t                           cap = 0;
	std::vector<std::deque<uint32_t>> cand; // candidate contents (resize may drop from either end)
	std::map<uint32_t, nng_msg *>    held;  // tag -> message on which we keep an extra reference
	uint32_t                         next = 1;
	long                             gets = 0, puts = 0;
};

static void
lmq_audit(LmqState &S, const char *op)
{
	size_t len = sh_lmq_len(S.q);
	for (auto &c : S.cand)
		VR_CHECK(c.size() == len, "C18:lmq-len", "%s: len %zu, model %zu", op, len, c.size());
	VR_CHECK(sh_lmq_cap(S.q) == S.cap, "C18:lmq-cap", "%s: cap %zu, model %zu", op, sh_lmq_cap(S.q), S.cap);
	VR_CHECK(len <= S.cap, "C18:lmq-over-capacity", "%s: holds %zu > capacity %zu", op, len, S.cap);
	VR_CHECK(!!sh_lmq_full(S.q) == (len >= S.cap), "C18:lmq-full", "%s: full() wrong", op);
	VR_CHECK(!!sh_lmq_empty(S.q) == (len == 0), "C18:lmq-empty", "%s: empty() wrong", op);
	// ownership: a message is referenced by the queue iff the model holds it (each freed exactly once)
	for (auto it = S.held.begin(); it != S.held.end();) {
		bool inall = true, innone = true;
		for (auto &c : S.cand) {
			bool in = std::find(c.begin(), c.end(), it->first) != c.end();
			inall &= in;
			innone &= !in;
		}
		bool shared = sh_msg_shared(it->second);
		if (inall)
			VR_CHECK(shared, "C18:lmq-lost-ref", "%s: queued message %u no longer referenced by the queue", op, it->first);
		if (innone) {
			VR_CHECK(!shared, "C18:lmq-leak", "%s: message %u left the queue but is still referenced (leak)", op, it->first);
			nng_msg_free(it->second);
			it = S.held.erase(it);
			continue;
		}
		++it;
	}
}

// ---------------------------------------------------------------- id map
struct IdState {
	nng_id_map                 *m = nullptr;
	uint64_t                    lo = 0, hi = 0;
	std::map<uint64_t, uintptr_t> model;
	std::map<uint64_t, long>    issued_at_wrap; // id -> wrap counter when it was last issued by alloc
	long                        wraps = 0;
	bool                        have_prev = false;
	uint64_t                    prev = 0;
	uintptr_t                   nextval = 0x1000;
};

static void
id_audit(IdState &S, const char *op)
{
	// visit enumerates exactly the model
	std::map<uint64_t, uintptr_t> seen;
	uint32_t                      cur = 0;
	uint64_t                      k;
	void                         *v;
	int                           guard = 0;
	while (nng_id_visit(S.m, &k, &v, &cur)) {
		VR_CHECK(!seen.count(k), "C18:id-visit-dup", "%s: visit reported id %llu twice", op, (unsigned long long) k);
		seen[k] = (uintptr_t) v;
		VR_CHECK(++guard < 100000, "C18:id-visit-loop", "%s: visit does not terminate", op);
	}
	VR_CHECK(seen == S.model, "C18:id-visit-mismatch", "%s: visit saw %zu entries, model has %zu (or values differ)", op,
	    seen.size(), S.model.size());
	for (auto &e : S.model)
		VR_CHECK((uintptr_t) nng_id_get(S.m, e.first) == e.second, "C18:id-get", "%s: get(%llu) wrong", op,
		    (unsigned long long) e.first);
}

int
exec_c18(const vcase *c)
{
	LmqState L;
	IdState  I;
	for (int i = 0; i < c->nops; i++) {
		const vop  *o = &c->ops[i];
		std::string n = o->name;
		vr_at(i, o->name);
		long long a0 = vop_arg(o, 0, 0), a1 = vop_arg(o, 1, 0), a2 = vop_arg(o, 2, 0);
		// ------------ lmq
		if (n == "qinit") {
			if (L.q)
				continue;
			L      = LmqState();
			L.cap  = (size_t) a0;
			L.q    = sh_lmq_new(L.cap);
			L.cand = {{}};
			lmq_audit(L, "init");
		} else if (n[0] == 'q' && !L.q) {
			continue;
		} else if (n == "qput") {
			nng_msg *m;
			if (nng_msg_alloc(&m, 0) != 0)
				continue;
			uint32_t tag = L.next++;
			nng_msg_append_u32(m, tag);
			size_t len = sh_lmq_len(L.q);
			int    rv  = sh_lmq_put(L.q, m);
			if (len >= L.cap) {
				VR_CHECK(rv == NNG_EAGAIN, "C18:lmq-put-overfull", "put on full queue (len %zu cap %zu) returned %d", len,
				    L.cap, rv);
				nng_msg_free(m);
				vr_tag("put_full");
			} else {
				VR_CHECK(rv == 0, "C18:lmq-put-fail", "put with room (len %zu cap %zu) returned %d", len, L.cap, rv);
				sh_msg_clone(m);
				L.held[tag] = m;
				for (auto &cd : L.cand)
					cd.push_back(tag);
				L.puts++;
			}
			lmq_audit(L, "put");
		} else if (n == "qget") {
			nng_msg *m  = nullptr;
			int      rv = sh_lmq_get(L.q, &m);
			if (L.cand[0].empty()) {
				VR_CHECK(rv == NNG_EAGAIN, "C18:lmq-get-empty", "get on empty queue returned %d", rv);
			} else {
				VR_CHECK(rv == 0 && m != nullptr, "C18:lmq-get-fail", "get on non-empty queue returned %d", rv);
				auto it = std::find_if(L.held.begin(), L.held.end(), [&](auto &e) { return e.second == m; });
				VR_CHECK(it != L.held.end(), "C18:lmq-get-foreign", "get returned a message that was never queued / already released");
				uint32_t tag = it->first;
				VR_CHECK(nng_msg_len(m) == 4, "C18:lmq-corrupt", "message body corrupted");
				uint32_t body;
				memcpy(&body, nng_msg_body(m), 4);
				VR_CHECK(ntohl(body) == tag, "C18:lmq-corrupt", "message body corrupted");
				std::vector<std::deque<uint32_t>> keep;
				for (auto &cd : L.cand)
					if (!cd.empty() && cd.front() == tag) {
						cd.pop_front();
						keep.push_back(cd);
					}
				VR_CHECK(!keep.empty(), "C18:lmq-order", "get returned message %u, model head is %u (FIFO order / resize survivors violated)",
				    tag, L.cand[0].front());
				L.cand = keep;
				nng_msg_free(m); // the queue's reference (ours stays until audit)
				L.gets++;
				if (L.gets > 2)
					vr_tag("ring_offset");
			}
			lmq_audit(L, "get");
		} else if (n == "qresize") {
			size_t ncap = (size_t) a0;
			int    rv   = sh_lmq_resize(L.q, ncap);
			VR_CHECK(rv == 0, "C18:lmq-resize-fail", "resize(%zu) -> %d", ncap, rv);
			std::vector<std::deque<uint32_t>> nc;
			for (auto &cd : L.cand) {
				if (cd.size() <= ncap) {
					nc.push_back(cd);
					continue;
				}
				// only as many as no longer fit, from one end
				std::deque<uint32_t> pre(cd.begin(), cd.begin() + ncap), suf(cd.end() - ncap, cd.end());
				nc.push_back(pre);
				if (suf != pre)
					nc.push_back(suf);
				vr_tag("resize_drop");
			}
			if (!L.cand[0].empty()) {
				vr_tag("resize_nonempty");
				if (L.gets > 0)
					vr_tag("resize_nonempty_offset");
				if (L.cand[0].size() == ncap && (ncap & (ncap - 1)) == 0)
					vr_tag("resize_exact_pow2");
			}
			// dedupe
			std::sort(nc.begin(), nc.end());
			nc.erase(std::unique(nc.begin(), nc.end()), nc.end());
			L.cand = nc;
			L.cap  = ncap;
			lmq_audit(L, "resize");
		} else if (n == "qflush") {
			sh_lmq_flush(L.q);
			L.cand = {{}};
			lmq_audit(L, "flush");
		} else if (n == "qfini") {
			sh_lmq_free(L.q);
			L.q = nullptr;
			for (auto &e : L.held) {
				VR_CHECK(!sh_msg_shared(e.second), "C18:lmq-fini-leak", "fini left message %u referenced", e.first);
				nng_msg_free(e.second);
			}
			L.held.clear();
		}
		// ------------ id map
		else if (n == "minit") {
			if (I.m)
				continue;
			I    = IdState();
			I.lo = (uint64_t) a0;
			I.hi = (uint64_t) a1;
			if (I.lo == 0)
				I.lo = 1;
			if (I.hi <= I.lo)
				continue;
			int rv = nng_id_map_alloc(&I.m, I.lo, I.hi, a2 ? NNG_MAP_RANDOM : 0);
			VR_CHECK(rv == 0, "C18:id-map-alloc", "map alloc -> %d", rv);
			if (I.hi - I.lo < 8)
				vr_tag("tiny_range");
			if (I.hi > 0xffffffffull)
				vr_tag("range_gt32");
		} else if (n[0] == 'm' && !I.m) {
			continue;
		} else if (n == "malloc") {
			uint64_t  id  = 0;
			uintptr_t val = I.nextval++;
			// count live ids inside the range: alloc fails only when the range is exhausted
			uint64_t inrange = 0;
			for (auto &e : I.model)
				if (e.first >= I.lo && e.first <= I.hi)
					inrange++;
			bool full = inrange > I.hi - I.lo;
			if (full && I.model.size() <= I.hi - I.lo)
				continue; // cannot happen (all live ids in range); defensive
			if (!full && I.model.size() > I.hi - I.lo) {
				// ids set() outside the range count against nng's fullness test although free ids remain:
				// documented behaviour is about allocations within the range; do not judge this corner
				vr_tag("alloc_with_foreign_keys");
				continue;
			}
			int rv = nng_id_alloc(I.m, &id, (void *) val);
			if (full) {
				VR_CHECK(rv == NNG_ENOMEM, "C18:id-alloc-full", "alloc on exhausted range returned %d (id %llu)", rv,
				    (unsigned long long) id);
				vr_tag("alloc_full");
			} else {
				VR_CHECK(rv == 0, "C18:id-alloc-fail", "alloc with free ids returned %d", rv);
				VR_CHECK(id >= I.lo && id <= I.hi, "C18:id-out-of-range", "alloc returned %llu outside [%llu,%llu]",
				    (unsigned long long) id, (unsigned long long) I.lo, (unsigned long long) I.hi);
				VR_CHECK(!I.model.count(id), "C18:id-not-unique", "alloc returned live id %llu", (unsigned long long) id);
				if (I.have_prev && id <= I.prev) {
					I.wraps++;
					vr_tag("wrap");
				}
				auto it = I.issued_at_wrap.find(id);
				if (it != I.issued_at_wrap.end())
					VR_CHECK(I.wraps > it->second, "C18:id-reissued-before-wrap",
					    "id %llu reissued although the allocation sequence has not wrapped since its previous issue",
					    (unsigned long long) id);
				I.issued_at_wrap[id] = I.wraps;
				I.have_prev          = true;
				I.prev               = id;
				I.model[id]          = val;
			}
			id_audit(I, "alloc");
		} else if (n == "mset") {
			uint64_t  id  = (uint64_t) a0;
			uintptr_t val = I.nextval++;
			if (I.model.count(id))
				vr_tag("overwrite");
			int rv = nng_id_set(I.m, id, (void *) val);
			VR_CHECK(rv == 0, "C18:id-set-fail", "set(%llu) -> %d", (unsigned long long) id, rv);
			I.model[id] = val;
			id_audit(I, "set");
		} else if (n == "mget") {
			uint64_t id  = (uint64_t) a0;
			void    *v   = nng_id_get(I.m, id);
			auto     it  = I.model.find(id);
			uintptr_t ex = it == I.model.end() ? 0 : it->second;
			VR_CHECK((uintptr_t) v == ex, "C18:id-get", "get(%llu) returned %p, model %p", (unsigned long long) id, v,
			    (void *) ex);
		} else if (n == "mrem" || n == "mremk") {
			uint64_t id = (uint64_t) a0;
			if (n == "mremk") { // remove the k-th live id (keeps the op meaningful under shrinking)
				if (I.model.empty())
					continue;
				auto it = I.model.begin();
				std::advance(it, (size_t) a0 % I.model.size());
				id = it->first;
			}
			int rv = nng_id_remove(I.m, id);
			if (I.model.count(id)) {
				VR_CHECK(rv == 0, "C18:id-remove-fail", "remove(%llu) of live id -> %d", (unsigned long long) id, rv);
				I.model.erase(id);
				vr_tag("remove_live");
			} else
				VR_CHECK(rv == NNG_ENOENT, "C18:id-remove-missing", "remove(%llu) of absent id -> %d", (unsigned long long) id, rv);
			id_audit(I, "remove");
		} else if (n == "mfree") {
			nng_id_map_free(I.m);
			I.m = nullptr;
		}
	}
	if (L.q) {
		sh_lmq_free(L.q);
		for (auto &e : L.held) {
			VR_CHECK(!sh_msg_shared(e.second), "C18:lmq-fini-leak", "fini left message %u referenced", e.first);
			nng_msg_free(e.second);
		}
	}
	if (I.m)
		nng_id_map_free(I.m);
	if (I.model.size() > 5)
		vr_tag("grown_table");
	return 0;
}

using namespace rc;

Gen<std::string>
genLmqOp()
{
	return gen::exec([]() {
		std::ostringstream o;
		int k = *gen::weightedElement<int>({{10, 0}, {8, 1}, {4, 2}, {1, 3}, {1, 4}, {2, 5}});
		switch (k) {
		case 0: o << "qput"; break;
		case 1: o << "qget"; break;
		case 2: o << "qresize " << *gen::weightedElement<int>({{3, 0}, {4, 1}, {5, 2}, {4, 3}, {5, 4}, {3, 5}, {2, 6}, {2, 7}, {4, 8}, {2, 9}, {2, 16}, {1, 17}}); break;
		case 3: o << "qflush"; break;
		case 4: o << "qfini"; break;
		case 5: o << "qinit " << *pbt::range<int>(0, 9); break;
		}
		return o.str();
	});
}

Gen<uint64_t>
genKey()
{
	// ids that collide modulo 8/16/32/64 and modulo 2^32
	return gen::exec([]() {
		uint64_t base = (uint64_t) *pbt::range<int>(0, 12);
		uint64_t mult = *gen::element<uint64_t>(0, 8, 16, 32, 64, 128, 1ull << 32, (1ull << 32) + 8);
		uint64_t k    = (uint64_t) *pbt::range<int>(0, 6);
		return base + mult * k;
	});
}

Gen<std::string>
genIdOp()
{
	return gen::exec([]() {
		std::ostringstream o;
		int k = *gen::weightedElement<int>({{12, 0}, {6, 1}, {3, 2}, {4, 3}, {6, 4}, {1, 5}, {2, 6}});
		switch (k) {
		case 0: o << "malloc"; break;
		case 1: o << "mset " << *genKey(); break;
		case 2: o << "mget " << *genKey(); break;
		case 3: o << "mrem " << *genKey(); break;
		case 4: o << "mremk " << *pbt::range<int>(0, 40); break;
		case 5: o << "mfree"; break;
		case 6: {
			uint64_t lo = *gen::element<uint64_t>(0, 1, 5, 100, 0x7ffffff0ull, 0xfffffff0ull, (1ull << 32) + 10, 0xfffffffffffffff0ull);
			uint64_t w  = *gen::element<uint64_t>(1, 2, 3, 7, 8, 15, 40, 1000, 0xffffffffull);
			uint64_t hi = lo + w < lo ? ~0ull : lo + w;
			o << "minit " << lo << " " << hi << " " << *pbt::range<int>(0, 1);
			break;
		}
		}
		return o.str();
	});
}

std::string
gen_c18()
{
	bool lmq  = *gen::arbitrary<bool>();
	auto ops  = *gen::container<std::vector<std::string>>(lmq ? genLmqOp() : genIdOp());
	std::string t;
	if (lmq)
		t = "qinit " + std::to_string(*pbt::range<int>(0, 9)) + "\n";
	else {
		uint64_t lo = *gen::element<uint64_t>(0, 1, 5, 100, 0x7ffffff0ull, (1ull << 32) + 10, 0xfffffffffffffff0ull, 0xfffffffffffffff8ull);
		uint64_t w  = *gen::element<uint64_t>(1, 2, 3, 7, 8, 15, 40, 1000, 0xffffffffull);
		// (ranges that end exactly at, or are clipped to, the top of the 64-bit space: the allocation cursor must wrap there too)
		t = "minit " + std::to_string(lo) + " " + std::to_string(lo + w < lo ? ~0ull : lo + w) + " " + std::to_string(*pbt::range<int>(0, 1)) + "\n";
	}
	for (auto &l : ops)
		t += l + "\n";
	return t;
}

} // namespace

#ifndef VERIF_FUZZ
int
main(int argc, char **argv)
{
	pbt::PropSpec sp;
	sp.id   = "C18";
	sp.gen  = gen_c18;
	sp.exec = exec_c18;
	sp.rule = "random histories of init/put/get/resize/flush/fini on nni_lmq (capacities 0..17, any fill level and ring offset) "
	          "and of alloc/set/get/remove/visit on nng_id_map (tiny wrapping ranges, ranges above 2^32, keys colliding modulo "
	          "8..128 and modulo 2^32) against deque/map models; non-trivial = a resize with a non-empty queue at a non-zero "
	          "ring offset, a resize that must drop, or an id-map case with a grown table plus removal of a live id, a wrap, "
	          "or an exhausted range; distinct by case hash";
	sp.nontrivial = [](const std::set<std::string> &t) {
		return t.count("resize_nonempty_offset") || t.count("resize_drop") ||
		    (t.count("grown_table") && t.count("remove_live")) || t.count("wrap") || t.count("alloc_full");
	};
	return pbt::pbt_main(argc, argv, sp);
}
#endif
