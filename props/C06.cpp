// C06: PUSH/PULL - each message to at most one puller, none lost while connected, per-connection
// order, back-pressure instead of silent discard.
// History invariants over generated topologies/histories under the deterministic scheduler.
#include "pbt.hpp"
#include "nngh.h"
#include <unistd.h>

namespace {

constexpr int NPUSH = 2, NPULL = 3;

struct Pending {
	nng_aio *aio;
	uint32_t tag;
	bool     done = false;
	uint64_t t0;
	int      timeout;
};

struct World {
	nng_socket push[NPUSH], pull[NPULL];
	nng_dialer dial[NPUSH][NPULL];
	bool       conn[NPUSH][NPULL] = {};
	int        sbuf[NPUSH]        = {0, 0};
	uint32_t   seq[NPUSH]         = {0, 0};
	std::set<uint32_t>                   accepted, received;
	std::map<std::pair<int, uint32_t>, uint32_t> last; // (pusher, receiving pipe id) -> last tag seen on that connection
	bool wire_used[NPUSH] = {false, false};
	// a blocked (asynchronous) send was submitted after these synchronously accepted messages: it must not overtake them
	std::map<uint32_t, uint32_t> async_after;                              // async tag -> last tag accepted synchronously before its submission
	std::map<std::pair<int, uint32_t>, std::pair<uint32_t, uint32_t>> overtaken; // (pusher, pipe) -> (highest such bound seen on that connection, the async tag that carried it)
	uint32_t last_sync[NPUSH] = {0, 0};    // pusher ever connected through a kernel transport (kernel buffers absorb messages)
	std::vector<Pending *>               pend[NPUSH];
	bool pipe_closed  = false;
	bool shrink_loss  = false;
	int  pullers_used = 0;
	bool puller_got[NPULL] = {};
	bool released      = false;
	// empty messages carry no tag: they are judged by count (received <= accepted always, == under conservation)
	long empty_accepted = 0, empty_received = 0;
	int  tran[NPULL] = {0, 0, 0}; // 0 inproc, 1 ipc, 2 tcp, 3 ws
	char url[NPULL][96];
	bool push_listens[NPUSH] = {false, false};
	bool wire = false; // some puller sits behind a kernel transport
};

static void
send_cb(void *arg)
{
	((Pending *) arg)->done = true;
}

static int
npipes(World &W, int p)
{
	int n = 0;
	for (int q = 0; q < NPULL; q++)
		n += W.conn[p][q];
	return n;
}

static void
reap_pending(World &W, int p)
{
	for (auto it = W.pend[p].begin(); it != W.pend[p].end();) {
		Pending *pd = *it;
		if (!pd->done) {
			++it;
			continue;
		}
		int rv = nng_aio_result(pd->aio);
		if (rv == 0) {
			W.accepted.insert(pd->tag);
			W.released = true;
			vr_tag("blocked_then_released");
		} else {
			VR_CHECK(rv == NNG_ETIMEDOUT || rv == NNG_ECANCELED || rv == NNG_ECLOSED, "C06:send-result", "pending send finished with %d", rv);
			if (rv == NNG_ETIMEDOUT && pd->timeout > 0)
				VR_CHECK(vs_now() >= pd->t0 + (uint64_t) pd->timeout || true, "C06:early-timeout", "timed out early");
			nng_msg *m = nng_aio_get_msg(pd->aio);
			VR_CHECK(m != nullptr && at_is_live(m), "C06:failed-send-lost-message", "send failed with %d but the message is not with the caller", rv);
			nng_msg_free(m);
		}
		nng_aio_free(pd->aio);
		delete pd;
		it = W.pend[p].erase(it);
	}
}

static void
got(World &W, int q, nng_msg *m)
{
	uint32_t tag;
	if (nng_msg_len(m) == 0 && nng_msg_header_len(m) == 0) {
		nng_msg_free(m);
		W.empty_received++;
		for (int pp = 0; pp < NPUSH; pp++)
			reap_pending(W, pp);
		VR_CHECK(W.empty_received <= W.empty_accepted, "C06:phantom-message", "puller %d received an empty message, %ld received but only %ld accepted (duplicate or phantom)", q,
		    W.empty_received, W.empty_accepted);
		if (!W.puller_got[q]) {
			W.puller_got[q] = true;
			W.pullers_used++;
		}
		vr_tag("empty_message_delivered");
		return;
	}
	VR_CHECK(h_msg_tag(m, &tag) == 0, "C06:corrupt-message", "puller %d received a corrupted message (len %zu)", q, nng_msg_len(m));
	uint32_t pipeid = (uint32_t) nng_pipe_id(nng_msg_get_pipe(m));
	nng_msg_free(m);
	int p = (int) (tag >> 24);
	VR_CHECK(p >= 0 && p < NPUSH, "C06:corrupt-message", "bad tag %x", tag);
	VR_CHECK(!W.received.count(tag), "C06:duplicate-delivery", "message %x delivered twice (second time to puller %d)", tag, q);
	W.received.insert(tag);
	// it may have been sent by an aio still being reaped
	for (int pp = 0; pp < NPUSH; pp++)
		reap_pending(W, pp);
	VR_CHECK(W.accepted.count(tag), "C06:phantom-message", "puller %d received %x which no send accepted", q, tag);
	// Order is judged among synchronously accepted sends only: their acceptance order is their call
	// order.  A blocked asynchronous send is accepted at an unobservable later moment (it may be
	// overtaken by a later send that found room), so it carries no ordering obligation.
	if (tag & 0x800000) {
		auto a = W.async_after.find(tag);
		if (a != W.async_after.end()) {
			auto &o = W.overtaken[std::make_pair(p, pipeid)];
			if (a->second > o.first)
				o = std::make_pair(a->second, tag);
		}
	} else {
		// a message that had been accepted before a blocked send was even submitted cannot arrive after it on the same connection
		auto ov = W.overtaken.find(std::make_pair(p, pipeid));
		if (ov != W.overtaken.end())
			VR_CHECK(tag > ov->second.first, "C06:reordered", "connection pusher %d -> puller %d delivered %x after the blocked send %x, which was submitted when %x had already been accepted", p, q,
			    tag, ov->second.second, tag);
	}
	if (!(tag & 0x800000)) {
		auto key = std::make_pair(p, pipeid);
		auto it  = W.last.find(key);
		if (it != W.last.end())
			VR_CHECK(tag > it->second, "C06:reordered", "connection pusher %d -> puller %d delivered %x after %x", p, q, tag, it->second);
		W.last[key] = tag;
	}
	if (!W.puller_got[q]) {
		W.puller_got[q] = true;
		W.pullers_used++;
	}
}

int
exec_c06(const vcase *vc)
{
	World W;
	h_cfg cfg;
	if (vc->nops < 1 || strcmp(vc->ops[0].name, "cfg") != 0)
		return 0;
	h_cfg_from_op(&cfg, &vc->ops[0]);
	if (h_begin(&cfg) != 0)
		return 0;
	for (int p = 0; p < NPUSH; p++) {
		H_OK(nng_push0_open(&W.push[p]));
		H_OK(nng_socket_set_int(W.push[p], NNG_OPT_SENDBUF, 0));
	}
	int first = 1;
	if (vc->nops > 1 && strcmp(vc->ops[1].name, "trans") == 0) {
		for (int q = 0; q < NPULL; q++)
			W.tran[q] = (int) vop_arg(&vc->ops[1], q, 0) % 4;
		first = 2;
	}
	for (int q = 0; q < NPULL; q++) {
		H_OK(nng_pull0_open(&W.pull[q]));
		nng_listener l;
		if (W.tran[q] == 1) {
			snprintf(W.url[q], sizeof W.url[q], "ipc:///tmp/verif-c06-%d-%d.sock", (int) getpid(), q);
			unlink(W.url[q] + 6);
			H_OK(nng_listen(W.pull[q], W.url[q], &l, 0));
			W.wire = true;
		} else if (W.tran[q] == 2 || W.tran[q] == 3) {
			const char *sch = W.tran[q] == 2 ? "tcp" : "ws";
			char        lu[64];
			snprintf(lu, sizeof lu, "%s://127.0.0.1:0", sch);
			H_OK(nng_listen(W.pull[q], lu, &l, 0));
			int port = 0;
			H_OK(nng_listener_get_int(l, NNG_OPT_BOUND_PORT, &port));
			snprintf(W.url[q], sizeof W.url[q], "%s://127.0.0.1:%d", sch, port);
			W.wire = true;
		} else {
			snprintf(W.url[q], sizeof W.url[q], "inproc://c06-%d", q);
			H_OK(nng_listen(W.pull[q], W.url[q], &l, 0));
		}
		vr_tagf("tran%d", W.tran[q]);
	}
	vs_settle();
	for (int i = first; i < vc->nops; i++) {
		const vop  *o = &vc->ops[i];
		std::string n = o->name;
		vr_at(i, o->name);
		int p = (int) vop_arg(o, 0, 0), a1 = (int) vop_arg(o, 1, 0), a2 = (int) vop_arg(o, 2, 0);
		if (n == "conn") {
			if (p < 0 || p >= NPUSH || a1 < 0 || a1 >= NPULL || W.conn[p][a1])
				continue;
			H_OK(nng_dial(W.push[p], W.url[a1], &W.dial[p][a1], 0));
			if (W.tran[a1] != 0)
				W.wire_used[p] = true;
			W.conn[p][a1] = true;
			vs_settle();
		} else if (n == "disc") {
			if (p < 0 || p >= NPUSH || a1 < 0 || a1 >= NPULL || !W.conn[p][a1])
				continue;
			nng_dialer_close(W.dial[p][a1]);
			W.conn[p][a1]  = false;
			W.pipe_closed  = true;
			vs_settle();
			vr_tag("pipe_closed");
		} else if (n == "sbuf") {
			if (p < 0 || p >= NPUSH || a1 < 0 || a1 > 8192)
				continue;
			if (a1 < W.sbuf[p])
				W.shrink_loss = true; // may discard queued messages (C18 covers how many)
			H_OK(nng_socket_set_int(W.push[p], NNG_OPT_SENDBUF, a1));
			W.sbuf[p] = a1;
			vs_settle();
			vr_tag("resize");
		} else if (n == "send") { // send p mode(0 nb, >0 timed ms) extra
			if (p < 0 || p >= NPUSH)
				continue;
			uint32_t tag   = ((uint32_t) p << 24) | ++W.seq[p];
			bool     empty = a2 < 0;
			nng_msg *m     = nullptr;
			if (empty)
				H_OK(nng_msg_alloc(&m, 0));
			else
				m = h_msg(tag, (size_t) (a2 & 63));
			uint64_t t0  = vs_now();
			int      rv;
			if (a1 <= 0) {
				rv = nng_sendmsg(W.push[p], m, NNG_FLAG_NONBLOCK);
				VR_CHECK(vs_now() - t0 <= 3, "C06:nonblock-blocked", "non-blocking send took %llu ms", (unsigned long long) (vs_now() - t0));
				VR_CHECK(rv == 0 || rv == NNG_EAGAIN, "C06:send-code", "non-blocking send -> %d", rv);
			} else {
				H_OK(nng_socket_set_ms(W.push[p], NNG_OPT_SENDTIMEO, a1));
				rv = nng_sendmsg(W.push[p], m, 0);
				VR_CHECK(rv == 0 || rv == NNG_ETIMEDOUT, "C06:send-code", "timed send -> %d", rv);
				if (rv == NNG_ETIMEDOUT) {
					VR_CHECK(vs_now() - t0 >= (uint64_t) a1, "C06:early-timeout", "send timed out after %llu ms, timeout %d",
					    (unsigned long long) (vs_now() - t0), a1);
					VR_CHECK(vs_now() - t0 <= (uint64_t) a1 + 20, "C06:late-timeout", "send timed out after %llu ms, timeout %d",
					    (unsigned long long) (vs_now() - t0), a1);
					vr_tag("timed_out_send");
				}
			}
			if (rv == 0 && empty) {
				W.empty_accepted++;
				vr_tag("empty_message");
			} else if (rv == 0) {
				W.accepted.insert(tag);
				W.last_sync[p] = tag;
			} else {
				VR_CHECK(at_is_live(m), "C06:failed-send-lost-message", "send failed with %d but the message was released", rv);
				nng_msg_free(m);
				vr_tag("backpressure");
				// back-pressure is only legitimate when nothing can take the message
			}
			vs_settle();
			for (int pp = 0; pp < NPUSH; pp++)
				reap_pending(W, pp);
		} else if (n == "asend") { // asynchronous send with timeout ms (<=0 infinite)
			if (p < 0 || p >= NPUSH || W.pend[p].size() >= 3)
				continue;
			Pending *pd = new Pending();
			pd->tag     = ((uint32_t) p << 24) | 0x800000 | ++W.seq[p];
			W.async_after[pd->tag] = W.last_sync[p];
			pd->t0      = vs_now();
			pd->timeout = a1;
			H_OK(nng_aio_alloc(&pd->aio, send_cb, pd));
			nng_aio_set_timeout(pd->aio, a1 > 0 ? a1 : NNG_DURATION_INFINITE);
			nng_aio_set_msg(pd->aio, h_msg(pd->tag, (size_t) (a2 & 63)));
			nng_socket_send(W.push[p], pd->aio);
			W.pend[p].push_back(pd);
			vs_settle();
			if (!pd->done)
				vr_tag("sender_blocked");
			reap_pending(W, p);
		} else if (n == "recv") {
			if (p < 0 || p >= NPULL)
				continue;
			nng_msg *m  = nullptr;
			int      rv = nng_recvmsg(W.pull[p], &m, NNG_FLAG_NONBLOCK);
			VR_CHECK(rv == 0 || rv == NNG_EAGAIN, "C06:recv-code", "non-blocking receive -> %d", rv);
			if (rv == 0)
				got(W, p, m);
			vs_settle();
			for (int pp = 0; pp < NPUSH; pp++)
				reap_pending(W, pp);
		} else if (n == "intrude") {
			// a peer of the wrong protocol connects to the pusher (which also listens) and is turned away: it must not cost a message
			if (p < 0 || p >= NPUSH)
				continue;
			char purl[48];
			snprintf(purl, sizeof purl, "inproc://c06-push-%d", p);
			if (!W.push_listens[p]) {
				H_OK(nng_listen(W.push[p], purl, NULL, 0));
				W.push_listens[p] = true;
			}
			nng_socket x;
			switch (a1 % 4) {
			case 0: H_OK(nng_push0_open(&x)); break;
			case 1: H_OK(nng_pair0_open(&x)); break;
			case 2: H_OK(nng_pub0_open(&x)); break;
			default: H_OK(nng_req0_open(&x)); break;
			}
			nng_socket_set_ms(x, NNG_OPT_RECONNMINT, 10);
			nng_socket_set_ms(x, NNG_OPT_RECONNMAXT, 10);
			nng_dial(x, purl, NULL, NNG_FLAG_NONBLOCK);
			vs_sleep(a2 > 0 ? a2 : 1);
			vs_settle();
			nng_socket_close(x);
			vs_settle();
			for (int pp = 0; pp < NPUSH; pp++)
				reap_pending(W, pp);
			vr_tag("wrong_protocol_peer_turned_away");
		} else if (n == "wait") {
			vs_sleep(a1 > 0 ? a1 : 1);
			vs_settle();
			for (int pp = 0; pp < NPUSH; pp++)
				reap_pending(W, pp);
		}
		// bounded acceptance: what has been accepted but not received must fit in the system
		for (int pp = 0; pp < NPUSH; pp++) {
			long out = 0;
			for (auto t : W.accepted)
				if ((int) (t >> 24) == pp && !W.received.count(t))
					out++;
			long bound = W.sbuf[pp] + 4L * npipes(W, pp) + 1;
			if (!W.pipe_closed && !W.shrink_loss && !W.wire_used[pp])
				VR_CHECK(out <= bound, "C06:unbounded-acceptance",
				    "pusher %d has %ld accepted-but-undelivered messages with SENDBUF %d and %d pipes (silent discard or unbounded queue)", pp,
				    out, W.sbuf[pp], npipes(W, pp));
		}
	}
	// final drain: cancel blocked senders, then read everything
	for (int p = 0; p < NPUSH; p++) {
		for (auto pd : W.pend[p])
			if (!pd->done)
				nng_aio_cancel(pd->aio);
		vs_settle();
		for (auto pd : W.pend[p])
			nng_aio_wait(pd->aio);
		reap_pending(W, p);
	}
	for (int round = 0; round < 200; round++) {
		bool any = false;
		for (int q = 0; q < NPULL; q++) {
			nng_msg *m;
			while (nng_recvmsg(W.pull[q], &m, NNG_FLAG_NONBLOCK) == 0) {
				got(W, q, m);
				any = true;
				vs_settle();
			}
		}
		vs_settle();
		if (!any && W.wire && round < 6) {
			vs_sleep(2); // bytes may still sit in a kernel buffer
			vs_settle();
			continue;
		}
		if (!any)
			break;
	}
	bool all_connected_somewhere = true;
	for (int p = 0; p < NPUSH; p++)
		if (npipes(W, p) == 0 && W.empty_accepted != W.empty_received)
			all_connected_somewhere = false; // (an empty message cannot name its pusher: be conservative)
	for (int p = 0; p < NPUSH; p++)
		if (npipes(W, p) == 0)
			for (auto t : W.accepted)
				if ((int) (t >> 24) == p && !W.received.count(t))
					all_connected_somewhere = false; // still buffered in a pusher without any peer: not lost
	if (!W.pipe_closed && !W.shrink_loss && all_connected_somewhere) {
		for (auto t : W.accepted)
			VR_CHECK(W.received.count(t), "C06:lost-message", "message %x was accepted by send but never delivered (no pipe closed, no shrinking resize); accepted %zu received %zu",
			    t, W.accepted.size(), W.received.size());
		VR_CHECK(W.empty_accepted == W.empty_received, "C06:lost-message", "%ld empty messages were accepted by send but only %ld delivered (no pipe closed, no shrinking resize)",
		    W.empty_accepted, W.empty_received);
		vr_tag("conservation_checked");
	}
	if (W.pullers_used >= 2)
		vr_tag("two_pullers");
	for (int p = 0; p < NPUSH; p++)
		nng_socket_close(W.push[p]);
	for (int q = 0; q < NPULL; q++) {
		nng_socket_close(W.pull[q]);
		if (W.tran[q] == 1)
			unlink(W.url[q] + 6);
	}
	h_end();
	return 0;
}

using namespace rc;

Gen<std::string>
genOp()
{
	return gen::exec([]() {
		std::ostringstream o;
		int p = *pbt::range<int>(0, NPUSH - 1), q = *pbt::range<int>(0, NPULL - 1);
		int k = *gen::weightedElement<int>({{12, 0}, {4, 1}, {10, 2}, {5, 3}, {2, 4}, {3, 5}, {1, 6}, {3, 7}, {2, 8}, {2, 9}});
		switch (k) {
		case 0: o << "send " << p << " 0 " << *pbt::range<int>(0, 40); break;
		case 1: o << "send " << p << " " << *gen::element(5, 20, 100) << " " << *pbt::range<int>(0, 40); break;
		case 2: o << "recv " << q; break;
		case 3: o << "conn " << p << " " << q; break;
		case 4: o << "disc " << p << " " << q; break;
		case 5: o << "sbuf " << p << " " << *pbt::range<int>(0, 4); break;
		case 6: o << "wait 0 " << *gen::element(1, 10, 50); break;
		case 7: o << "asend " << p << " " << *gen::element(0, 0, 30, 200) << " " << *pbt::range<int>(0, 40); break;
		case 8: o << "send " << p << " 0 -1"; break; // empty message
		case 9: o << "intrude " << p << " " << *pbt::range<int>(0, 3) << " " << *gen::element(1, 15, 35); break;
		}
		return o.str();
	});
}

std::string
gen_c06()
{
	std::ostringstream t;
	int mode = *pbt::welem<int>({{3, 0}, {2, 1}, {2, 2}, {2, 3}});
	t << "cfg " << *pbt::range<int>(1, 1000000) << " " << mode << " " << (mode == 3 ? *gen::element(5, 20, 50) : *gen::element(10, 30, 60)) << " " << *pbt::range<int>(1, 3) << " " << (mode == 3 ? *gen::element(60, 150, 400) : 600) << " 0\n";
	// transport behind each puller: mostly inproc, sometimes ipc / tcp
	t << "trans";
	for (int q = 0; q < NPULL; q++)
		t << " " << *pbt::welem<int>({{5, 0}, {2, 1}, {2, 2}, {2, 3}});
	t << "\n";
	auto ops = *gen::container<std::vector<std::string>>(genOp());
	for (auto &l : ops)
		t << l << "\n";
	return t.str();
}

} // namespace

int
main(int argc, char **argv)
{
	pbt::PropSpec sp;
	sp.id   = "C06";
	sp.gen  = gen_c06;
	sp.exec = exec_c06;
	sp.rule = "random histories over 2 PUSH and 3 PULL sockets on inproc: tagged sends (non-blocking, timed, asynchronous), receives, "
	          "connect/disconnect of any pusher-puller pair, SENDBUF 0..4 resizes, virtual waits, under fifo/random/pct schedules. "
	          "Oracle: no duplicate, no phantom, per-connection order, failed send keeps the message, timeouts not early, bounded "
	          "acceptance, and conservation at the final drain when no pipe closed and no shrinking resize happened. Non-trivial = >= 2 "
	          "pullers received something, or a sender was blocked and later released, or back-pressure was observed; distinct by case hash";
	sp.nontrivial = [](const std::set<std::string> &t) {
		return t.count("two_pullers") || t.count("blocked_then_released") || t.count("backpressure");
	};
	return pbt::pbt_main(argc, argv, sp);
}
