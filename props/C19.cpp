// C19: URL parsing: strict acceptance, canonical and idempotent output.
// Grammar-based generation (valid and mutated URLs); oracle in url_oracle.hpp.
#include "pbt.hpp"
#include "url_oracle.hpp"

namespace {

int
exec_c19(const vcase *c)
{
	for (int i = 0; i < c->nops; i++) {
		const vop *o = &c->ops[i];
		vr_at(i, o->name);
		if (strcmp(o->name, "url") == 0 && o->nd >= 1) {
			std::string s((const char *) o->d[0], o->dl[0]);
			urlo::check_url(s);
		}
	}
	return 0;
}

using namespace rc;

Gen<std::string>
genScheme()
{
	std::vector<std::string> tbl;
	for (int i = 0; urlo::kSchemes[i]; i++)
		tbl.push_back(urlo::kSchemes[i]);
	auto exact = gen::elementOf(tbl);
	return gen::weightedOneOf<std::string>({
	    {40, exact},
	    // prefixes, extensions, case variants of table entries, empty
	    {2, gen::map(gen::pair(exact, pbt::range<int>(0, 8)),
	            [](const std::pair<std::string, int> &p) { return p.first.substr(0, std::min<size_t>(p.second, p.first.size())); })},
	    {1, gen::map(gen::pair(exact, gen::element<std::string>("4", "6", "s", "x", "+tcp", "46")),
	            [](const std::pair<std::string, std::string> &p) { return p.first + p.second; })},
	    {1, gen::map(exact, [](std::string s) { if (!s.empty()) s[0] = (char) toupper(s[0]); return s; })},
	    {1, gen::element<std::string>("", "t", "h", "x", "zz", ":", "http:")},
	});
}

// one path "character": plain, escape (any byte, both hex cases), raw UTF-8 byte patterns
Gen<std::string>
genPathAtom()
{
	auto hexEsc = [](int b, bool upper) {
		char buf[8];
		snprintf(buf, sizeof buf, upper ? "%%%02X" : "%%%02x", b & 0xff);
		return std::string(buf);
	};
	// UTF-8 sequences from lead x continuation patterns: valid, overlong, surrogate, >10FFFF, stray, truncated
	auto utf = gen::exec([=]() {
		int                  kind = *gen::weightedElement<int>({{6, 0}, {6, 1}, {6, 2}, {1, 3}, {1, 4}, {1, 5}, {1, 6}, {1, 7}, {1, 8}, {1, 9}});
		std::vector<uint8_t> b;
		switch (kind) {
		case 0: b = {(uint8_t) *pbt::range<int>(0xc2, 0xdf), (uint8_t) *pbt::range<int>(0x80, 0xbf)}; break; // valid 2
		case 1: b = {(uint8_t) *pbt::range<int>(0xe1, 0xec), (uint8_t) *pbt::range<int>(0x80, 0xbf), (uint8_t) *pbt::range<int>(0x80, 0xbf)}; break; // valid 3
		case 2: b = {(uint8_t) *pbt::range<int>(0xf1, 0xf3), (uint8_t) *pbt::range<int>(0x80, 0xbf), (uint8_t) *pbt::range<int>(0x80, 0xbf), (uint8_t) *pbt::range<int>(0x80, 0xbf)}; break; // valid 4
		case 3: b = {(uint8_t) *gen::element(0xc0, 0xc1), (uint8_t) *pbt::range<int>(0x80, 0xbf)}; break; // overlong 2
		case 4: b = {0xe0, (uint8_t) *pbt::range<int>(0x80, 0x9f), (uint8_t) *pbt::range<int>(0x80, 0xbf)}; break; // overlong 3
		case 5: b = {0xf0, (uint8_t) *pbt::range<int>(0x80, 0x8f), (uint8_t) *pbt::range<int>(0x80, 0xbf), (uint8_t) *pbt::range<int>(0x80, 0xbf)}; break; // overlong 4
		case 6: b = {0xed, (uint8_t) *pbt::range<int>(0xa0, 0xbf), (uint8_t) *pbt::range<int>(0x80, 0xbf)}; break; // surrogate
		case 7: b = {(uint8_t) *pbt::range<int>(0xf4, 0xf7), (uint8_t) *pbt::range<int>(0x90, 0xbf), (uint8_t) *pbt::range<int>(0x80, 0xbf), (uint8_t) *pbt::range<int>(0x80, 0xbf)}; break; // > 10FFFF
		case 8: b = {(uint8_t) *pbt::range<int>(0x80, 0xbf)}; break; // stray continuation
		case 9: { // arbitrary lead + arbitrary followers (truncated / wrong continuation)
			b = {(uint8_t) *pbt::range<int>(0xc0, 0xff)};
			int n = *pbt::range<int>(0, 3);
			for (int i = 0; i < n; i++)
				b.push_back((uint8_t) *pbt::range<int>(0x00 + 1, 0xff));
			break;
		}
		}
		bool        esc   = *gen::arbitrary<bool>();
		bool        upper = *gen::arbitrary<bool>();
		std::string o;
		for (auto c : b)
			o += esc ? hexEsc(c, upper) : std::string(1, (char) c);
		return o;
	});
	return gen::weightedOneOf<std::string>({
	    {30, gen::map(gen::elementOf(std::string("abcxyzABZ019._~-")), [](char c) { return std::string(1, c); })},
	    {6, gen::map(gen::pair(pbt::range<int>(0x20, 0x7e), gen::arbitrary<bool>()),
	            [=](const std::pair<int, bool> &p) { return hexEsc(p.first, p.second); })},
	    {1, gen::map(gen::pair(pbt::range<int>(0, 0xff), gen::arbitrary<bool>()),
	            [=](const std::pair<int, bool> &p) { return hexEsc(p.first, p.second); })},
	    {4, utf},
	    {1, gen::element<std::string>("%", "%4", "%G1", "%1G", "%%", "%zz", " ", "+", ";", ":", "@", "[", "]", "\\", "\x01", "\x7f")},
	});
}

Gen<std::string>
genSegment()
{
	return gen::weightedOneOf<std::string>({
	    {6, gen::map(gen::resize(6, gen::container<std::vector<std::string>>(genPathAtom())), [](const std::vector<std::string> &v) {
		     std::string o;
		     for (size_t i = 0; i < v.size() && i < 12; i++)
			     o += v[i];
		     return o;
	     })},
	    {3, gen::element<std::string>(".", "..", "", "...", ".a", "..a", "%2E", "%2e%2E", ".%2e", "%2E.")},
	    {1, gen::map(pbt::range<int>(100, 300), [](int n) { return std::string((size_t) n, 'p'); })},
	});
}

Gen<std::string>
genHost()
{
	return gen::weightedOneOf<std::string>({
	    {20, gen::element<std::string>("host", "Example.COM", "localhost", "127.0.0.1", "a.b-c.d", "*", "", "xn--nxasmq6b", "H")},
	    {6, gen::element<std::string>("[::1]", "[fe80::1%25eth0]", "[::FFFF:1.2.3.4]", "[2001:DB8::1]", "[1.2.3.4]", "[]")},
	    {2, gen::element<std::string>("[::1", "::1]", "[[::1]]", "[a]b", "[::1]x", "[", "]", "[[", "[x[y:z]")},
	    {1, gen::map(pbt::range<int>(250, 260), [](int n) { return std::string((size_t) n, 'h'); })},
	    {2, gen::map(gen::container<std::string>(gen::elementOf(std::string("abAB01.-_[]:@%~ \xc3\xa9"))), [](std::string s) { return s.substr(0, 10); })},
	});
}

Gen<std::string>
genPort()
{
	return gen::weightedOneOf<std::string>({
	    {16, gen::element<std::string>("", "", "", ":80", ":0", ":65535", ":443", ":8080", ":1", ":00080")},
	    {2, gen::element<std::string>(":65536", ":99999", ":4294967376", ":18446744073709551696", ":http", ":ssh")},
	    {2, gen::element<std::string>(":", ":-1", ":-0", ":+80", ": 80", ":80 ", ":0x50", ":8o", ":http", ":https", ":ssh", ":nosuchsvc", ":-65456", ":-65536", ":1e3", ":80:90")},
	    {2, gen::map(pbt::range<int>(-70000, 70000), [](int v) { return ":" + std::to_string(v); })},
	});
}

std::string
gen_c19()
{
	std::string sch  = *genScheme();
	std::string sep  = *gen::weightedElement<std::string>({{60, "://"}, {1, ":/"}, {1, ":"}, {1, "//"}, {1, ""}});
	std::string user = *gen::weightedElement<std::string>({{30, ""}, {4, "user@"}, {2, "u:p@"}, {1, "@"}, {1, "a@b@"}, {1, "%41@"}});
	std::string host = *genHost();
	std::string port = *genPort();
	auto        segs = *gen::resize(8, gen::container<std::vector<std::string>>(genSegment()));
	std::string path;
	for (size_t i = 0; i < segs.size() && i < 10; i++)
		path += (*gen::weightedElement<std::string>({{8, "/"}, {2, "//"}, {1, "///"}})) + segs[i];
	if (*gen::weightedElement<int>({{4, 0}, {1, 1}}))
		path += "/";
	std::string q = *gen::weightedElement<std::string>({{16, ""}, {1, "?"}, {3, "?a=b&c=%20d"}, {2, "?q=/../x//y"}, {1, "?%zz"}, {1, "?\xc3"}});
	std::string f = *gen::weightedElement<std::string>({{16, ""}, {1, "#"}, {3, "#frag"}, {2, "#a/./b?c"}, {1, "#%4"}});
	std::string url = sch + sep + user + host + port + path + q + f;
	// occasionally pad to straddle the 128-byte inline buffer exactly
	int pad = *gen::weightedElement<int>({{6, 0}, {1, 1}});
	if (pad) {
		size_t after = url.size() > sch.size() ? url.size() - sch.size() : 0; // bytes from "://" on
		int    target = *pbt::range<int>(124, 132);
		if ((int) after < target && q.empty() && f.empty())
			url += std::string((size_t) target - after, 'z');
	}
	std::vector<uint8_t> b(url.begin(), url.end());
	return "url " + pbt::hexs(b) + "\n";
}

} // namespace

int
main(int argc, char **argv)
{
	pbt::PropSpec sp;
	sp.id   = "C19";
	sp.gen  = gen_c19;
	sp.exec = exec_c19;
	sp.rule = "grammar-generated URLs (scheme table +/- prefixes/extensions, userinfo, hosts incl. IPv6 literals, ports "
	          "incl. boundary/negative/service names, path segments from every UTF-8 lead x continuation pattern raw or "
	          "escaped, dot segments, duplicate slashes, query, fragment, lengths straddling 128); non-trivial = accepted "
	          "URL exercising an escape, dot segment, duplicate slash, IPv6 literal, explicit port, non-ASCII path or "
	          ">128 bytes, or a rejected URL; distinct by case hash";
	sp.nontrivial = [](const std::set<std::string> &t) {
		if (t.count("rejected"))
			return true;
		return t.count("escape") || t.count("dotseg_input") || t.count("dupslash_input") || t.count("ipv6_literal") ||
		    t.count("explicit_port") || t.count("nonascii_path") || t.count("gt128") > 0;
	};
	return pbt::pbt_main(argc, argv, sp);
}
