// C09: BUS - fan-out to every other connected peer once, never echoed to the origin; raw mode
// forwards to everyone but the pipe named in the header; send never blocks; per-peer order; whole
// drops only under overflow.  Exact model under quiescence-after-each-send, subsequence oracle for bursts.
#include "pbt.hpp"
#include "nngh.h"
#include "rawpeer.h"
#include <set>
#include <deque>

namespace {

constexpr int N = 4;

struct Node {
	nng_socket           s;
	bool                 raw = false;
	std::deque<uint32_t> q; // model of the receive queue (tags in arrival order)
	std::deque<int>      qe; // link epoch at the time each queued message arrived (its pipe belongs to that epoch)
	size_t               rcap = 16;
	uint32_t             seq  = 0;
	std::map<uint32_t, int> pipe_owner; // pipe id on this node -> neighbour node (learned from traffic)
	nng_msg             *last = nullptr; // raw: last received message (with origin header)
	int                  last_from = -1;
	int                  last_epoch = 0;
	uint32_t             last_pid   = 0;
	// a raw wire peer that completed the handshake and never reads (a stalled neighbour)
	bool                 stalled = false;
	rp                   peer;
	nng_listener         sl;
	std::vector<uint32_t> sent_after_stall;
	std::set<uint32_t>    wire_own; // round 7: tags of forwards whose ORIGIN is the stalled wire peer (it must never read them)
};

struct World {
	Node       n[N];
	bool       edge[N][N] = {};
	nng_dialer dial[N][N];
	int        epoch[N][N] = {}; // bumped whenever the link a-b is (re-)established: a new link means new pipes
	int        sbuf = 16;
};

static uint32_t
be32(const void *p)
{
	const uint8_t *b = (const uint8_t *) p;
	return ((uint32_t) b[0] << 24) | (b[1] << 16) | (b[2] << 8) | b[3];
}

static bool
linked(World &W, int a, int b)
{
	return W.edge[a][b] || W.edge[b][a];
}

// take one message from node k and compare with the model head; returns false when nothing there
static bool
recv_one(World &W, int k, const std::vector<uint32_t> *optional = nullptr, size_t *optpos = nullptr)
{
	Node    &K  = W.n[k];
	nng_msg *m  = nullptr;
	int      rv = nng_recvmsg(K.s, &m, NNG_FLAG_NONBLOCK);
	VR_CHECK(rv == 0 || rv == NNG_EAGAIN, "C09:recv-code", "node %d non-blocking receive -> %d", k, rv);
	if (rv != 0)
		return false;
	uint32_t tag;
	VR_CHECK(h_msg_tag(m, &tag) == 0, "C09:corrupt-message", "node %d received a corrupted message (len %zu)", k, nng_msg_len(m));
	int from = (int) (tag >> 24);
	VR_CHECK(from >= 0 && from < N, "C09:corrupt-message", "bad tag %x", tag);
	VR_CHECK(from != k, "C09:echo", "node %d received its own message %x back", k, tag);
	uint32_t pid = (uint32_t) nng_pipe_id(nng_msg_get_pipe(m));
	if (K.raw) {
		VR_CHECK(nng_msg_header_len(m) == 4, "C09:raw-header-len", "raw node %d: header length %zu, expected 4", k, nng_msg_header_len(m));
		VR_CHECK(be32(nng_msg_header(m)) == pid, "C09:raw-header-pipe", "raw node %d: header names pipe %u, message arrived on %u", k,
		    be32(nng_msg_header(m)), pid);
	} else
		VR_CHECK(nng_msg_header_len(m) == 0, "C09:cooked-header", "cooked node %d: message carries a %zu-byte header", k, nng_msg_header_len(m));
	// a pipe always carries one neighbour's messages (forwarded ones carry the forwarder's pipe)
	bool forwarded = (tag & 0x800000) != 0;
	int  via       = forwarded ? 0 : from; // only node 0 forwards
	auto it        = K.pipe_owner.find(pid);
	if (it == K.pipe_owner.end())
		K.pipe_owner[pid] = via;
	else
		VR_CHECK(it->second == via, "C09:pipe-mixup", "node %d: pipe %u delivered a message of neighbour %d, earlier of neighbour %d", k, pid, via,
		    it->second);
	int arrival_epoch = W.epoch[std::min(k, via)][std::max(k, via)];
	if (!K.q.empty() && K.q.front() == tag) {
		K.q.pop_front();
		arrival_epoch = K.qe.front();
		K.qe.pop_front();
	} else if (optional != nullptr) {
		// burst mode: an in-order subsequence of the burst is acceptable
		bool found = false;
		while (*optpos < optional->size()) {
			if ((*optional)[(*optpos)++] == tag) {
				found = true;
				break;
			}
		}
		VR_CHECK(found && K.q.empty(), "C09:burst-order", "node %d received %x which is not the next message of the burst (duplicate, reordered or foreign)", k, tag);
	} else {
		if (K.q.empty())
			vr_fail("C09:unexpected-delivery", "node %d received %x from %d but nothing is due (not connected, already delivered, or echoed)", k, tag, from);
		vr_fail("C09:wrong-message", "node %d received %x, model expects %x (lost, duplicated or reordered)", k, tag, K.q.front());
	}
	if (K.raw) {
		if (K.last)
			nng_msg_free(K.last);
		K.last       = m;
		K.last_from  = via;
		K.last_pid   = pid;
		K.last_epoch = arrival_epoch; // (not the epoch at receive time: the message may have waited across a re-link)
	} else
		nng_msg_free(m);
	vr_tag("delivered");
	return true;
}

static void
drain(World &W, int k, const char *why)
{
	while (recv_one(W, k)) {
	}
	VR_CHECK(W.n[k].q.empty(), "C09:missing-delivery", "%s: node %d has nothing more to receive but %zu message(s) are due, first %x", why, k, W.n[k].q.size(),
	    W.n[k].q.front());
}

static void
deliver_model(World &W, int from, int except, uint32_t tag)
{
	int nrec = 0;
	for (int k = 0; k < N; k++) {
		if (k == from || k == except || !linked(W, from, k))
			continue;
		nrec++;
		if (W.n[k].q.size() < W.n[k].rcap) {
			W.n[k].q.push_back(tag);
			W.n[k].qe.push_back(W.epoch[std::min(k, from)][std::max(k, from)]);
		} else
			vr_tag("recv_overflow");
	}
	if (nrec >= 2)
		vr_tag("fanout2");
}

// ------------------------------------------------------------ reflector world: a raw BUS socket run by nng_device
// Three cooked BUS nodes dial a raw BUS hub whose only job is nng_device(hub, none): whatever one node sends must reach
// the other nodes in the sender's order, intact, at most once, and never the sender itself.
static void
refl_cb(void *arg)
{
	(*(int *) arg)++;
}

int
exec_reflector(const vcase *vc, const h_cfg &cfg0, int sb)
{
	h_cfg cfg        = cfg0;
	cfg.task_threads = 4; // forwarding is done by completion callbacks: give them room to overlap
	if (h_begin(&cfg) != 0)
		return 0;
	vr_tag("reflector_device");
	nng_socket hub, node[3];
	nng_aio   *daio;
	int        ddone = 0;
	H_OK(nng_bus0_open_raw(&hub));
	H_OK(nng_socket_set_int(hub, NNG_OPT_SENDBUF, sb));
	H_OK(nng_listen(hub, "inproc://c09-hub", NULL, 0));
	for (int i = 0; i < 3; i++) {
		H_OK(nng_bus0_open(&node[i]));
		H_OK(nng_socket_set_int(node[i], NNG_OPT_SENDBUF, sb));
	}
	H_OK(nng_aio_alloc(&daio, refl_cb, &ddone));
	nng_socket none = NNG_SOCKET_INITIALIZER;
	nng_device_aio(daio, hub, none);
	vs_settle();
	bool     up[3] = {false, false, false};
	uint32_t seq[3] = {0, 0, 0};
	std::map<std::pair<int, int>, uint32_t> last; // (receiver, sender) -> last tag seen
	std::set<std::pair<int, uint32_t>>      seen; // (receiver, tag)
	long delivered = 0, sent = 0;
	bool relinked = false;
	auto drain = [&](int k) {
		for (;;) {
			nng_msg *m  = nullptr;
			int      rv = nng_recvmsg(node[k], &m, NNG_FLAG_NONBLOCK);
			VR_CHECK(rv == 0 || rv == NNG_EAGAIN, "C09:recv-code", "node %d non-blocking receive -> %d", k, rv);
			if (rv != 0)
				return;
			uint32_t tag;
			VR_CHECK(h_msg_tag(m, &tag) == 0, "C09:corrupt-message", "node %d received a corrupted message through the device (len %zu)", k, nng_msg_len(m));
			VR_CHECK(nng_msg_header_len(m) == 0, "C09:cooked-header", "cooked node %d: message carries a %zu-byte header", k, nng_msg_header_len(m));
			nng_msg_free(m);
			int from = (int) (tag >> 24);
			VR_CHECK(from >= 0 && from < 3, "C09:corrupt-message", "bad tag %x", tag);
			VR_CHECK(from != k, "C09:echo", "node %d received its own message %x back from the reflector device", k, tag);
			VR_CHECK(seen.insert({k, tag}).second, "C09:duplicate-delivery", "node %d received %x twice through the device", k, tag);
			auto key = std::make_pair(k, from);
			if (last.count(key))
				VR_CHECK(tag > last[key], "C09:reordered", "node %d received %x from node %d after %x: the device reordered one peer's messages", k, tag, from, last[key]);
			last[key] = tag;
			delivered++;
			vs_settle();
		}
	};
	for (int i = 2; i < vc->nops; i++) {
		const vop  *o = &vc->ops[i];
		std::string n = o->name;
		vr_at(i, o->name);
		int a = (int) vop_arg(o, 0, 0) % 3, b = (int) vop_arg(o, 1, 0);
		if (a < 0)
			continue;
		if (n == "link") {
			if (up[a])
				continue;
			if (nng_dial(node[a], "inproc://c09-hub", NULL, 0) == 0)
				up[a] = true;
			vs_settle();
		} else if (n == "send" || n == "burst" || n == "bigsend") {
			int cnt = n == "send" ? 1 : (b > 0 && b <= 60 ? b : 3);
			for (int j = 0; j < cnt; j++) {
				uint32_t tag = ((uint32_t) a << 24) | ++seq[a];
				nng_msg *m   = h_msg(tag, (size_t) (j & 15));
				int      rv  = nng_sendmsg(node[a], m, NNG_FLAG_NONBLOCK);
				VR_CHECK(rv == 0, "C09:send-blocked", "BUS non-blocking send -> %d", rv);
				sent++;
				if (n == "send")
					vs_settle();
			}
			vs_settle();
			if (cnt > 1)
				vr_tag("burst_through_device");
		} else if (n == "recv") {
			drain(a);
		} else if (n == "wait") {
			vs_sleep(b > 0 ? b : 1);
			vs_settle();
		}
	}
	for (int round = 0; round < 50; round++) {
		long before = delivered;
		for (int k = 0; k < 3; k++)
			drain(k);
		vs_settle();
		if (delivered == before)
			break;
	}
	(void) relinked;
	if (delivered >= 2)
		vr_tag("reflected");
	VR_CHECK(ddone == 0, "C09:device-ended", "the reflector device ended by itself (%d)", nng_aio_result(daio));
	nng_aio_cancel(daio);
	nng_aio_wait(daio);
	nng_aio_free(daio);
	for (int i = 0; i < 3; i++)
		nng_socket_close(node[i]);
	nng_socket_close(hub);
	h_end();
	return 0;
}

int
exec_c09(const vcase *vc)
{
	World W;
	h_cfg cfg;
	if (vc->nops < 2 || strcmp(vc->ops[0].name, "cfg") != 0 || strcmp(vc->ops[1].name, "world") != 0)
		return 0;
	h_cfg_from_op(&cfg, &vc->ops[0]);
	if (vop_arg(&vc->ops[1], 0, 0) == 2) {
		int sbr = (int) vop_arg(&vc->ops[1], 1, 16);
		return exec_reflector(vc, cfg, sbr < 1 || sbr > 64 ? 16 : sbr);
	}
	bool raw0 = vop_arg(&vc->ops[1], 0, 0) != 0;
	int  sb   = (int) vop_arg(&vc->ops[1], 1, 16);
	if (sb < 1 || sb > 64)
		sb = 16;
	W.sbuf = sb;
	if (h_begin(&cfg) != 0)
		return 0;
	for (int i = 0; i < N; i++) {
		W.n[i].raw = raw0 && i == 0;
		if (W.n[i].raw)
			H_OK(nng_bus0_open_raw(&W.n[i].s));
		else
			H_OK(nng_bus0_open(&W.n[i].s));
		H_OK(nng_socket_set_int(W.n[i].s, NNG_OPT_SENDBUF, sb));
		char url[32];
		snprintf(url, sizeof url, "inproc://c09-%d", i);
		H_OK(nng_listen(W.n[i].s, url, NULL, 0));
	}
	if (raw0)
		vr_tag("raw_node");
	vs_settle();
	int nlinks = 0;
	for (int i = 2; i < vc->nops; i++) {
		const vop  *o = &vc->ops[i];
		std::string n = o->name;
		vr_at(i, o->name);
		int a = (int) vop_arg(o, 0, 0), b = (int) vop_arg(o, 1, 0);
		if (a < 0 || a >= N)
			continue;
		if (n == "link") {
			if (b < 0 || b >= N || a == b || linked(W, a, b))
				continue;
			char url[32];
			snprintf(url, sizeof url, "inproc://c09-%d", b);
			H_OK(nng_dial(W.n[a].s, url, &W.dial[a][b], 0));
			W.edge[a][b] = true;
			W.epoch[std::min(a, b)][std::max(a, b)]++;
			nlinks++;
			vs_settle();
		} else if (n == "unlink") {
			if (b < 0 || b >= N || !W.edge[a][b])
				continue;
			nng_dialer_close(W.dial[a][b]);
			W.edge[a][b] = false;
			vs_settle();
			vr_tag("unlink");
		} else if (n == "send") {
			Node    &A   = W.n[a];
			uint32_t tag = ((uint32_t) a << 24) | ++A.seq;
			nng_msg *m   = h_msg(tag, (size_t) (b & 31));
			if (!A.raw && (A.seq & 3) != 0) {
				// round 7: a cooked send ignores whatever header the application left on the message (2, 6 or 8 stale bytes here)
				static const uint8_t junk[8] = {0x80, 0, 0, 1, 0, 0, 0, 9};
				nng_msg_header_append(m, junk, (A.seq & 3) == 1 ? 2 : (A.seq & 3) == 2 ? 6 : 8);
				vr_tag("stale_header_on_cooked_send");
			}
			uint64_t t0  = vs_now();
			int      rv  = nng_sendmsg(A.s, m, NNG_FLAG_NONBLOCK);
			VR_CHECK(rv == 0, "C09:send-blocked", "BUS non-blocking send on node %d returned %d", a, rv);
			VR_CHECK(vs_now() - t0 <= 3, "C09:send-slow", "BUS send took %llu virtual ms", (unsigned long long) (vs_now() - t0));
			vs_settle();
			deliver_model(W, a, -1, tag);
		} else if (n == "burst") { // burst a count: sends without letting the system run in between
			Node &A   = W.n[a];
			int   cnt = b < 2 ? 2 : (b > 40 ? 40 : b);
			// start from a clean slate so that the burst can be judged on its own
			for (int k = 0; k < N; k++)
				drain(W, k, "before burst");
			std::vector<uint32_t> tags;
			for (int j = 0; j < cnt; j++) {
				uint32_t tag = ((uint32_t) a << 24) | ++A.seq;
				nng_msg *m   = h_msg(tag, 2);
				int      rv  = nng_sendmsg(A.s, m, NNG_FLAG_NONBLOCK);
				VR_CHECK(rv == 0, "C09:send-blocked", "BUS non-blocking send (burst) on node %d returned %d", a, rv);
				tags.push_back(tag);
			}
			vs_settle();
			for (int k = 0; k < N; k++) {
				if (k == a)
					continue;
				size_t pos = 0, got = 0;
				while (recv_one(W, k, &tags, &pos)) {
					got++;
					vs_settle();
				}
				if (linked(W, a, k)) {
					VR_CHECK(got >= 1, "C09:burst-nothing", "node %d got none of a %d-message burst from neighbour %d", k, cnt, a);
					if ((size_t) cnt <= (size_t) W.sbuf && (size_t) cnt <= W.n[k].rcap)
						VR_CHECK(got == (size_t) cnt, "C09:burst-loss", "node %d got %zu of a %d-message burst that fits SENDBUF %d / RECVBUF %zu", k, got,
						    cnt, W.sbuf, W.n[k].rcap);
					if (got < (size_t) cnt)
						vr_tag("burst_overflow");
				} else
					VR_CHECK(got == 0, "C09:unexpected-delivery", "node %d is not a neighbour of %d but received %zu burst messages", k, a, got);
			}
			vr_tag("burst");
		} else if (n == "stall") {
			Node &A = W.n[a];
			if (A.stalled)
				continue;
			H_OK(nng_listener_create(&A.sl, A.s, "socket://"));
			H_OK(nng_listener_start(A.sl, 0));
			H_OK(rp_attach_socket(&A.peer, A.sl));
			uint16_t pp = 0;
			int      hr = rp_handshake(&A.peer, SP_BUS, &pp);
			VR_CHECK(hr == 0 && pp == SP_BUS, "harness:handshake", "bus wire handshake %d %x", hr, pp);
			vs_settle();
			A.stalled = true;
			vr_tag("stalled_peer");
		} else if (n == "bigsend") { // bigsend a count: large messages, quiescence after each
			Node &A   = W.n[a];
			int   cnt = b < 1 ? 1 : (b > 14 ? 14 : b);
			for (int j = 0; j < cnt; j++) {
				uint32_t tag = ((uint32_t) a << 24) | ++A.seq;
				nng_msg *m   = h_msg(tag, 70000);
				int      rv  = nng_sendmsg(A.s, m, NNG_FLAG_NONBLOCK);
				VR_CHECK(rv == 0, "C09:send-blocked", "BUS non-blocking send of a large message on node %d returned %d", a, rv);
				vs_settle();
				deliver_model(W, a, -1, tag);
				if (A.stalled) {
					A.sent_after_stall.push_back(tag);
					if (A.sent_after_stall.size() > 8)
						vr_tag("stalled_queue_full");
				}
				// keep the other receivers drained so that only the stalled peer backs up
				for (int k = 0; k < N; k++)
					if (k != a)
						drain(W, k, "during large sends");
			}
		} else if (n == "recv") {
			if (!recv_one(W, a))
				VR_CHECK(W.n[a].q.empty(), "C09:missing-delivery", "node %d: nothing to receive but %zu message(s) are due, first %x", a, W.n[a].q.size(),
				    W.n[a].q.front());
			vs_settle();
		} else if (n == "rbuf") {
			if (b < 1 || b > 64)
				continue;
			drain(W, a, "before RECVBUF change");
			H_OK(nng_socket_set_int(W.n[a].s, NNG_OPT_RECVBUF, b));
			W.n[a].rcap = (size_t) b;
			vr_tag("resize");
		} else if (n == "wirefwd") {
			// round 7: the stalled wire peer of RAW node 0 - whose pipe is busy with node 0's large messages - sends a message of
			// its own; node 0 receives it (header = that pipe) and forwards it: it goes to every other neighbour and NOT back to
			// the wire peer, however busy its pipe is at that moment
			Node &R = W.n[0];
			if (!R.raw || !R.stalled)
				continue;
			drain(W, 0, "before a wire peer's own message");
			uint32_t wtag = 0x7f000000u | ++R.seq;
			uint8_t  wb[24];
			wb[0] = wtag >> 24; wb[1] = wtag >> 16; wb[2] = wtag >> 8; wb[3] = (uint8_t) wtag;
			for (size_t i2 = 4; i2 < sizeof wb; i2++)
				wb[i2] = (uint8_t) (wtag * 31 + (i2 - 4) * 7);
			if (rp_send_msg(&R.peer, wb, sizeof wb) != 0)
				continue;
			vs_settle();
			nng_msg *in = nullptr;
			if (nng_recvmsg(R.s, &in, NNG_FLAG_NONBLOCK) != 0)
				continue; // (receive queue full / dropped: nothing to forward)
			if (nng_msg_header_len(in) != 4 || nng_msg_len(in) != sizeof wb || memcmp(nng_msg_body(in), wb, sizeof wb) != 0) {
				nng_msg_free(in);
				continue; // (something else was at the head of the queue; not the subject here)
			}
			uint32_t wpid = be32(nng_msg_header(in));
			nng_msg_free(in);
			uint32_t ftag = (0u << 24) | 0x800000 | ++R.seq;
			nng_msg *fm   = h_msg(ftag, 20);
			nng_msg_header_append_u32(fm, wpid);
			int rv = nng_sendmsg(R.s, fm, NNG_FLAG_NONBLOCK);
			VR_CHECK(rv == 0, "C09:send-blocked", "raw BUS forward of a wire peer's message returned %d", rv);
			vs_settle();
			deliver_model(W, 0, -1, ftag); // every neighbour NODE gets it (the origin is not a node)
			R.wire_own.insert(ftag);
			vr_tag("forward_of_busy_origin");
		} else if (n == "fwd") { // raw node 0 forwards what it last received (header names the origin pipe)
			Node &R = W.n[0];
			if (!R.raw || R.last == nullptr)
				continue;
			uint32_t tag;
			h_msg_tag(R.last, &tag);
			// re-tag so that receivers can tell the forwarded copy: sender field 0, forwarded flag
			uint32_t ntag = (0u << 24) | 0x800000 | ++R.seq;
			// b==2: forward the received object itself (what nng_device does); otherwise a fresh message whose
			// header names the origin pipe (a hand-written forwarder) - both must skip exactly that pipe
			nng_msg *m;
			if (b == 2) {
				H_OK(nng_msg_dup(&m, R.last));
				nng_msg_clear(m);
				nng_msg_append_u32(m, ntag);
			} else {
				m = h_msg(ntag, 0);
				nng_msg_header_append_u32(m, R.last_pid);
			}
			int      from = R.last_from;
			// the header names a pipe, not a node: if the link was re-established since, that pipe is gone
			if (from >= 0 && (!linked(W, 0, from) || W.epoch[0][from] != R.last_epoch)) {
				from = -1;
				vr_tag("forward_origin_gone");
			}
			bool     keep_hdr = b != 1; // b==1: strip the header -> goes to everybody including the origin
			if (!keep_hdr)
				nng_msg_header_clear(m);
			vr_trace("fwd mode %d header len %zu word %x last_pid %x from %d", b, nng_msg_header_len(m),
			    nng_msg_header_len(m) >= 4 ? be32(nng_msg_header(m)) : 0, R.last_pid, from);
			int rv = nng_sendmsg(R.s, m, NNG_FLAG_NONBLOCK);
			VR_CHECK(rv == 0, "C09:send-blocked", "raw BUS forward returned %d", rv);
			vs_settle();
			deliver_model(W, 0, keep_hdr ? from : -1, ntag);
			vr_tag(keep_hdr ? "raw_forward" : "raw_forward_noheader");
		}
	}
	for (int k = 0; k < N; k++)
		drain(W, k, "final drain");
	for (int k = 0; k < N; k++) {
		Node &K = W.n[k];
		if (!K.stalled)
			continue;
		// now the stalled peer reads: it must see intact frames, an in-order subsequence of what node k sent
		size_t pos = 0;
		for (int round = 0; round < 400; round++) {
			uint8_t *pl;
			size_t   pn;
			vs_settle();
			int g = rp_recv_msg(&K.peer, &pl, &pn);
			VR_CHECK(g >= 0, "C09:wire-garbage", "stalled wire peer of node %d read a malformed frame", k);
			if (g == 0)
				break;
			VR_CHECK(pn >= 4, "C09:wire-garbage", "short frame (%zu)", pn);
			uint32_t tag = be32(pl);
			for (size_t i = 4; i < pn; i++)
				VR_CHECK(pl[i] == (uint8_t) (tag * 31 + (i - 4) * 7), "C09:wire-corrupt", "frame %x corrupted at byte %zu", tag, i);
			free(pl);
			VR_CHECK(!K.wire_own.count(tag), "C09:echoed-to-origin", "the wire peer of raw node %d read %x, the forward of a message it had sent itself (its pipe was busy when the message was forwarded)", k, tag);
			if ((tag >> 24) == (uint32_t) k && !(tag & 0x800000) && pn > 60000) {
				bool found = false;
				while (pos < K.sent_after_stall.size())
					if (K.sent_after_stall[pos++] == tag) {
						found = true;
						break;
					}
				VR_CHECK(found, "C09:wire-order", "stalled peer of node %d read %x out of order / duplicated", k, tag);
			}
		}
		rp_close(&K.peer);
	}
	if (nlinks >= 2)
		vr_tag("mesh3");
	for (int k = 0; k < N; k++) {
		if (W.n[k].last)
			nng_msg_free(W.n[k].last);
		nng_socket_close(W.n[k].s);
	}
	h_end();
	return 0;
}

using namespace rc;

Gen<std::string>
genOp()
{
	return gen::exec([]() {
		std::ostringstream o;
		int a = *pbt::range<int>(0, N - 1), b = *pbt::range<int>(0, N - 1);
		int k = *gen::weightedElement<int>({{12, 0}, {10, 1}, {5, 2}, {1, 3}, {2, 4}, {2, 5}, {4, 6}, {1, 7}, {3, 8}, {2, 9}});
		switch (k) {
		case 9: o << "stall 0\nbigsend 0 " << *gen::element(2, 3, 5) << "\nwirefwd"; break;
		case 0: o << "send " << a << " " << *pbt::range<int>(0, 31); break;
		case 1: o << "recv " << a; break;
		case 2: o << "link " << a << " " << b; break;
		case 3: o << "unlink " << a << " " << b; break;
		case 4: o << "burst " << a << " " << *gen::element(2, 3, 5, 9, 20, 40); break;
		case 5: o << "rbuf " << a << " " << *gen::element(1, 2, 3, 4, 8); break;
		case 6: o << "fwd 0 " << *gen::weightedElement<int>({{4, 0}, {1, 1}, {2, 2}}); break;
		case 7: o << "stall " << a; break;
		case 8: o << "bigsend " << *pbt::range<int>(0, 1) << " " << *gen::element(1, 3, 10, 14); break;
		}
		return o.str();
	});
}

std::string
gen_c09()
{
	std::ostringstream t;
	int mode = *pbt::welem<int>({{3, 0}, {2, 1}, {2, 2}, {2, 3}});
	t << "cfg " << *pbt::range<int>(1, 1000000) << " " << mode << " " << (mode == 3 ? *gen::element(5, 20, 50) : *gen::element(10, 30, 60)) << " " << *pbt::range<int>(1, 3) << " " << (mode == 3 ? *gen::element(60, 150, 400) : 600) << " 0\n";
	int world = *pbt::welem<int>({{4, 0}, {2, 1}, {1, 2}});
	t << "world " << world << " " << *gen::element(1, 2, 4, 16) << "\n";
	if (world == 2) {
		// reflector device: nodes link to the hub, then traffic
		t << "link 0\nlink 1\n";
		if (*pbt::range<int>(0, 1))
			t << "link 2\n";
		auto rops = *gen::container<std::vector<std::string>>(gen::exec([]() {
			std::ostringstream o;
			int a = *pbt::range<int>(0, 2);
			switch (*pbt::welem<int>({{4, 0}, {5, 1}, {4, 2}, {1, 3}, {1, 4}})) {
			case 0: o << "send " << a; break;
			case 1: o << "burst " << a << " " << *gen::element(2, 3, 5, 9, 20, 40); break;
			case 2: o << "recv " << a; break;
			case 3: o << "link " << a; break;
			default: o << "wait 0 " << *gen::element(1, 5, 20); break;
			}
			return o.str();
		}));
		for (auto &l : rops)
			t << l << "\n";
		return t.str();
	}
	// usually start with a connected mesh
	int shape = *pbt::range<int>(0, 4);
	static const char *shapes[] = {"", "link 1 0\nlink 2 0\n", "link 1 0\nlink 2 1\nlink 3 2\n", "link 1 0\nlink 2 0\nlink 3 0\nlink 2 1\n", "link 0 1\nlink 0 2\nlink 0 3\nlink 1 2\nlink 1 3\nlink 2 3\n"};
	if (*pbt::welem<int>({{3, 0}, {1, 1}}))
		t << "stall " << *pbt::range<int>(0, 1) << "\n";
	t << shapes[shape];
	auto ops = *gen::container<std::vector<std::string>>(genOp());
	for (auto &l : ops)
		t << l << "\n";
	return t.str();
}

} // namespace

int
main(int argc, char **argv)
{
	pbt::PropSpec sp;
	sp.id   = "C09";
	sp.gen  = gen_c09;
	sp.exec = exec_c09;
	sp.rule = "meshes of 4 BUS sockets on inproc (random connected shapes, links added/removed at any time, node 0 optionally raw), "
	          "tagged sends with quiescence after each, bursts of 2..40 sends without quiescence (queues overflow), receives, RECVBUF "
	          "changes, raw forwards with and without origin header, SENDBUF 1..16, fifo/random/pct schedules. Exact model for single sends; "
	          "in-order-subsequence oracle for bursts. Non-trivial = >= 3 nodes linked and a message with >= 2 recipients, or a raw forward, "
	          "or an overflowing burst; distinct by case hash";
	sp.nontrivial = [](const std::set<std::string> &t) {
		return (t.count("mesh3") && t.count("fanout2")) || t.count("raw_forward") || t.count("burst_overflow") || t.count("stalled_queue_full") || (t.count("reflected") && t.count("burst_through_device"));
	};
	return pbt::pbt_main(argc, argv, sp);
}
