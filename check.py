#!/usr/bin/env python3
"""check.py <PROPERTY> [--tier quick|thorough] [--replay FILE]

One entry point for every property: rebuilds /repo's working tree (sanitizer static
library), builds the property's driver, replays the committed regression cases, runs the
rapidcheck workers (and libFuzzer targets where configured) in parallel, merges their
statistics into /verif/evidence/<id>.json and prints VIOLATION / KNOWN-FINDING lines.
Exit 0 = property held on everything explored, 1 = violation.
"""
import glob
import hashlib
import json
import os
import shutil
import subprocess
import sys
import time

V = os.path.dirname(os.path.abspath(__file__))
B = os.path.join(V, "build")
NCPU = 16

# per-property configuration: cases are per worker
CONF = {
    "C20P": dict(level="fault_enumeration", workers=16, quick=dict(cases=2500, size=60), thorough=dict(cases=20000, size=100)),
    "C20": dict(enumerate=True, also=dict(quick=[("C20P", 2500)], thorough=[("C20P", 20000)]), level="fault_enumeration", workers=16, quick=dict(cases=500, size=50), thorough=dict(cases=12000, size=80)),
    "C01": dict(level="exploration", workers=16, quick=dict(cases=220, size=60), thorough=dict(cases=4000, size=100)),
    "C02": dict(level="exploration", workers=16, quick=dict(cases=4000, size=60), thorough=dict(cases=60000, size=100)),
    "C03": dict(also=dict(quick=[("C18Q", 600), ("C04", 800)], thorough=[("C18Q", 10000), ("C04", 12000)]), level="exploration", workers=16, quick=dict(cases=4000, size=60), thorough=dict(cases=75000, size=100)),
    "C04": dict(level="exploration", workers=16, quick=dict(cases=4000, size=80), thorough=dict(cases=60000, size=100)),
    "C05": dict(level="exploration", workers=16, quick=dict(cases=3000, size=60), thorough=dict(cases=48000, size=100)),
    "C06": dict(level="exploration", workers=16, quick=dict(cases=4000, size=70), thorough=dict(cases=60000, size=100)),
    "C07": dict(level="exploration", workers=16, quick=dict(cases=5000, size=80), thorough=dict(cases=80000, size=100)),
    "C08": dict(level="exploration", workers=16, quick=dict(cases=4000, size=70), thorough=dict(cases=60000, size=100)),
    "C09": dict(level="exploration", workers=16, quick=dict(cases=2500, size=60), thorough=dict(cases=20000, size=100)),
    "C11U": dict(level="exploration", workers=16, quick=dict(cases=1500, size=60), thorough=dict(cases=20000, size=100)),
    "C11": dict(also=dict(quick=[("C16", 300), ("C11U", 1500)], thorough=[("C16", 3000), ("C11U", 20000)]), level="exploration", workers=16, quick=dict(cases=400, size=60), thorough=dict(cases=6000, size=100),
                fuzz=[dict(name="fz_session", quick_runs=1200, thorough_runs=60000, max_len=256, jobs=6)]),
    "C12": dict(also=dict(quick=[("C04", 1500)], thorough=[("C04", 20000)]), level="exploration", workers=16, quick=dict(cases=2500, size=70), thorough=dict(cases=48000, size=100)),
    "C10": dict(also=dict(quick=[("C02", 1200)], thorough=[("C02", 20000)]), level="exploration", workers=16, quick=dict(cases=2500, size=60), thorough=dict(cases=45000, size=100)),
    "C14": dict(level="exploration", workers=16, quick=dict(cases=700, size=60), thorough=dict(cases=32000, size=100)),
    "C13": dict(also=dict(quick=[("C08", 600), ("C07", 1200), ("C09", 800)], thorough=[("C08", 20000), ("C07", 30000), ("C09", 20000)]), level="exploration", workers=16, quick=dict(cases=2000, size=60), thorough=dict(cases=48000, size=100)),
    "C15": dict(level="exploration", workers=16, quick=dict(cases=6000, size=80), thorough=dict(cases=90000, size=100)),
    "C16P": dict(level="exploration", workers=16, quick=dict(cases=4000, size=60), thorough=dict(cases=150000, size=100),
                 fuzz=[dict(name="fz_chunk", quick_runs=150000, thorough_runs=5000000, max_len=400)]),
    "C16S": dict(level="exploration", workers=16, quick=dict(cases=500, size=50), thorough=dict(cases=15000, size=100)),
    "C16H": dict(level="exploration", workers=16, quick=dict(cases=600, size=50), thorough=dict(cases=12000, size=100)),
    "C16": dict(fuzz=[dict(name="fz_chunk", quick_runs=150000, thorough_runs=5000000, max_len=400)],
                also=dict(quick=[("C16H", 600), ("C16P", 4000), ("C16S", 500)], thorough=[("C16H", 12000), ("C16P", 150000), ("C16S", 15000)]), level="exploration", workers=16, quick=dict(cases=900, size=50), thorough=dict(cases=20000, size=100)),
    "C17": dict(level="exploration", workers=16, quick=dict(cases=8000, size=100), thorough=dict(cases=150000, size=150),
                fuzz=[dict(name="fz_msg", quick_runs=150000, thorough_runs=6000000, max_len=400)]),
    "C18Q": dict(level="exploration", workers=16, quick=dict(cases=1500, size=60), thorough=dict(cases=30000, size=100)),
    "C18": dict(also=dict(quick=[("C18Q", 1500), ("C08", 500), ("C06", 800)], thorough=[("C18Q", 30000), ("C08", 20000), ("C06", 20000)]), level="exploration", workers=16, quick=dict(cases=12000, size=100), thorough=dict(cases=300000, size=150),
                fuzz=[dict(name="fz_q", quick_runs=150000, thorough_runs=6000000, max_len=800)]),
    "C19": dict(level="exploration", workers=16, quick=dict(cases=10000, size=100), thorough=dict(cases=150000, size=100),
                fuzz=[dict(name="fz_url", quick_runs=400000, thorough_runs=8000000, max_len=300, dict="fuzz/url.dict")]),
}

ASSUME_COMMON = [
    "the sanitizer build (clang -O1, ASan+UBSan, Debug so NNI_ASSERT is live) behaves like the production build",
    "verdicts are 'held on everything explored', never absence of violations",
]


def sh(cmd, **kw):
    return subprocess.run(cmd, shell=True, **kw)


def derive_seed(seed, i):
    h = hashlib.sha256(f"{seed}:{i}".encode()).digest()
    return int.from_bytes(h[:7], "big") | 1


def build(pid, flavors=("san",)):
    for fl in flavors:
        r = sh(f"{V}/build.sh {fl}")
        if r.returncode != 0:
            print(f"BUILD-FAILED property={pid} flavor={fl} (the tree does not compile; no verdict)")
            sys.exit(2)
    r = sh(f"make -s -C {V} -j{NCPU} {B}/bin/{pid}", stdout=subprocess.PIPE, stderr=subprocess.STDOUT, text=True)
    if r.returncode != 0:
        print(r.stdout[-4000:])
        print(f"BUILD-FAILED property={pid} (driver)")
        sys.exit(2)


def main():
    args = sys.argv[1:]
    if not args:
        print(__doc__)
        return 2
    pid = args[0]
    tier = os.environ.get("VERIF_TIER", "quick")
    replay = None
    i = 1
    while i < len(args):
        if args[i] == "--tier":
            tier = args[i + 1]
            i += 2
        elif args[i] == "--replay":
            replay = args[i + 1]
            i += 2
        else:
            i += 1
    if tier not in ("quick", "thorough"):
        tier = "quick"
    seed = int(os.environ.get("VERIF_SEED", "1") or "1")
    conf = CONF[pid]
    t0 = time.time()
    flavors = ["san"] + (["fuzz"] if conf.get("fuzz") else [])
    build(pid, flavors)
    binp = f"{B}/bin/{pid}"
    env = dict(os.environ)
    env["ASAN_OPTIONS"] = "detect_leaks=0:abort_on_error=0:symbolize=1:allocator_may_return_null=1:detect_stack_use_after_return=0:handle_abort=1"
    env["UBSAN_OPTIONS"] = "print_stacktrace=1"

    if replay:
        # a replay file produced by another property's driver (see "also") names that driver
        pref = os.path.basename(replay).split("-")[0]
        if pref != pid and pref in CONF and any(pref == o for t in conf.get("also", {}).values() for o, _ in t):
            build(pref, ["san"])
            binp = f"{B}/bin/{pref}"
        r = subprocess.run([binp, "--replay", replay], env=env, stdout=subprocess.PIPE, text=True)
        sys.stdout.write(r.stdout.replace(f"property={pref}", f"property={pid}") if binp.endswith(pref) and pref != pid else r.stdout)
        return r.returncode

    violations = []
    known_lines = []
    out_lines = []
    # 1. regression tier: committed shrunk failures, replayed without rapidcheck
    nreg = 0
    for f in sorted(glob.glob(f"{V}/regress/{pid}/*.case") + glob.glob(f"{V}/regress/{pid}/*.cases")):
        nreg += 1
        # (*.cases = a sequence of cases for one executor process: failures that need state surviving nng_fini / nng_init)
        r = subprocess.run([binp, "--replay-history" if f.endswith(".cases") else "--replay", f], env=env, stdout=subprocess.PIPE, stderr=subprocess.PIPE, text=True)
        for ln in r.stdout.splitlines():
            if ln.startswith("KNOWN-FINDING"):
                known_lines.append(ln)
        if r.returncode == 1:
            msg = " ".join(ln for ln in r.stdout.splitlines() if ln.startswith(("REPLAY-FAIL", "HISTORY-FAIL")))
            violations.append(dict(sig="regress", replay=f, msg=msg[:400]))

    # 2. generated tier
    tc = conf[tier]
    workers = conf.get("workers", NCPU)
    rdir = f"{B}/run/{pid}"
    shutil.rmtree(rdir, ignore_errors=True)
    os.makedirs(rdir, exist_ok=True)
    os.makedirs(f"{B}/replays", exist_ok=True)
    procs = []
    for w in range(workers):
        ws = derive_seed(seed, w)
        cmd = [binp, "--cases", str(tc["cases"]), "--size", str(tc["size"]), "--seed", str(ws), "--worker", str(w),
               "--out", f"{rdir}/w{w}.json"]
        cmd += conf.get("args", [])
        procs.append((w, subprocess.Popen(cmd, env=env, stdout=subprocess.PIPE, stderr=open(f"{rdir}/w{w}.err", "w"), text=True)))
    stats = []
    for w, p in procs:
        so, _ = p.communicate()
        for ln in so.splitlines():
            if ln.startswith(("FAIL", "UNSTABLE")):
                out_lines.append(ln)
        try:
            stats.append(json.load(open(f"{rdir}/w{w}.json")))
        except Exception as e:  # worker died without writing: harness problem, report loudly
            out_lines.append(f"WORKER-ERROR worker={w} rc={p.returncode} {e}")
            violations.append(dict(sig="worker-error", replay=f"{rdir}/w{w}.err", msg=f"worker {w} exited {p.returncode} without statistics"))

    # 2a. exhaustive stage (where the driver defines a finite sub-space): every worker takes its stripe of the enumeration
    enum_stats = None
    if conf.get("enumerate"):
        edir = f"{B}/run/{pid}-enum"
        shutil.rmtree(edir, ignore_errors=True)
        os.makedirs(edir, exist_ok=True)
        env2 = dict(env, VERIF_TIER=tier, VERIF_SEED=str(seed))
        eprocs = []
        for w in range(workers):
            cmd = [binp, "--enumerate", "--nworkers", str(workers), "--worker", str(w), "--seed", str(derive_seed(seed, 500 + w)), "--out", f"{edir}/w{w}.json"]
            eprocs.append((w, subprocess.Popen(cmd, env=env2, stdout=subprocess.PIPE, stderr=open(f"{edir}/w{w}.err", "w"), text=True)))
        enum_stats = dict(programs=0, faulty_runs=0, allocations_per_program_sum=0, complete=True)
        for w, p in eprocs:
            so, _ = p.communicate()
            for ln in so.splitlines():
                if ln.startswith(("FAIL", "UNSTABLE")):
                    out_lines.append(ln)
            try:
                st = json.load(open(f"{edir}/w{w}.json"))
                enum_stats["programs"] = max(enum_stats["programs"], st.get("enumerated", 0))
                enum_stats["faulty_runs"] += st["counters"][3]
                if w == 0:
                    enum_stats["allocations_per_program_sum"] = st["counters"][1]
                elif enum_stats["allocations_per_program_sum"] != st["counters"][1]:
                    enum_stats["complete"] = False  # the stripes did not see the same allocation sequences: not claimed exhaustive
                if not st.get("ok", True) or st.get("inconclusive", 0):
                    enum_stats["complete"] = False
                st["tags"] = {f"enum:{k}": v for k, v in st["tags"].items()}
                stats.append(st)
            except Exception as e:
                out_lines.append(f"WORKER-ERROR worker={w} (enumerate) rc={p.returncode} {e}")
                violations.append(dict(sig="worker-error", replay=f"{edir}/w{w}.err", msg=f"enumeration worker {w} exited {p.returncode} without statistics"))
                enum_stats["complete"] = False

    # 2b. drivers of other properties whose generated domain also belongs to this property
    #     (e.g. the WebSocket hostile-peer sessions of C16 decide C11's size limits over ws://)
    for other, ocases in conf.get("also", {}).get(tier, []):
        build(other, ["san"])
        obin = f"{B}/bin/{other}"
        for f in sorted(glob.glob(f"{V}/regress/{other}/*.case")):
            nreg += 1
            r = subprocess.run([obin, "--replay", f], env=env, stdout=subprocess.PIPE, stderr=subprocess.PIPE, text=True)
            if r.returncode == 1:
                msg = " ".join(ln for ln in r.stdout.splitlines() if ln.startswith("REPLAY-FAIL"))
                violations.append(dict(sig="regress", replay=f, msg=msg[:400]))
        odir = f"{B}/run/{pid}-{other}"
        shutil.rmtree(odir, ignore_errors=True)
        os.makedirs(odir, exist_ok=True)
        oprocs = []
        for w in range(workers):
            ws = derive_seed(seed + 7919, w)
            cmd = [obin, "--cases", str(ocases), "--size", str(CONF[other][tier]["size"]), "--seed", str(ws), "--worker", str(w),
                   "--out", f"{odir}/w{w}.json", "--known", f"{V}/known_findings.json"]
            oprocs.append((w, subprocess.Popen(cmd, env=env, stdout=subprocess.PIPE, stderr=open(f"{odir}/w{w}.err", "w"), text=True)))
        for w, p2 in oprocs:
            so, _ = p2.communicate()
            for ln in so.splitlines():
                if ln.startswith(("FAIL", "UNSTABLE")):
                    out_lines.append(ln.replace(f"property={other}", f"property={pid} via={other}"))
            try:
                st = json.load(open(f"{odir}/w{w}.json"))
                st["tags"] = {f"{other}:{k}": v for k, v in st["tags"].items()}
                st["known_hits"] = {}
                stats.append(st)
            except Exception as e:
                out_lines.append(f"WORKER-ERROR worker={w} ({other}) rc={p2.returncode} {e}")
                violations.append(dict(sig="worker-error", replay=f"{odir}/w{w}.err", msg=f"{other} worker {w} exited {p2.returncode} without statistics"))

    # 3. libFuzzer targets (optional)
    fuzz_stats = []
    for fz in conf.get("fuzz", []):
        fuzz_stats.append(run_fuzz(pid, fz, tier, seed, env, violations))

    evaluations = sum(s["evaluations"] for s in stats)
    hashes = set()
    tags = {}
    samples = []
    inconclusive = 0
    unstable = 0
    known_hits = {}
    for s in stats:
        hashes.update(s["nontrivial_hashes"])
        inconclusive += s.get("inconclusive", 0)
        unstable += s.get("unstable_first", 0)
        for k, v in s["tags"].items():
            tags[k] = tags.get(k, 0) + v
        for k, v in s.get("known_hits", {}).items():
            known_hits[k] = known_hits.get(k, 0) + v
        if len(samples) < 8:
            samples.extend(s["samples"][:2])
        for v in s["violations"]:
            if v.get("stable"):
                violations.append(v)
            else:
                unstable += 1
    rule = stats[0]["rule"] if stats else ""
    wall = time.time() - t0
    cov = dict(
        evaluations=evaluations + sum(f.get("execs", 0) for f in fuzz_stats),
        rapidcheck_cases=evaluations,
        distinct_nontrivial=len(hashes),
        rule=rule,
        samples=samples[:8],
        class_histogram=tags,
        regression_cases_replayed=nreg,
        excluded_known=known_hits,
        inconclusive=inconclusive,
        unstable=unstable,
        workers=workers,
        fuzz=fuzz_stats,
    )
    if enum_stats is not None:
        # exhaustive over the stated finite sub-space only when every stripe ran to its end
        enum_stats["exhaustive"] = bool(enum_stats["complete"] and enum_stats["faulty_runs"] >= enum_stats["allocations_per_program_sum"] > 0)
        enum_stats["space"] = ("the 16 bare scenario templates of the API programs x transport (inproc, ipc, tcp) x call form (blocking, non-blocking, aio) x dial flags, "
                               "under the fifo schedule; thorough tier: additionally 17 fixed single operations (option sets that resize queues, closes, pipe / endpoint closes, "
                               "statistics, context open, cancel, large send, ...) inserted at every position of every template x transport. For each program EVERY allocation "
                               "index 1..A (nng_init's own included) fails once; the indices are striped over the workers")
        cov["enumeration"] = enum_stats
    weak = [k for k, v in tags.items() if evaluations and v * 100 < evaluations]
    if weak:
        cov["rare_classes_below_1pct"] = weak
    ev = dict(property_id=pid, tier=tier, seed=seed, level=conf["level"], coverage=cov,
              assumptions=ASSUME_COMMON + conf.get("assume", []), wall_s=round(wall, 2), violations=len(violations))
    os.makedirs(f"{V}/evidence", exist_ok=True)
    tmp = f"{V}/evidence/{pid}.json.tmp"
    json.dump(ev, open(tmp, "w"), indent=1)
    os.replace(tmp, f"{V}/evidence/{pid}.json")

    kf = load_known(pid)
    for sig, hits in sorted(known_hits.items()):
        print(f"KNOWN-FINDING: property={pid} sig={sig} hits={hits} {kf.get(sig, '')[:240]}")
    for ln in sorted(set(known_lines)):
        if not any(f"sig={sig} " in ln for sig in known_hits):
            print(ln)
    for ln in out_lines:
        print(ln)
    print(f"SUMMARY property={pid} tier={tier} seed={seed} cases={evaluations} distinct_nontrivial={len(hashes)} "
          f"regress={nreg} inconclusive={inconclusive} unstable={unstable} wall={wall:.1f}s")
    if violations:
        seen = set()
        for v in violations:
            key = (v.get("sig"), v.get("replay"))
            if key in seen:
                continue
            seen.add(key)
            print(f"VIOLATION property={pid} replay={v.get('replay')} sig={v.get('sig')} {str(v.get('msg',''))[:300]}")
        return 1
    return 0


def load_known(pid):
    out = {}
    try:
        for e in json.load(open(f"{V}/known_findings.json"))["findings"]:
            if e.get("status") == "known" and e.get("property") == pid:
                out[e["sig"]] = e.get("what", "")
    except Exception:
        pass
    return out


def run_fuzz(pid, fz, tier, seed, env, violations):
    """fz: dict(name=..., quick_runs=..., thorough_runs=..., jobs=..., max_len=...)"""
    name = fz["name"]
    r = sh(f"make -s -C {V} -j{NCPU} {B}/bin/{name}", stdout=subprocess.PIPE, stderr=subprocess.STDOUT, text=True)
    if r.returncode != 0:
        print(r.stdout[-3000:])
        print(f"BUILD-FAILED property={pid} (fuzz target {name})")
        sys.exit(2)
    runs = fz[f"{tier}_runs"]
    jobs = fz.get("jobs", 4 if tier == "quick" else NCPU)
    wdir = f"{B}/run/{pid}/fuzz-{name}"
    shutil.rmtree(wdir, ignore_errors=True)
    os.makedirs(wdir + "/artifacts", exist_ok=True)
    execs = 0
    cov = 0
    procs = []
    for j in range(jobs):
        cdir = f"{wdir}/corpus{j}"
        os.makedirs(cdir)
        seedc = f"{V}/corpus/{name}"
        if os.path.isdir(seedc):
            for f in os.listdir(seedc):
                shutil.copy(os.path.join(seedc, f), cdir)
        cmd = [f"{B}/bin/{name}", cdir, f"-seed={derive_seed(seed, 1000 + j) % 2**31}", f"-runs={runs}",
               f"-max_len={fz.get('max_len', 512)}", f"-artifact_prefix={wdir}/artifacts/j{j}-", "-print_final_stats=1",
               "-timeout=20", "-rss_limit_mb=3000"]
        if fz.get("dict"):
            cmd.append(f"-dict={V}/{fz['dict']}")
        procs.append(subprocess.Popen(cmd, env=env, stdout=subprocess.DEVNULL, stderr=open(f"{wdir}/j{j}.log", "w")))
    for p in procs:
        p.wait()
    for j in range(jobs):
        for ln in open(f"{wdir}/j{j}.log", errors="replace"):
            if ln.startswith("stat::number_of_executed_units:"):
                execs += int(ln.split()[1])
            if " cov: " in ln:
                try:
                    cov = max(cov, int(ln.split(" cov: ")[1].split()[0]))
                except Exception:
                    pass
    arts = [a for a in glob.glob(f"{wdir}/artifacts/*") if os.path.basename(a).split("-")[1] in ("crash", "leak")]
    # replay saved regress artifacts too
    for a in sorted(glob.glob(f"{V}/regress/{pid}/{name}-*")):
        r = subprocess.run([f"{B}/bin/{name}", a], env=env, stdout=subprocess.PIPE, stderr=subprocess.STDOUT, text=True)
        if r.returncode != 0:
            violations.append(dict(sig=f"fuzz-regress:{name}", replay=a, msg=r.stdout[-300:]))
    for a in arts:
        # confirm: re-run the artifact 3x
        fails = 0
        last = ""
        for _ in range(3):
            r = subprocess.run([f"{B}/bin/{name}", a], env=env, stdout=subprocess.PIPE, stderr=subprocess.STDOUT, text=True, errors="replace")
            if r.returncode != 0:
                fails += 1
                last = r.stdout
        if fails == 3:
            keep = f"{B}/replays/{pid}-{name}-{os.path.basename(a)}"
            shutil.copy(a, keep)
            sig = "fuzz:" + name
            for ln in last.splitlines():
                if "VERIF-FAIL" in ln or "ERROR: AddressSanitizer" in ln or "runtime error" in ln:
                    sig = "fuzz:" + ln.strip()[:160]
                    break
            violations.append(dict(sig=sig, replay=keep, msg=""))
    return dict(target=name, execs=execs, jobs=jobs, runs_per_job=runs, coverage_edges=cov, artifacts=len(arts))


if __name__ == "__main__":
    sys.exit(main())
