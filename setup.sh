#!/bin/bash
# One-time setup after a fresh restore (offline): build the sanitizer library from /repo
# and all drivers.  Every check rebuilds incrementally anyway.
set -e
cd "$(dirname "$0")"
./build.sh san
make -s -j16 all
