# Builds the verification drivers against /verif/build/san/libnng.a (built by build.sh from /repo).
V      := /verif
B      := $(V)/build
SANF   := -fsanitize=address,undefined -fno-sanitize-recover=undefined -fno-omit-frame-pointer
CFLAGS := -O1 -g $(SANF) -DNNG_VERIF -DNNG_STATIC_LIB -I/repo/include -I/repo/src -I$(V)/engine -I$(B)/san -Wall -Wno-unused-function
CXXFLAGS := -std=gnu++17 $(CFLAGS) -I$(V)/props
CC     := clang
CXX    := clang++
LIBNNG := $(B)/san/libnng.a
NNGDEFS = $(shell cat $(B)/san/nng_defs.txt)
WRAPS  := nni_plat_mtx_lock nni_plat_mtx_unlock nni_plat_cv_wake nni_plat_cv_wake1 nni_plat_cv_wait nni_plat_cv_until \
          nni_plat_thr_init nni_plat_thr_fini nni_clock nni_msleep epoll_wait nni_random
WRAPF  := $(foreach w,$(WRAPS),-Wl,--wrap=$(w))

# in-process properties / properties under the deterministic scheduler (DST)
PURE   := C17 C19 C18 C16P
DST    := C05 C15 C06 C08 C09 C04 C07 C11 C12 C13 C02 C10 C14 C03 C20 C16 C18Q C16H C11U C20P C16S
# DST + short-transfer injection on the stream syscalls
DSTIO  := C01
ALL    := $(PURE) $(DST) $(DSTIO)

all: $(addprefix $(B)/bin/,$(ALL))

# always let ninja decide whether /repo changed (cheap when nothing did)
.PHONY: FORCE
FORCE:
$(LIBNNG): FORCE
	@$(V)/build.sh san

$(B)/obj/%.o: $(V)/engine/%.c $(LIBNNG)
	@mkdir -p $(B)/obj
	$(CC) $(CFLAGS) $(NNGDEFS) -MMD -c $< -o $@

$(B)/obj/%.o: $(V)/props/%.c $(LIBNNG)
	@mkdir -p $(B)/obj
	$(CC) $(CFLAGS) $(NNGDEFS) -MMD -c $< -o $@

$(B)/obj/%.o: $(V)/props/%.cpp $(V)/engine/pbt.hpp $(wildcard $(V)/props/*.hpp) $(wildcard $(V)/engine/*.h) $(LIBNNG)
	@mkdir -p $(B)/obj
	$(CXX) $(CXXFLAGS) -MMD -c $< -o $@

EXTRA :=
$(B)/bin/C18: EXTRA = $(B)/obj/shim_core.o
$(B)/bin/C18: $(B)/obj/shim_core.o
$(B)/bin/C16P: EXTRA = $(B)/obj/shim_http.o
$(B)/bin/C16P: $(B)/obj/shim_http.o
DSTOBJ := $(B)/obj/vsched.o $(B)/obj/nngh.o $(B)/obj/rawpeer.o
$(addprefix $(B)/bin/,$(DST)): EXTRA = $(DSTOBJ) $(WRAPF)
$(addprefix $(B)/bin/,$(DST)): $(DSTOBJ)
IOWRAPF := -Wl,--wrap=readv -Wl,--wrap=writev -Wl,--wrap=sendmsg -Wl,--wrap=send
$(addprefix $(B)/bin/,$(DSTIO)): EXTRA = $(DSTOBJ) $(B)/obj/iowrap.o $(WRAPF) $(IOWRAPF)
$(addprefix $(B)/bin/,$(DSTIO)): $(DSTOBJ) $(B)/obj/iowrap.o

$(B)/bin/%: $(B)/obj/%.o $(B)/obj/caseio.o $(LIBNNG)
	@mkdir -p $(B)/bin
	$(CXX) $(CXXFLAGS) -o $@ $(B)/obj/$*.o $(B)/obj/caseio.o $(EXTRA) $(LIBNNG) -lrapidcheck -lpthread

# ---- libFuzzer targets (linked against the fuzzer-no-link instrumented library)
FUZZLIB := $(B)/fuzz/libnng.a
$(B)/obj/fz_caseio.o: $(V)/engine/caseio.c
	@mkdir -p $(B)/obj
	$(CC) $(CFLAGS) -fsanitize=fuzzer-no-link -c $< -o $@
$(B)/bin/fz_%: $(V)/fuzz/fz_%.cc $(B)/obj/fz_caseio.o $(FUZZLIB) $(wildcard $(V)/props/*.hpp)
	@mkdir -p $(B)/bin
	$(CXX) $(CXXFLAGS) -fsanitize=fuzzer -o $@ $< $(B)/obj/fz_caseio.o $(FUZZLIB) -lpthread

# in-process targets that reuse a rapidcheck driver's executor (the driver source is included with VERIF_FUZZ defined)
$(B)/bin/fz_msg: $(V)/fuzz/fz_msg.cc $(V)/props/C17.cpp $(B)/obj/fz_caseio.o $(FUZZLIB) $(V)/engine/pbt.hpp
	@mkdir -p $(B)/bin
	$(CXX) $(CXXFLAGS) -fsanitize=fuzzer -o $@ $< $(B)/obj/fz_caseio.o $(FUZZLIB) -lrapidcheck -lpthread
$(B)/obj/fz_shim_core.o: $(V)/props/shim_core.c $(FUZZLIB)
	@mkdir -p $(B)/obj
	$(CC) $(CFLAGS) $(shell cat $(B)/fuzz/nng_defs.txt) -fsanitize=fuzzer-no-link -c $< -o $@
$(B)/bin/fz_q: $(V)/fuzz/fz_q.cc $(V)/props/C18.cpp $(B)/obj/fz_caseio.o $(B)/obj/fz_shim_core.o $(FUZZLIB) $(V)/engine/pbt.hpp
	@mkdir -p $(B)/bin
	$(CXX) $(CXXFLAGS) -fsanitize=fuzzer -o $@ $< $(B)/obj/fz_caseio.o $(B)/obj/fz_shim_core.o $(FUZZLIB) -lrapidcheck -lpthread

$(B)/obj/fz_shim_http.o: $(V)/props/shim_http.c $(FUZZLIB)
	@mkdir -p $(B)/obj
	$(CC) $(CFLAGS) $(shell cat $(B)/fuzz/nng_defs.txt) -fsanitize=fuzzer-no-link -c $< -o $@
$(B)/bin/fz_chunk: $(V)/fuzz/fz_chunk.cc $(B)/obj/fz_caseio.o $(B)/obj/fz_shim_http.o $(FUZZLIB) $(wildcard $(V)/props/*.hpp)
	@mkdir -p $(B)/bin
	$(CXX) $(CXXFLAGS) -fsanitize=fuzzer -o $@ $< $(B)/obj/fz_caseio.o $(B)/obj/fz_shim_http.o $(FUZZLIB) -lpthread

# fuzz targets that need the deterministic scheduler and the raw peer
FZDST := $(B)/obj/fz_vsched.o $(B)/obj/fz_nngh.o $(B)/obj/fz_rawpeer.o
$(B)/obj/fz_%.o: $(V)/engine/%.c $(FUZZLIB)
	@mkdir -p $(B)/obj
	$(CC) $(CFLAGS) $(shell cat $(B)/fuzz/nng_defs.txt) -c $< -o $@
$(B)/bin/fz_session: $(V)/fuzz/fz_session.cc $(B)/obj/fz_caseio.o $(FZDST) $(FUZZLIB) $(wildcard $(V)/props/*.hpp)
	@mkdir -p $(B)/bin
	$(CXX) $(CXXFLAGS) -fsanitize=fuzzer -o $@ $< $(B)/obj/fz_caseio.o $(FZDST) $(WRAPF) $(FUZZLIB) -lpthread
$(FUZZLIB): FORCE
	@$(V)/build.sh fuzz

-include $(wildcard $(B)/obj/*.d)
.SECONDARY:
