# Builds the verification drivers against /verif/build/san/libnng.a (built by build.sh from /repo).
V      := /verif
B      := $(V)/build
SANF   := -fsanitize=address,undefined -fno-sanitize-recover=undefined -fno-omit-frame-pointer
CFLAGS := -O1 -g $(SANF) -DNNG_VERIF -DNNG_STATIC_LIB -I/repo/include -I/repo/src -I$(V)/engine -I$(B)/san -Wall -Wno-unused-function
CXXFLAGS := -std=gnu++17 $(CFLAGS)
CC     := clang
CXX    := clang++
LIBNNG := $(B)/san/libnng.a
WRAPS  := nni_plat_mtx_lock nni_plat_mtx_unlock nni_plat_cv_wake nni_plat_cv_wake1 nni_plat_cv_wait nni_plat_cv_until \
          nni_plat_thr_init nni_plat_thr_fini nni_clock nni_msleep epoll_wait
WRAPF  := $(foreach w,$(WRAPS),-Wl,--wrap=$(w))

PURE   := C17
ALL    := $(PURE)

all: $(addprefix $(B)/bin/,$(ALL))

$(B)/obj/%.o: $(V)/engine/%.c $(LIBNNG)
	@mkdir -p $(B)/obj
	$(CC) $(CFLAGS) -MMD -c $< -o $@

$(B)/obj/%.o: $(V)/props/%.cpp $(V)/engine/pbt.hpp
	@mkdir -p $(B)/obj
	$(CXX) $(CXXFLAGS) -MMD -c $< -o $@

$(B)/bin/%: $(B)/obj/%.o $(B)/obj/caseio.o $(LIBNNG)
	@mkdir -p $(B)/bin
	$(CXX) $(CXXFLAGS) -o $@ $(B)/obj/$*.o $(B)/obj/caseio.o $(EXTRA_$*) $(LIBNNG) -lrapidcheck -lpthread

-include $(wildcard $(B)/obj/*.d)
.SECONDARY:
