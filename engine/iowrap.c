#define _GNU_SOURCE
#include "iowrap.h"
#include <errno.h>
#include <string.h>
#include <sys/socket.h>
#include <sys/types.h>
#include <sys/uio.h>

extern ssize_t __real_readv(int, const struct iovec *, int);
extern ssize_t __real_writev(int, const struct iovec *, int);
extern ssize_t __real_sendmsg(int, const struct msghdr *, int);
extern ssize_t __real_send(int, const void *, size_t, int);

static int     on;
static int     wplan[IO_MAXPLAN], rplan[IO_MAXPLAN], nw, nr, cyc;
static long    wk, rk, cw, cr;
static io_xfer xlog[IO_MAXLOG];
static int     nlog;

void
io_plan(const int *w, int n1, const int *r, int n2, int cycle)
{
	nw = n1 > IO_MAXPLAN ? IO_MAXPLAN : n1;
	nr = n2 > IO_MAXPLAN ? IO_MAXPLAN : n2;
	if (nw > 0)
		memcpy(wplan, w, sizeof(int) * (size_t) nw);
	if (nr > 0)
		memcpy(rplan, r, sizeof(int) * (size_t) nr);
	cyc  = cycle;
	wk = rk = cw = cr = 0;
	nlog = 0;
}

void
io_rearm(void)
{
	wk = rk = 0;
}

void
io_enable(int v)
{
	on = v;
}

long
io_clamped_writes(void)
{
	return cw;
}
long
io_clamped_reads(void)
{
	return cr;
}
const io_xfer *
io_log(int *n)
{
	*n = nlog;
	return xlog;
}

static long
next_clamp(int *plan, int n, long *k)
{
	if (!on || n == 0)
		return 0;
	long i = (*k)++;
	if (i >= n) {
		if (!cyc)
			return 0;
		i %= n;
	}
	return plan[i];
}

static void
logx(int fd, char dir, long want, long got)
{
	if (on && nlog < IO_MAXLOG) {
		xlog[nlog].fd   = fd;
		xlog[nlog].dir  = dir;
		xlog[nlog].want = want;
		xlog[nlog].got  = got;
		nlog++;
	}
}

// copy iov truncated to lim bytes; returns count and total
static int
trunc_iov(const struct iovec *iov, int n, long lim, struct iovec *out, long *total)
{
	int  m = 0;
	long t = 0, full = 0;
	for (int i = 0; i < n; i++)
		full += (long) iov[i].iov_len;
	*total = full;
	if (lim <= 0 || lim >= full)
		return -1; // no truncation needed
	for (int i = 0; i < n && t < lim && m < 16; i++) {
		size_t l = iov[i].iov_len;
		if ((long) l > lim - t)
			l = (size_t) (lim - t);
		if (l == 0)
			continue;
		out[m].iov_base = iov[i].iov_base;
		out[m].iov_len  = l;
		t += (long) l;
		m++;
	}
	return m;
}

ssize_t
__wrap_readv(int fd, const struct iovec *iov, int n)
{
	struct iovec tmp[16];
	long         total;
	long         lim = next_clamp(rplan, nr, &rk);
	int          m   = trunc_iov(iov, n, lim, tmp, &total);
	ssize_t      rv  = m < 0 ? __real_readv(fd, iov, n) : __real_readv(fd, tmp, m);
	if (rv >= 0) {
		if (m >= 0 && rv == lim)
			cr++;
		logx(fd, 'r', total, (long) rv);
	}
	return rv;
}

ssize_t
__wrap_writev(int fd, const struct iovec *iov, int n)
{
	struct iovec tmp[16];
	long         total;
	long         lim = next_clamp(wplan, nw, &wk);
	int          m   = trunc_iov(iov, n, lim, tmp, &total);
	ssize_t      rv  = m < 0 ? __real_writev(fd, iov, n) : __real_writev(fd, tmp, m);
	if (rv >= 0) {
		if (m >= 0)
			cw++;
		logx(fd, 'w', total, (long) rv);
	}
	return rv;
}

ssize_t
__wrap_sendmsg(int fd, const struct msghdr *msg, int flags)
{
	struct iovec  tmp[16];
	struct msghdr h     = *msg;
	long          total = 0;
	long          lim   = msg->msg_name == NULL ? next_clamp(wplan, nw, &wk) : 0; // never touch datagrams
	int           m     = trunc_iov(msg->msg_iov, (int) msg->msg_iovlen, lim, tmp, &total);
	if (m >= 0) {
		h.msg_iov    = tmp;
		h.msg_iovlen = (size_t) m;
	}
	ssize_t rv = __real_sendmsg(fd, &h, flags);
	if (rv >= 0 && msg->msg_name == NULL) {
		if (m >= 0)
			cw++;
		logx(fd, 'w', total, (long) rv);
	}
	return rv;
}

ssize_t
__wrap_send(int fd, const void *buf, size_t len, int flags)
{
	long   lim = next_clamp(wplan, nw, &wk);
	size_t l   = len;
	if (lim > 0 && (size_t) lim < len)
		l = (size_t) lim;
	ssize_t rv = __real_send(fd, buf, l, flags);
	if (rv >= 0) {
		if (l < len)
			cw++;
		logx(fd, 'w', (long) len, (long) rv);
	}
	return rv;
}
