#define _GNU_SOURCE
#include "rawpeer.h"
#include "vsched.h"
#include <arpa/inet.h>
#include <errno.h>
#include <fcntl.h>
#include <netinet/in.h>
#include <netinet/tcp.h>
#include <stdio.h>
#include <stdlib.h>
#include <string.h>
#include <sys/socket.h>
#include <sys/un.h>
#include <unistd.h>

static void
nonblock(int fd)
{
	fcntl(fd, F_SETFL, fcntl(fd, F_GETFL) | O_NONBLOCK);
	fcntl(fd, F_SETFD, FD_CLOEXEC);
}

static void
rp_init(rp *p, int fd, int kind)
{
	memset(p, 0, sizeof(*p));
	p->fd   = fd;
	p->kind = kind;
	nonblock(fd);
}

int rp_socket_sndbuf = 0;

int
rp_attach_socket(rp *p, nng_listener l)
{
	int fds[2];
	if (socketpair(AF_UNIX, SOCK_STREAM, 0, fds) != 0)
		return -1;
	nonblock(fds[1]);
	if (rp_socket_sndbuf > 0) {
		// a small kernel buffer on nng's end: a peer that stops reading stalls nng's writes after a few KiB
		int v = rp_socket_sndbuf;
		setsockopt(fds[1], SOL_SOCKET, SO_SNDBUF, &v, sizeof v);
	}
	int rv = nng_listener_set_int(l, NNG_OPT_SOCKET_FD, fds[1]);
	if (rv != 0) {
		close(fds[0]);
		close(fds[1]);
		return rv;
	}
	rp_init(p, fds[0], RP_SOCKET);
	return 0;
}

int
rp_connect_ipc(rp *p, const char *path)
{
	int                fd = socket(AF_UNIX, SOCK_STREAM, 0);
	struct sockaddr_un sa;
	memset(&sa, 0, sizeof sa);
	sa.sun_family = AF_UNIX;
	snprintf(sa.sun_path, sizeof sa.sun_path, "%s", path);
	if (connect(fd, (struct sockaddr *) &sa, sizeof sa) != 0) {
		close(fd);
		return -1;
	}
	rp_init(p, fd, RP_IPC);
	return 0;
}

int
rp_connect_tcp(rp *p, int port)
{
	int                fd = socket(AF_INET, SOCK_STREAM, 0);
	struct sockaddr_in sa;
	memset(&sa, 0, sizeof sa);
	sa.sin_family      = AF_INET;
	sa.sin_port        = htons((uint16_t) port);
	sa.sin_addr.s_addr = htonl(INADDR_LOOPBACK);
	if (connect(fd, (struct sockaddr *) &sa, sizeof sa) != 0) {
		close(fd);
		return -1;
	}
	int one = 1;
	setsockopt(fd, IPPROTO_TCP, TCP_NODELAY, &one, sizeof one);
	rp_init(p, fd, RP_TCP);
	return 0;
}

int
rp_listen_ipc(const char *path)
{
	int                fd = socket(AF_UNIX, SOCK_STREAM, 0);
	struct sockaddr_un sa;
	memset(&sa, 0, sizeof sa);
	sa.sun_family = AF_UNIX;
	snprintf(sa.sun_path, sizeof sa.sun_path, "%s", path);
	unlink(path);
	if (bind(fd, (struct sockaddr *) &sa, sizeof sa) != 0 || listen(fd, 16) != 0) {
		close(fd);
		return -1;
	}
	nonblock(fd);
	return fd;
}

int
rp_listen_tcp(int *port)
{
	int                fd = socket(AF_INET, SOCK_STREAM, 0);
	struct sockaddr_in sa;
	socklen_t          sl = sizeof sa;
	int                one = 1;
	setsockopt(fd, SOL_SOCKET, SO_REUSEADDR, &one, sizeof one);
	memset(&sa, 0, sizeof sa);
	sa.sin_family      = AF_INET;
	sa.sin_addr.s_addr = htonl(INADDR_LOOPBACK);
	if (bind(fd, (struct sockaddr *) &sa, sizeof sa) != 0 || listen(fd, 16) != 0 ||
	    getsockname(fd, (struct sockaddr *) &sa, &sl) != 0) {
		close(fd);
		return -1;
	}
	*port = ntohs(sa.sin_port);
	nonblock(fd);
	return fd;
}

int
rp_listen_tcp_port(int port)
{
	int                fd = socket(AF_INET, SOCK_STREAM, 0);
	struct sockaddr_in sa;
	int                one = 1;
	setsockopt(fd, SOL_SOCKET, SO_REUSEADDR, &one, sizeof one);
	memset(&sa, 0, sizeof sa);
	sa.sin_family      = AF_INET;
	sa.sin_addr.s_addr = htonl(INADDR_LOOPBACK);
	sa.sin_port        = htons((uint16_t) port);
	if (bind(fd, (struct sockaddr *) &sa, sizeof sa) != 0 || listen(fd, 16) != 0) {
		close(fd);
		return -1;
	}
	nonblock(fd);
	return fd;
}

int
rp_accept(rp *p, int lfd, int kind)
{
	int fd = accept(lfd, NULL, NULL);
	if (fd < 0)
		return -1;
	if (kind == RP_TCP) {
		int one = 1;
		setsockopt(fd, IPPROTO_TCP, TCP_NODELAY, &one, sizeof one);
	}
	rp_init(p, fd, kind);
	return 0;
}

void
rp_close(rp *p)
{
	if (p->fd >= 0)
		close(p->fd);
	p->fd = -1;
	free(p->rx);
	p->rx    = NULL;
	p->rxlen = p->rxcap = 0;
}

void
rp_shutdown_wr(rp *p)
{
	if (p->fd >= 0)
		shutdown(p->fd, SHUT_WR);
}

int
rp_write(rp *p, const void *buf, size_t len)
{
	const uint8_t *b     = buf;
	int            stall = 0;
	while (len > 0) {
		ssize_t n = sendto(p->fd, b, len, MSG_NOSIGNAL, NULL, 0); // (sendto: the harness must not go through the wrapped send())
		p->wr_calls++;
		if (n > 0) {
			b += n;
			len -= (size_t) n;
			p->wr_total += (size_t) n;
			stall = 0;
			continue;
		}
		if (n < 0 && (errno == EAGAIN || errno == EWOULDBLOCK)) {
			// kernel buffer full: let nng drain it
			rp_pump(p);
			vs_settle();
			if (++stall > 2000)
				return -2; // peer is not reading
			if (!vs_enabled())
				usleep(1000);
			continue;
		}
		if (n < 0 && errno == EINTR)
			continue;
		return -1; // EPIPE / ECONNRESET: nng closed the connection
	}
	return 0;
}

int
rp_write_chunked(rp *p, const void *buf, size_t len, const int *chunks, int nchunks)
{
	const uint8_t *b = buf;
	int            k = 0;
	while (len > 0) {
		size_t c = len;
		if (k < nchunks && chunks[k] > 0 && (size_t) chunks[k] < len)
			c = (size_t) chunks[k];
		k++;
		int rv = rp_write(p, b, c);
		if (rv != 0)
			return rv;
		b += c;
		len -= c;
		vs_settle(); // nng sees exactly this chunk before the next one is written
	}
	return 0;
}

void
rp_pump(rp *p)
{
	if (p->fd < 0)
		return;
	for (;;) {
		if (p->rxcap - p->rxlen < 65536) {
			p->rxcap = p->rxcap ? p->rxcap * 2 : 131072;
			p->rx    = realloc(p->rx, p->rxcap);
		}
		ssize_t n = recv(p->fd, p->rx + p->rxlen, p->rxcap - p->rxlen, 0);
		p->rd_calls++;
		if (n > 0) {
			p->rxlen += (size_t) n;
			p->rd_total += n;
			continue;
		}
		if (n == 0) {
			p->eof = 1;
			return;
		}
		if (errno == EINTR)
			continue;
		if (errno != EAGAIN && errno != EWOULDBLOCK)
			p->eof = 1; // reset
		return;
	}
}

size_t
rp_consume(rp *p, void *buf, size_t n)
{
	if (n > p->rxlen)
		n = p->rxlen;
	if (buf != NULL)
		memcpy(buf, p->rx, n);
	memmove(p->rx, p->rx + n, p->rxlen - n);
	p->rxlen -= n;
	return n;
}

void
rp_hello(uint8_t out[8], uint16_t proto)
{
	out[0] = 0;
	out[1] = 'S';
	out[2] = 'P';
	out[3] = 0;
	out[4] = (uint8_t) (proto >> 8);
	out[5] = (uint8_t) proto;
	out[6] = 0;
	out[7] = 0;
}

int
rp_handshake(rp *p, uint16_t myproto, uint16_t *peerproto)
{
	uint8_t h[8];
	rp_hello(h, myproto);
	if (rp_write(p, h, 8) != 0)
		return -1;
	for (int i = 0; i < 50 && p->rxlen < 8 && !p->eof; i++) {
		vs_settle();
		rp_pump(p);
		if (!vs_enabled())
			usleep(2000);
	}
	if (p->rxlen < 8)
		return -1;
	rp_consume(p, h, 8);
	if (h[0] != 0 || h[1] != 'S' || h[2] != 'P' || h[3] != 0 || h[6] != 0 || h[7] != 0)
		return -2;
	if (peerproto)
		*peerproto = (uint16_t) ((h[4] << 8) | h[5]);
	return 0;
}

size_t
rp_frame(uint8_t *out, int kind, const void *payload, size_t len)
{
	size_t o = 0;
	if (kind == RP_IPC)
		out[o++] = 0x01;
	uint64_t l = len;
	for (int i = 7; i >= 0; i--)
		out[o++] = (uint8_t) (l >> (8 * i));
	if (len)
		memcpy(out + o, payload, len);
	return o + len;
}

int
rp_send_msg(rp *p, const void *payload, size_t len)
{
	uint8_t *b  = malloc(len + 9);
	size_t   n  = rp_frame(b, p->kind, payload, len);
	int      rv = rp_write(p, b, n);
	free(b);
	return rv;
}

int
rp_recv_msg(rp *p, uint8_t **payload, size_t *len)
{
	rp_pump(p);
	size_t hdr = p->kind == RP_IPC ? 9 : 8;
	if (p->rxlen < hdr)
		return 0;
	size_t o = 0;
	if (p->kind == RP_IPC) {
		if (p->rx[0] != 0x01)
			return -1;
		o = 1;
	}
	uint64_t l = 0;
	for (int i = 0; i < 8; i++)
		l = (l << 8) | p->rx[o + i];
	if (l > (1ull << 31))
		return -1;
	if (p->rxlen < hdr + l)
		return 0;
	*payload = malloc(l ? l : 1);
	memcpy(*payload, p->rx + hdr, l);
	*len = (size_t) l;
	rp_consume(p, NULL, hdr + (size_t) l);
	return 1;
}
