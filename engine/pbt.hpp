// pbt.hpp -- generic rapidcheck driver with fork-per-case execution (E7).
//
// A property TU defines a PropSpec (generator producing the textual case, executor
// interpreting it against real nng + model, non-triviality rule) and calls pbt_main.
// Every random choice is made by rapidcheck generators; the run is a pure function of
// the tree and --seed.  A crash / deadlock / oracle failure in the child is a failing
// case, so rapidcheck's shrinker minimises it; the minimal case text is the replay file.
#pragma once
#include <rapidcheck.h>

#include <algorithm>
#include <cerrno>
#include <chrono>
#include <csignal>
#include <cstdio>
#include <cstdlib>
#include <cstring>
#include <fstream>
#include <functional>
#include <map>
#include <regex>
#include <set>
#include <sstream>
#include <string>
#include <vector>

#include <fcntl.h>
#include <poll.h>
#include <sys/mman.h>
#include <sys/stat.h>
#include <sys/syscall.h>
#include <sys/wait.h>
#include <unistd.h>

#include "caseio.h"

namespace pbt {

struct PropSpec {
	std::string                                    id;
	std::function<std::string()>                   gen;  // called inside the rc property
	int (*exec)(const vcase *)               = nullptr; // child: 0 = held (or vr_fail)
	std::function<bool(const std::set<std::string> &)> nontrivial;
	std::string rule;
	bool        use_server = true; // stream cases to a persistent child (fresh process for confirmation)
	int         watchdog_s = 40;
	std::function<void()> child_init; // optional, runs in the child before exec
	// optional: a finite sub-space enumerated instead of sampled (--enumerate): returns the cases of this worker's stripe
	std::function<std::vector<std::string>(int worker, int nworkers, bool thorough)> enumerate;
};

struct Outcome {
	enum Kind { PASS, VIOLATION, KNOWN, TIMEOUT } kind = PASS;
	std::string           sig, msg, errout;
	std::set<std::string> tags;
	long                  counters[16] = {0};
	std::map<std::string, long> soft_known;
};

struct Known {
	std::string prop, sig, what;
	std::string sig_re, case_re; // optional: the finding's call-site class / the history class it needs
};

inline std::string
json_escape(const std::string &s)
{
	std::string o;
	for (unsigned char c : s) {
		switch (c) {
		case '"': o += "\\\""; break;
		case '\\': o += "\\\\"; break;
		case '\n': o += "\\n"; break;
		case '\t': o += "\\t"; break;
		case '\r': o += "\\r"; break;
		default:
			if (c < 0x20 || c >= 0x7f) {
				char b[8];
				snprintf(b, sizeof b, "\\u%04x", c);
				o += b;
			} else
				o += (char) c;
		}
	}
	return o;
}

inline uint64_t
fnv1a(const std::string &s)
{
	uint64_t h = 1469598103934665603ull;
	for (unsigned char c : s) {
		h ^= c;
		h *= 1099511628211ull;
	}
	return h;
}

// Stable signature out of sanitizer / panic / scheduler output.
inline std::string
crash_signature(const std::string &err, int status)
{
	std::string kind;
	size_t      p;
	if ((p = err.find("VSCHED DEADLOCK")) != std::string::npos)
		return "deadlock";
	if ((p = err.find("VSCHED LIVELOCK")) != std::string::npos)
		return "livelock";
	if ((p = err.find("ATRACK ")) != std::string::npos) {
		size_t e = err.find('\n', p);
		return "atrack:" + err.substr(p + 7, std::min<size_t>(e - p - 7, 60));
	}
	if ((p = err.find("ERROR: AddressSanitizer: ")) != std::string::npos) {
		size_t s = p + 25, e = err.find_first_of(" \n", s);
		kind = "asan:" + err.substr(s, e - s);
	} else if ((p = err.find("runtime error: ")) != std::string::npos) {
		size_t e = err.find('\n', p);
		std::string m = err.substr(p + 15, std::min<size_t>(e - p - 15, 50));
		for (auto &c : m)
			if (c >= '0' && c <= '9')
				c = 'N';
		kind = "ubsan:" + m;
	} else if ((p = err.find("Panic: ")) != std::string::npos) {
		size_t e = err.find('\n', p);
		kind = "panic:" + err.substr(p + 7, std::min<size_t>(e - p - 7, 80));
		return kind;
	} else if (WIFSIGNALED(status)) {
		kind = "signal:" + std::to_string(WTERMSIG(status));
	} else {
		kind = "exit:" + std::to_string(WEXITSTATUS(status));
	}
	// first two frames located in nng sources
	int    n   = 0;
	size_t pos = p == std::string::npos ? 0 : p;
	while (n < 2) {
		size_t q = err.find(" in ", pos);
		if (q == std::string::npos)
			break;
		size_t e  = err.find('\n', q);
		std::string ln = err.substr(q + 4, e - q - 4);
		pos = e == std::string::npos ? err.size() : e;
		if (ln.find("/repo/src/") == std::string::npos)
			continue;
		kind += ":" + ln.substr(0, ln.find(' '));
		n++;
	}
	return kind;
}

class Runner {
      public:
	PropSpec            spec;
	vreport            *shared = nullptr;
	std::vector<Known>  known;
	// statistics
	long                                evaluations = 0, nontrivial_total = 0, inconclusive = 0;
	std::set<uint64_t>                  nontrivial_hashes;
	std::map<std::string, long>         tag_hist;
	std::map<std::string, long>         known_hits;
	std::vector<std::pair<std::string, std::set<std::string>>> samples;
	long                                counters[16] = {0};
	std::string                         last_fail_text;
	Outcome                             last_fail;
	size_t                              min_sample = (size_t) -1, max_sample = 0;

	void
	load_known(const std::string &path)
	{
		// minimal parser: lines of the form  {"status":"known","property":"C15","sig":"...","what":"..."}
		std::ifstream f(path);
		std::string   line;
		while (std::getline(f, line)) {
			auto get = [&](const char *k) -> std::string {
				std::string key = std::string("\"") + k + "\"";
				size_t      p   = line.find(key);
				if (p == std::string::npos)
					return "";
				p = line.find(':', p);
				p = line.find('"', p);
				size_t e = p + 1;
				std::string o;
				while (e < line.size() && line[e] != '"') {
					if (line[e] == '\\' && e + 1 < line.size())
						e++;
					o += line[e++];
				}
				return o;
			};
			if (get("status") == "known" && get("property") == spec.id) {
				known.push_back({get("property"), get("sig"), get("what"), get("sig_re"), get("case_re")});
				if (vr_nknown_sigs < VR_MAXKNOWN)
					snprintf(vr_known_sigs[vr_nknown_sigs++], sizeof(vr_known_sigs[0]), "%s", get("sig").c_str());
			}
		}
	}

	// ---- persistent executor child ("server"): forking an ASan process costs ~10 ms of
	// kernel time, so generated cases are streamed to one long-lived child which is
	// replaced whenever it dies (= failing case) or after `recycle` cases.  Confirmation
	// replays (fresh=true) always use a brand-new process, so a failure that only exists
	// because of state leaking between cases cannot be reported as a violation.
	pid_t srv_pid = -1;
	int   srv_in = -1, srv_out = -1, srv_err = -1, srv_cases = 0;
	int   recycle = 400;
	std::vector<std::string> srv_history; // cases the current child has executed (triage of cross-case state)
	long  unstable_first = 0;

	void
	child_run(const std::string &text)
	{
		vcase c;
		if (vcase_parse(text.c_str(), &c) != 0) {
			fprintf(stderr, "case syntax error\n");
			_exit(2);
		}
		int rc = spec.exec(&c);
		if (rc != 0)
			_exit(rc);
		vcase_free(&c);
	}

	void
	srv_stop()
	{
		if (srv_pid > 0) {
			close(srv_in);
			close(srv_out);
			close(srv_err);
			kill(srv_pid, SIGKILL);
			int st;
			while (waitpid(srv_pid, &st, 0) < 0 && errno == EINTR) {
			}
			srv_pid = -1;
		}
	}

	void
	srv_start()
	{
		int a[2], b[2];
		if (pipe(a) != 0 || pipe(b) != 0) {
			perror("pipe");
			exit(2);
		}
		srv_err = memfd_create("verif-stderr", 0);
		fflush(stdout);
		fflush(stderr);
		pid_t pid = fork();
		if (pid < 0) {
			perror("fork");
			exit(2);
		}
		if (pid == 0) {
			close(a[1]);
			close(b[0]);
			dup2(srv_err, 2);
			vr = shared;
			if (spec.child_init)
				spec.child_init();
			for (;;) {
				uint32_t len;
				if (read(a[0], &len, 4) != 4)
					_exit(0);
				std::string t(len, 0);
				size_t      got = 0;
				while (got < len) {
					ssize_t r = read(a[0], &t[got], len - got);
					if (r <= 0)
						_exit(0);
					got += r;
				}
				child_run(t);
				char ok = 0;
				if (write(b[1], &ok, 1) != 1)
					_exit(0);
			}
		}
		close(a[0]);
		close(b[1]);
		srv_pid   = pid;
		srv_in    = a[1];
		srv_out   = b[0];
		srv_cases = 0;
	}

	void
	finish_outcome(Outcome &o, bool timed, bool died, int status, int efd, const std::string &text)
	{
		off_t sz = lseek(efd, 0, SEEK_END);
		if (sz > 0) {
			if (sz > 200000)
				sz = 200000;
			o.errout.resize(sz);
			if (pread(efd, &o.errout[0], sz, 0) < 0)
				o.errout.clear();
		}
		for (int i = 0; i < shared->ntags && i < VR_MAXTAGS; i++)
			o.tags.insert(shared->tags[i]);
		memcpy(o.counters, shared->counters, sizeof(o.counters));
		for (int i = 0; i < shared->nknown && i < 8; i++)
			o.soft_known[shared->known_sig[i]] += shared->known_cnt[i];
		if (timed) {
			o.kind = Outcome::TIMEOUT;
			o.sig  = "watchdog";
		} else if (!died) {
			o.kind = Outcome::PASS;
		} else {
			o.kind = Outcome::VIOLATION;
			if (WIFEXITED(status) && WEXITSTATUS(status) == 1 && shared->verdict == 1) {
				o.sig = shared->sig;
				o.msg = shared->msg;
			} else {
				o.sig = crash_signature(o.errout, status);
				o.msg = "child died: op " + std::to_string(shared->opidx) + " (" + shared->lastop + ")";
			}
			for (auto &k : known) {
				bool hit = k.sig == o.sig && k.sig_re.empty();
				if (!hit && !k.sig_re.empty()) {
					try {
						hit = std::regex_search(o.sig, std::regex(k.sig_re)) &&
						    (k.case_re.empty() || std::regex_search(text, std::regex(k.case_re)));
					} catch (...) {
						hit = false;
					}
					if (hit)
						o.sig = k.sig; // counted under the finding's canonical signature
				}
				if (hit) {
					o.kind = Outcome::KNOWN;
					break;
				}
			}
		}
	}

	Outcome
	run_server(const std::string &text)
	{
		Outcome o;
		if (srv_pid > 0 && srv_cases >= recycle)
			srv_stop();
		if (srv_pid < 0)
			srv_start();
		if (srv_cases == 0)
			srv_history.clear();
		srv_history.push_back(text);
		srv_cases++;
		memset(shared, 0, sizeof(*shared));
		if (ftruncate(srv_err, 0) != 0 || lseek(srv_err, 0, SEEK_SET) != 0) {
		}
		uint32_t len = (uint32_t) text.size();
		bool     died = false, timed = false;
		int      status = 0;
		if (write(srv_in, &len, 4) != 4 || write(srv_in, text.data(), len) != (ssize_t) len)
			died = true;
		if (!died) {
			struct pollfd p = {srv_out, POLLIN, 0};
			int           r;
			do {
				r = poll(&p, 1, spec.watchdog_s * 1000);
			} while (r < 0 && errno == EINTR);
			char ok;
			if (r == 0)
				timed = true;
			else if (read(srv_out, &ok, 1) != 1)
				died = true;
		}
		if (died || timed) {
			if (timed)
				kill(srv_pid, SIGKILL);
			while (waitpid(srv_pid, &status, 0) < 0 && errno == EINTR) {
			}
			int efd = srv_err;
			finish_outcome(o, timed, died, status, efd, text);
			close(srv_in);
			close(srv_out);
			close(srv_err);
			srv_pid = -1;
		} else
			finish_outcome(o, false, false, 0, srv_err, text);
		return o;
	}

	Outcome
	run_text(const std::string &text, bool verbose = false, bool fresh = true)
	{
		if (!fresh && spec.use_server)
			return run_server(text);
		Outcome o;
		memset(shared, 0, sizeof(*shared));
		int efd = memfd_create("verif-stderr", 0);
		fflush(stdout);
		fflush(stderr);
		pid_t pid = fork();
		if (pid < 0) {
			perror("fork");
			exit(2);
		}
		if (pid == 0) {
			dup2(efd, 2);
			close(efd);
			vr = shared;
			if (spec.child_init)
				spec.child_init();
			child_run(text);
			_exit(0);
		}
		int  status = 0;
		int  pfd    = (int) syscall(SYS_pidfd_open, pid, 0);
		bool timed  = false;
		if (pfd >= 0) {
			struct pollfd p = {pfd, POLLIN, 0};
			int           r;
			do {
				r = poll(&p, 1, spec.watchdog_s * 1000);
			} while (r < 0 && errno == EINTR);
			if (r == 0) {
				timed = true;
				kill(pid, SIGKILL);
			}
			close(pfd);
		}
		while (waitpid(pid, &status, 0) < 0 && errno == EINTR) {
		}
		bool died = !(WIFEXITED(status) && WEXITSTATUS(status) == 0);
		finish_outcome(o, timed, died, status, efd, text);
		close(efd);
		if (verbose && !o.errout.empty())
			fprintf(stderr, "%s\n", o.errout.c_str());
		return o;
	}

	// One generated case.  Returns true if the property held (or known finding).
	bool hang_found = false;

	bool
	one(const std::string &text)
	{
		// a reproducible hang costs 3 watchdog periods per evaluation: do not shrink it
		if (hang_found)
			return true;
		Outcome o = run_text(text, false, false);
		evaluations++;
		for (auto &t : o.tags)
			tag_hist[t]++;
		for (int i = 0; i < 16; i++)
			counters[i] += o.counters[i];
		for (auto &k : o.soft_known)
			known_hits[k.first] += k.second;
		bool nt = spec.nontrivial ? spec.nontrivial(o.tags) : true;
		if (nt) {
			nontrivial_total++;
			nontrivial_hashes.insert(fnv1a(text));
		}
		// keep samples: first few nontrivial, smallest, largest
		if (nt && (samples.size() < 4 || text.size() < min_sample || text.size() > max_sample)) {
			if (samples.size() >= 8)
				samples.erase(samples.begin() + 4);
			samples.push_back({text, o.tags});
			min_sample = std::min(min_sample, text.size());
			max_sample = std::max(max_sample, text.size());
		}
		switch (o.kind) {
		case Outcome::PASS: return true;
		case Outcome::KNOWN: known_hits[o.sig]++; return true;
		case Outcome::TIMEOUT: {
			// real-time watchdog: only a violation when it reproduces
			int again = 0;
			for (int i = 0; i < 2; i++)
				if (run_text(text).kind == Outcome::TIMEOUT)
					again++;
			if (again < 2) {
				inconclusive++;
				// keep the case for triage: a watchdog hit that does not reproduce is load noise or a harness race
				char nm[256];
				snprintf(nm, sizeof nm, "/verif/build/replays/%s-inconclusive-%d-%ld.case", spec.id.c_str(), (int) getpid(), inconclusive);
				std::ofstream f(nm);
				f << text;
				return true;
			}
			o.sig = "hang";
			o.msg = "case exceeds the real-time watchdog reproducibly";
			hang_found = true;
		} // fallthrough
		case Outcome::VIOLATION:
			if (spec.use_server && !in_shrink && o.kind == Outcome::VIOLATION) {
				// the failure happened in the long-lived child: does the case fail on its own?
				bool alone = false;
				for (int i = 0; i < 2 && !alone; i++) {
					Outcome f = run_text(text);
					alone     = f.kind == Outcome::VIOLATION || f.kind == Outcome::TIMEOUT;
				}
				if (!alone) {
					// keep what the child had executed: a failure that needs earlier cases in the same process is state
					// surviving nng_fini/nng_init, to be triaged with --replay-history (never reported from here)
					unstable_first++;
					char nm[256];
					snprintf(nm, sizeof nm, "/verif/build/replays/%s-history-%d-%ld.cases", spec.id.c_str(), (int) getpid(), unstable_first);
					std::ofstream f(nm);
					for (auto &h : srv_history)
						f << h << "====\n";
					f << "#sig " << o.sig << "\n#stderr\n" << o.errout.substr(0, 8000) << "\n";
					return true;
				}
			}
			in_shrink      = true;
			last_fail_text = text;
			last_fail      = o;
			return false;
		}
		return true;
	}
	bool in_shrink = false;
};

inline std::string
hexs(const std::vector<uint8_t> &v)
{
	static const char *d = "0123456789abcdef";
	std::string        s = "x";
	for (auto b : v) {
		s += d[b >> 4];
		s += d[b & 15];
	}
	return s;
}

// weighted choice / element choice that do not collapse towards the first alternatives at small sizes
template <typename T>
inline rc::Gen<T>
welem(std::initializer_list<std::pair<std::size_t, T>> l)
{
	return rc::gen::resize(100, rc::gen::weightedElement<T>(l));
}

// inRange that does not collapse at small sizes
template <typename T>
inline rc::Gen<T>
range(T lo, T hi) // inclusive
{
	return rc::gen::resize(100, rc::gen::inRange<T>(lo, (T) (hi + 1)));
}

inline int
pbt_main(int argc, char **argv, PropSpec spec)
{
	long        cases = 1000, size = 100;
	uint64_t    seed  = 1;
	std::string rhist;
	std::string out, replay, regress, knownf = "/verif/known_findings.json", replaydir = "/verif/build/replays";
	int         worker = 0, nworkers = 16;
	bool        enumerate = false;
	for (int i = 1; i < argc; i++) {
		std::string a = argv[i];
		auto        nx = [&]() { return std::string(i + 1 < argc ? argv[++i] : ""); };
		if (a == "--cases")
			cases = atol(nx().c_str());
		else if (a == "--size")
			size = atol(nx().c_str());
		else if (a == "--seed")
			seed = strtoull(nx().c_str(), 0, 0);
		else if (a == "--out")
			out = nx();
		else if (a == "--replay")
			replay = nx();
		else if (a == "--known")
			knownf = nx();
		else if (a == "--worker")
			worker = atoi(nx().c_str());
		else if (a == "--replay-history")
			rhist = nx();
		else if (a == "--replaydir")
			replaydir = nx();
		else if (a == "--enumerate")
			enumerate = true;
		else if (a == "--nworkers")
			nworkers = atoi(nx().c_str());
	}
	Runner R;
	R.spec   = spec;
	R.shared = (vreport *) mmap(nullptr, sizeof(vreport), PROT_READ | PROT_WRITE, MAP_SHARED | MAP_ANONYMOUS, -1, 0);
	R.load_known(knownf);
	auto t0 = std::chrono::steady_clock::now();

	if (!rhist.empty()) {
		// feed a saved sequence of cases to one executor child, in order
		std::ifstream f(rhist);
		std::string   line, cur;
		int           n = 0;
		R.recycle       = 1000000;
		while (std::getline(f, line)) {
			if (line.rfind("#sig", 0) == 0)
				break;
			if (line == "====") {
				Outcome o = R.run_server(cur);
				n++;
				if (o.kind != Outcome::PASS && o.kind != Outcome::KNOWN) {
					printf("HISTORY-FAIL after %d case(s) sig=%s msg=%s\n%s\n%s\n", n, o.sig.c_str(), o.msg.c_str(), cur.c_str(), o.errout.substr(0, 12000).c_str());
					return 1;
				}
				cur.clear();
			} else
				cur += line + "\n";
		}
		R.srv_stop();
		printf("HISTORY property=%s held over %d case(s)\n", spec.id.c_str(), n);
		return 0;
	}
	if (!replay.empty()) {
		std::ifstream     f(replay);
		std::stringstream ss;
		ss << f.rdbuf();
		Outcome o = R.run_text(ss.str(), true);
		std::string tg;
		for (auto &t : o.tags)
			tg += t + " ";
		for (auto &k : o.soft_known)
			printf("KNOWN-FINDING: property=%s sig=%s hits=%ld\n", spec.id.c_str(), k.first.c_str(), k.second);
		if (o.kind == Outcome::PASS) {
			printf("REPLAY property=%s held tags=[%s]\n", spec.id.c_str(), tg.c_str());
			return 0;
		}
		if (o.kind == Outcome::KNOWN) {
			printf("KNOWN-FINDING: property=%s sig=%s %s\n", spec.id.c_str(), o.sig.c_str(), o.msg.c_str());
			return 0;
		}
		if (o.kind == Outcome::TIMEOUT) {
			printf("REPLAY property=%s inconclusive (watchdog)\n", spec.id.c_str());
			return 3;
		}
		printf("REPLAY-FAIL property=%s sig=%s msg=%s tags=[%s]\n", spec.id.c_str(), o.sig.c_str(), o.msg.c_str(),
		    tg.c_str());
		printf("VIOLATION property=%s replay=%s\n", spec.id.c_str(), replay.c_str());
		return 1;
	}

	std::string params = "seed=" + std::to_string(seed) + " max_success=" + std::to_string(cases) +
	    " max_size=" + std::to_string(size) + " max_discard_ratio=100";
	setenv("RC_PARAMS", params.c_str(), 1);
	// silence rapidcheck's own report on stdout/stderr a bit: it prints to stderr
	bool ok = true;
	long enumerated = 0;
	if (enumerate && spec.enumerate) {
		// exhaustive tier: the cases are a function of (worker, nworkers, tier) only; the first failing case is the replay file
		const char *tv = getenv("VERIF_TIER");
		for (auto &text : spec.enumerate(worker, nworkers, tv != nullptr && strcmp(tv, "thorough") == 0)) {
			enumerated++;
			if (!R.one(text)) {
				ok = false;
				break;
			}
		}
	} else
		ok = rc::check(spec.id + ": " + spec.rule.substr(0, 60), [&]() {
			std::string text = spec.gen();
			bool        held = R.one(text);
			if (!held)
				RC_FAIL("violation");
		});
	R.srv_stop();
	double wall = std::chrono::duration<double>(std::chrono::steady_clock::now() - t0).count();

	std::string vio_json = "[]";
	int         rcx      = 0;
	if (!ok) {
		// confirm the shrunk case 3x
		int fails = 0;
		for (int i = 0; i < 3; i++) {
			Outcome o = R.run_text(R.last_fail_text);
			if (o.kind == Outcome::VIOLATION || o.kind == Outcome::TIMEOUT)
				fails++;
		}
		(void) mkdir(replaydir.c_str(), 0777);
		char name[512];
		snprintf(name, sizeof name, "%s/%s-s%llu-w%d.case", replaydir.c_str(), spec.id.c_str(),
		    (unsigned long long) seed, worker);
		std::ofstream rf(name);
		rf << R.last_fail_text;
		rf.close();
		bool stable = fails == 3;
		std::ostringstream vj;
		vj << "[{\"sig\":\"" << json_escape(R.last_fail.sig) << "\",\"msg\":\"" << json_escape(R.last_fail.msg)
		   << "\",\"replay\":\"" << name << "\",\"stable\":" << (stable ? "true" : "false") << ",\"case\":\""
		   << json_escape(R.last_fail_text) << "\",\"stderr\":\""
		   << json_escape(R.last_fail.errout.substr(0, 6000)) << "\"}]";
		vio_json = vj.str();
		if (stable) {
			printf("FAIL property=%s sig=%s msg=%s\n", spec.id.c_str(), R.last_fail.sig.c_str(),
			    R.last_fail.msg.c_str());
			printf("VIOLATION property=%s replay=%s\n", spec.id.c_str(), name);
			rcx = 1;
		} else {
			printf("UNSTABLE property=%s sig=%s replay=%s (failed %d/3 on re-run)\n", spec.id.c_str(),
			    R.last_fail.sig.c_str(), name, fails);
			rcx = 4;
		}
	}
	for (auto &k : R.known_hits) {
		std::string what;
		for (auto &kk : R.known)
			if (kk.sig == k.first)
				what = kk.what;
		printf("KNOWN-FINDING: property=%s sig=%s hits=%ld %s\n", spec.id.c_str(), k.first.c_str(), k.second,
		    what.c_str());
	}
	if (!out.empty()) {
		std::ofstream f(out);
		f << "{\"property_id\":\"" << spec.id << "\",\"seed\":" << seed << ",\"worker\":" << worker
		  << ",\"enumerated\":" << enumerated << ",\"evaluations\":" << R.evaluations << ",\"nontrivial_total\":" << R.nontrivial_total
		  << ",\"inconclusive\":" << R.inconclusive << ",\"unstable_first\":" << R.unstable_first << ",\"wall_s\":" << wall << ",\"ok\":" << (ok ? "true" : "false")
		  << ",\"rule\":\"" << json_escape(spec.rule) << "\",\"nontrivial_hashes\":[";
		bool first = true;
		for (auto h : R.nontrivial_hashes) {
			f << (first ? "" : ",") << "\"" << std::hex << h << std::dec << "\"";
			first = false;
		}
		f << "],\"tags\":{";
		first = true;
		for (auto &t : R.tag_hist) {
			f << (first ? "" : ",") << "\"" << json_escape(t.first) << "\":" << t.second;
			first = false;
		}
		f << "},\"counters\":[";
		for (int i = 0; i < 16; i++)
			f << (i ? "," : "") << R.counters[i];
		f << "],\"known_hits\":{";
		first = true;
		for (auto &t : R.known_hits) {
			f << (first ? "" : ",") << "\"" << json_escape(t.first) << "\":" << t.second;
			first = false;
		}
		f << "},\"samples\":[";
		first = true;
		for (auto &s : R.samples) {
			std::string tg;
			for (auto &t : s.second)
				tg += (tg.empty() ? "" : " ") + t;
			f << (first ? "" : ",") << "{\"case\":\"" << json_escape(s.first) << "\",\"tags\":\"" << json_escape(tg)
			  << "\"}";
			first = false;
		}
		f << "],\"violations\":" << vio_json << "}\n";
	}
	return rcx;
}

} // namespace pbt
