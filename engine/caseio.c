#include "caseio.h"
#include <ctype.h>
#include <stdarg.h>
#include <errno.h>
#include <stdio.h>
#include <stdlib.h>
#include <string.h>
#include <unistd.h>

static vreport vr_static;
vreport       *vr = &vr_static;
int            vr_abort_on_fail; // libFuzzer targets: abort() so the input is saved as a crash artifact

static int
hexv(int c)
{
	if (c >= '0' && c <= '9')
		return c - '0';
	if (c >= 'a' && c <= 'f')
		return c - 'a' + 10;
	if (c >= 'A' && c <= 'F')
		return c - 'A' + 10;
	return -1;
}

int
vcase_parse(const char *text, vcase *c)
{
	int cap = 16;
	c->ops  = calloc(cap, sizeof(vop));
	c->nops = 0;
	int         line = 0;
	const char *p    = text;
	while (*p) {
		const char *e = strchr(p, '\n');
		size_t      n = e ? (size_t) (e - p) : strlen(p);
		char       *l = malloc(n + 1);
		memcpy(l, p, n);
		l[n] = 0;
		p    = e ? e + 1 : p + n;
		line++;
		char *h = strchr(l, '#');
		if (h)
			*h = 0;
		char *save = NULL;
		char *tok  = strtok_r(l, " \t\r", &save);
		if (tok == NULL) {
			free(l);
			continue;
		}
		if (c->nops == cap) {
			cap *= 2;
			c->ops = realloc(c->ops, cap * sizeof(vop));
		}
		vop *o = &c->ops[c->nops];
		memset(o, 0, sizeof(*o));
		snprintf(o->name, sizeof(o->name), "%s", tok);
		o->line = line;
		while ((tok = strtok_r(NULL, " \t\r", &save)) != NULL) {
			if (tok[0] == 'x') {
				size_t hl = strlen(tok + 1);
				if (hl % 2 || o->nd >= VOP_MAXD) {
					free(l);
					return -1;
				}
				unsigned char *d = malloc(hl / 2 + 1);
				for (size_t i = 0; i < hl / 2; i++) {
					int a = hexv(tok[1 + 2 * i]), b = hexv(tok[2 + 2 * i]);
					if (a < 0 || b < 0) {
						free(d);
						free(l);
						return -1;
					}
					d[i] = (unsigned char) (a * 16 + b);
				}
				o->d[o->nd]  = d;
				o->dl[o->nd] = hl / 2;
				o->nd++;
			} else {
				char *end;
				errno       = 0;
				long long v = strtoll(tok, &end, 0);
				if (*end || errno == ERANGE || o->na >= VOP_MAXA) {
					// allow unsigned 64-bit
					unsigned long long u = strtoull(tok, &end, 0);
					if (*end || o->na >= VOP_MAXA) {
						free(l);
						return -1;
					}
					v = (long long) u;
				}
				o->a[o->na++] = v;
			}
		}
		c->nops++;
		free(l);
	}
	return 0;
}

void
vcase_free(vcase *c)
{
	for (int i = 0; i < c->nops; i++)
		for (int j = 0; j < c->ops[i].nd; j++)
			free(c->ops[i].d[j]);
	free(c->ops);
	c->ops  = NULL;
	c->nops = 0;
}

void
vr_tag(const char *tag)
{
	for (int i = 0; i < vr->ntags; i++)
		if (strcmp(vr->tags[i], tag) == 0)
			return;
	if (vr->ntags < VR_MAXTAGS) {
		snprintf(vr->tags[vr->ntags], sizeof(vr->tags[0]), "%s", tag);
		vr->ntags++;
	}
}

void
vr_tagf(const char *fmt, ...)
{
	char    b[40];
	va_list ap;
	va_start(ap, fmt);
	vsnprintf(b, sizeof(b), fmt, ap);
	va_end(ap);
	vr_tag(b);
}

void
vr_count(int idx, long n)
{
	if (idx >= 0 && idx < 16)
		vr->counters[idx] += n;
}

void
vr_at(int opidx, const char *name)
{
	vr->opidx = opidx;
	snprintf(vr->lastop, sizeof(vr->lastop), "%s", name);
}

void
vr_fail(const char *sig, const char *fmt, ...)
{
	va_list ap;
	vr->verdict = 1;
	snprintf(vr->sig, sizeof(vr->sig), "%s", sig);
	va_start(ap, fmt);
	vsnprintf(vr->msg, sizeof(vr->msg), fmt, ap);
	va_end(ap);
	fprintf(stderr, "VERIF-FAIL sig=%s at op %d (%s): %s\n", vr->sig, vr->opidx, vr->lastop, vr->msg);
	fflush(stderr);
	if (vr_abort_on_fail)
		abort();
	_exit(1);
}

char vr_known_sigs[VR_MAXKNOWN][160];
int  vr_nknown_sigs;

int
vr_is_known(const char *sig)
{
	for (int i = 0; i < vr_nknown_sigs; i++)
		if (strcmp(vr_known_sigs[i], sig) == 0)
			return 1;
	return 0;
}

void
vr_soft_fail(const char *sig, const char *fmt, ...)
{
	char    msg[1000];
	va_list ap;
	va_start(ap, fmt);
	vsnprintf(msg, sizeof(msg), fmt, ap);
	va_end(ap);
	if (!vr_is_known(sig))
		vr_fail(sig, "%s", msg);
	for (int i = 0; i < vr->nknown; i++)
		if (strcmp(vr->known_sig[i], sig) == 0) {
			vr->known_cnt[i]++;
			return;
		}
	if (vr->nknown < 8) {
		snprintf(vr->known_sig[vr->nknown], sizeof(vr->known_sig[0]), "%s", sig);
		vr->known_cnt[vr->nknown] = 1;
		vr->nknown++;
	}
}

void
vr_trace(const char *fmt, ...)
{
	static int on = -1;
	if (on < 0)
		on = getenv("VERIF_TRACE") != NULL;
	if (!on)
		return;
	va_list ap;
	va_start(ap, fmt);
	fprintf(stderr, "TRACE op%d(%s): ", vr->opidx, vr->lastop);
	vfprintf(stderr, fmt, ap);
	fprintf(stderr, "\n");
	va_end(ap);
}

// Sanitizer defaults compiled into every driver, so that direct runs behave like check.py runs:
// huge allocation requests (hostile length fields) must return NULL instead of aborting the process.
const char *
__asan_default_options(void)
{
	return "detect_leaks=0:allocator_may_return_null=1:detect_stack_use_after_return=0:abort_on_error=0:handle_abort=1";
}
const char *
__ubsan_default_options(void)
{
	return "print_stacktrace=1";
}
