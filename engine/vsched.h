// vsched (E1): deterministic scheduler + virtual clock for nng, installed at link time with
// GNU ld --wrap on the platform primitives (no source change in nng).
#ifndef VERIF_VSCHED_H
#define VERIF_VSCHED_H
#include <stdint.h>
#ifdef __cplusplus
extern "C" {
#endif

enum { VS_FIFO = 0, VS_RAND = 1, VS_PCT = 2, VS_DELAY = 3 };

typedef struct vs_cfg {
	uint64_t seed;
	int      mode;     // VS_FIFO run-to-block, VS_RAND pre-empt with probability pct/100, VS_PCT priorities
	int      pct;      // VS_RAND: pre-emption probability in percent; VS_DELAY: probability (per mille, per sync point) that the running thread is stalled
	int      depth;    // VS_PCT: number of priority change points
	long     horizon;  // VS_PCT: change points are drawn in [0, horizon) scheduling steps; VS_DELAY: a stall lasts 10 .. 10+horizon steps
	int      grace_ms; // real milliseconds to wait for kernel I/O before declaring "no I/O" (0 for AF_UNIX)
	long     max_steps;      // livelock bound on scheduling steps (0 = default)
	uint64_t max_virtual_ms; // livelock bound on virtual time (0 = default)
} vs_cfg;

void     vs_init(const vs_cfg *cfg); // the caller becomes controlled thread 0
void     vs_fini(void);              // back to pass-through (all other controlled threads must be done)
void     vs_settle(void);            // run everything else to quiescence at the current virtual time
void     vs_sleep(int ms);           // let virtual time pass for the caller
uint64_t vs_now(void);
int      vs_spawn(void (*fn)(void *), void *arg); // harness actor thread (controlled); returns handle
void     vs_join(int h);
void     vs_yield(void);
void     vs_stats(long *steps, long *switches, long *preempts);
int      vs_enabled(void);
void     vs_dump(const char *why); // thread table to stderr (debugging)
uint32_t vs_random(void); // the deterministic stream that also feeds nni_random

#ifdef __cplusplus
}
#endif
#endif
