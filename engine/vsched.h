#include <stdint.h>
void vs_init(uint64_t seed, int pct, int grace);
void vs_settle(void);
void vs_sleep(int ms);
uint64_t vs_now(void);
void vs_stats(long *steps, long *sw);
