// Prototype deterministic scheduler for nng via ld --wrap (feasibility probe).
#define _GNU_SOURCE
#include <errno.h>
#include <poll.h>
#include <pthread.h>
#include <stdbool.h>
#include <stdint.h>
#include <stdio.h>
#include <stdlib.h>
#include <string.h>
#include <sys/epoll.h>

#include "vsched.h"

typedef struct nni_plat_mtx {
	pthread_mutex_t mtx;
} nni_plat_mtx;
typedef struct nni_plat_cv {
	pthread_cond_t   cv;
	pthread_mutex_t *mtx;
} nni_plat_cv;
typedef struct nni_plat_thr {
	pthread_t tid;
	void (*func)(void *);
	void *arg;
} nni_plat_thr;

enum { ST_RUN, ST_MTX, ST_CV, ST_SLEEP, ST_IO, ST_JOIN, ST_IDLEWAIT, ST_DONE };

typedef struct vthread {
	int            id;
	int            st;
	pthread_cond_t cv;
	void          *obj;
	uint64_t       deadline; // 0 = none
	bool           timedout;
	int            epfd;
	nni_plat_thr  *pthr;
} vthread;

#define MAXT 128
static pthread_mutex_t G = PTHREAD_MUTEX_INITIALIZER;
static vthread         T[MAXT];
static int             nT;
static vthread        *cur;
static uint64_t        vnow = 1000000; // ms
static bool            enabled;
static uint64_t        rng = 88172645463325252ull;
static int             preempt_pct = 0;
static int             io_grace_ms = 0;
static long            nsteps, nswitch, clock_calls;
static __thread vthread *self;

static uint64_t
rnd(void)
{
	rng ^= rng << 13;
	rng ^= rng >> 7;
	rng ^= rng << 17;
	return rng;
}

static void
dump(const char *why)
{
	fprintf(stderr, "VSCHED %s at vnow=%llu\n", why, (unsigned long long) vnow);
	for (int i = 0; i < nT; i++) {
		fprintf(stderr, "  t%d st=%d obj=%p deadline=%llu\n", T[i].id, T[i].st,
		    T[i].obj, (unsigned long long) T[i].deadline);
	}
}

// Called with G held.  Picks the next thread and transfers control.  Returns
// (with G held) when this thread is scheduled again.
static void
schedule(void)
{
	for (;;) {
		vthread *cand[MAXT];
		int      n = 0;
		for (int i = 0; i < nT; i++) {
			if (T[i].st == ST_RUN) {
				cand[n++] = &T[i];
			}
		}
		if (n == 0) {
			// any I/O?
			struct pollfd pfd[MAXT];
			vthread      *iot[MAXT];
			int           np = 0;
			for (int i = 0; i < nT; i++) {
				if (T[i].st == ST_IO) {
					pfd[np].fd     = T[i].epfd;
					pfd[np].events = POLLIN;
					iot[np]        = &T[i];
					np++;
				}
			}
			if (np > 0 && poll(pfd, np, io_grace_ms) > 0) {
				for (int i = 0; i < np; i++) {
					if (pfd[i].revents) {
						iot[i]->st = ST_RUN;
					}
				}
				continue;
			}
			// idle waiters get priority over time advance
			bool woke = false;
			for (int i = 0; i < nT; i++) {
				if (T[i].st == ST_IDLEWAIT) {
					T[i].st = ST_RUN;
					woke    = true;
				}
			}
			if (woke) {
				continue;
			}
			uint64_t dl = 0;
			for (int i = 0; i < nT; i++) {
				if ((T[i].st == ST_CV || T[i].st == ST_SLEEP) &&
				    T[i].deadline != 0 &&
				    (dl == 0 || T[i].deadline < dl)) {
					dl = T[i].deadline;
				}
			}
			if (dl == 0) {
				dump("DEADLOCK");
				abort();
			}
			if (dl > vnow) {
				vnow = dl;
			}
			for (int i = 0; i < nT; i++) {
				if ((T[i].st == ST_CV || T[i].st == ST_SLEEP) &&
				    T[i].deadline != 0 && T[i].deadline <= vnow) {
					T[i].st       = ST_RUN;
					T[i].timedout = true;
				}
			}
			continue;
		}
		vthread *next;
		if (self->st == ST_RUN && (preempt_pct == 0 ||
		        (int) (rnd() % 100) >= preempt_pct)) {
			next = self;
		} else {
			next = cand[rnd() % n];
		}
		nsteps++;
		if (next != self) {
			nswitch++;
			cur = next;
			pthread_cond_signal(&next->cv);
			if (self->st == ST_DONE) {
				return;
			}
			while (cur != self) {
				pthread_cond_wait(&self->cv, &G);
			}
		}
		return;
	}
}

static void
wake_obj(int st, void *obj, bool one)
{
	for (int i = 0; i < nT; i++) {
		if (T[i].st == st && T[i].obj == obj) {
			T[i].st       = ST_RUN;
			T[i].timedout = false;
			if (one) {
				return;
			}
		}
	}
}

static void
yield_point(void)
{
	if (preempt_pct) {
		pthread_mutex_lock(&G);
		schedule();
		pthread_mutex_unlock(&G);
	}
}

extern void __real_nni_plat_mtx_lock(nni_plat_mtx *);
extern void __real_nni_plat_mtx_unlock(nni_plat_mtx *);
extern void __real_nni_plat_cv_wake(nni_plat_cv *);
extern void __real_nni_plat_cv_wake1(nni_plat_cv *);
extern void __real_nni_plat_cv_wait(nni_plat_cv *);
extern int  __real_nni_plat_cv_until(nni_plat_cv *, uint64_t);
extern int  __real_nni_plat_thr_init(nni_plat_thr *, void (*)(void *), void *);
extern void __real_nni_plat_thr_fini(nni_plat_thr *);
extern uint64_t __real_nni_clock(void);
extern void     __real_nni_msleep(int32_t);
extern int __real_epoll_wait(int, struct epoll_event *, int, int);

static void
vlock(pthread_mutex_t *m)
{
	yield_point();
	for (;;) {
		int rv = pthread_mutex_trylock(m);
		if (rv == 0) {
			return;
		}
		pthread_mutex_lock(&G);
		self->st  = ST_MTX;
		self->obj = m;
		schedule();
		pthread_mutex_unlock(&G);
	}
}

static void
vunlock(pthread_mutex_t *m)
{
	pthread_mutex_unlock(m);
	pthread_mutex_lock(&G);
	wake_obj(ST_MTX, m, false);
	pthread_mutex_unlock(&G);
}

void
__wrap_nni_plat_mtx_lock(nni_plat_mtx *m)
{
	if (!enabled || self == NULL) {
		__real_nni_plat_mtx_lock(m);
		return;
	}
	vlock(&m->mtx);
}

void
__wrap_nni_plat_mtx_unlock(nni_plat_mtx *m)
{
	if (!enabled || self == NULL) {
		__real_nni_plat_mtx_unlock(m);
		return;
	}
	vunlock(&m->mtx);
}

static int
vcvwait(nni_plat_cv *cv, uint64_t deadline)
{
	bool to;
	pthread_mutex_lock(&G);
	if (deadline != 0 && deadline <= vnow) {
		// immediate timeout: model the passage of (spin) time
		vnow++;
		pthread_mutex_unlock(&G);
		return (5); // NNG_ETIMEDOUT
	}
	self->st       = ST_CV;
	self->obj      = cv;
	self->deadline = deadline;
	self->timedout = false;
	pthread_mutex_unlock(cv->mtx);
	wake_obj(ST_MTX, cv->mtx, false);
	schedule();
	to             = self->timedout;
	self->deadline = 0;
	pthread_mutex_unlock(&G);
	vlock(cv->mtx);
	return (to ? 5 : 0);
}

void
__wrap_nni_plat_cv_wait(nni_plat_cv *cv)
{
	if (!enabled || self == NULL) {
		__real_nni_plat_cv_wait(cv);
		return;
	}
	(void) vcvwait(cv, 0);
}

int
__wrap_nni_plat_cv_until(nni_plat_cv *cv, uint64_t until)
{
	if (!enabled || self == NULL) {
		return (__real_nni_plat_cv_until(cv, until));
	}
	return (vcvwait(cv, until));
}

void
__wrap_nni_plat_cv_wake(nni_plat_cv *cv)
{
	if (!enabled || self == NULL) {
		__real_nni_plat_cv_wake(cv);
		return;
	}
	pthread_mutex_lock(&G);
	wake_obj(ST_CV, cv, false);
	pthread_mutex_unlock(&G);
}

void
__wrap_nni_plat_cv_wake1(nni_plat_cv *cv)
{
	if (!enabled || self == NULL) {
		__real_nni_plat_cv_wake1(cv);
		return;
	}
	pthread_mutex_lock(&G);
	wake_obj(ST_CV, cv, true);
	pthread_mutex_unlock(&G);
}

uint64_t
__wrap_nni_clock(void)
{
	if (!enabled) {
		return (__real_nni_clock());
	}
	pthread_mutex_lock(&G);
	if (++clock_calls % 20 == 0) {
		vnow++; // model passage of time while spinning on the clock
	}
	uint64_t v = vnow;
	pthread_mutex_unlock(&G);
	return (v);
}

void
__wrap_nni_msleep(int32_t ms)
{
	if (!enabled || self == NULL) {
		__real_nni_msleep(ms);
		return;
	}
	pthread_mutex_lock(&G);
	self->st       = ST_SLEEP;
	self->deadline = vnow + (ms > 0 ? ms : 1);
	schedule();
	self->deadline = 0;
	pthread_mutex_unlock(&G);
}

static void *
tramp(void *arg)
{
	vthread *t = arg;
	self       = t;
	pthread_mutex_lock(&G);
	while (cur != self) {
		pthread_cond_wait(&self->cv, &G);
	}
	pthread_mutex_unlock(&G);
	t->pthr->func(t->pthr->arg);
	pthread_mutex_lock(&G);
	self->st = ST_DONE;
	wake_obj(ST_JOIN, self, false);
	schedule();
	pthread_mutex_unlock(&G);
	return (NULL);
}

int
__wrap_nni_plat_thr_init(nni_plat_thr *thr, void (*fn)(void *), void *arg)
{
	if (!enabled || self == NULL) {
		return (__real_nni_plat_thr_init(thr, fn, arg));
	}
	pthread_mutex_lock(&G);
	vthread *t = NULL;
	for (int i = 1; i < nT; i++) {
		if (T[i].st == ST_DONE && T[i].pthr == NULL) {
			t = &T[i];
			break;
		}
	}
	if (t == NULL) {
		t = &T[nT];
		memset(t, 0, sizeof(*t));
		t->id = nT++;
		pthread_cond_init(&t->cv, NULL);
	}
	t->st     = ST_RUN;
	t->obj    = NULL;
	t->deadline = 0;
	t->pthr   = thr;
	thr->func = fn;
	thr->arg  = arg;
	pthread_mutex_unlock(&G);
	if (pthread_create(&thr->tid, NULL, tramp, t) != 0) {
		abort();
	}
	return (0);
}

void
__wrap_nni_plat_thr_fini(nni_plat_thr *thr)
{
	if (!enabled || self == NULL) {
		__real_nni_plat_thr_fini(thr);
		return;
	}
	vthread *t = NULL;
	pthread_mutex_lock(&G);
	for (int i = 0; i < nT; i++) {
		if (T[i].pthr == thr && T[i].st != ST_DONE + 1) {
			t = &T[i];
		}
	}
	while (t->st != ST_DONE) {
		self->st  = ST_JOIN;
		self->obj = t;
		schedule();
	}
	t->pthr = NULL;
	pthread_mutex_unlock(&G);
	pthread_join(thr->tid, NULL);
}

int
__wrap_epoll_wait(int epfd, struct epoll_event *ev, int max, int tmo)
{
	if (!enabled || self == NULL) {
		return (__real_epoll_wait(epfd, ev, max, tmo));
	}
	for (;;) {
		int n = __real_epoll_wait(epfd, ev, max, 0);
		if (n != 0) {
			return (n);
		}
		pthread_mutex_lock(&G);
		self->st   = ST_IO;
		self->epfd = epfd;
		schedule();
		pthread_mutex_unlock(&G);
	}
}

void
vs_init(uint64_t seed, int pct, int grace)
{
	nT = 0;
	memset(T, 0, sizeof(T));
	vthread *t = &T[nT];
	t->id      = nT++;
	t->st      = ST_RUN;
	pthread_cond_init(&t->cv, NULL);
	self        = t;
	cur         = t;
	rng         = seed ? seed : 1;
	preempt_pct = pct;
	io_grace_ms = grace;
	enabled     = true;
}

void
vs_settle(void)
{
	pthread_mutex_lock(&G);
	self->st = ST_IDLEWAIT;
	schedule();
	pthread_mutex_unlock(&G);
}

void
vs_sleep(int ms)
{
	__wrap_nni_msleep(ms);
}

uint64_t
vs_now(void)
{
	return (vnow);
}

void
vs_stats(long *steps, long *sw)
{
	*steps = nsteps;
	*sw    = nswitch;
}
