// vsched (E1): deterministic scheduler + virtual clock for nng via ld --wrap.
//
// Every nng thread (created through nni_plat_thr_init), every harness actor (vs_spawn) and the
// thread that called vs_init are "controlled": exactly one of them runs at any time, and control
// changes hands only at sync points (mutex lock/unlock, cv wait/wake, thread start/exit/join,
// sleep, epoll_wait).  nni_clock() is a virtual clock that advances only when nothing can run, or
// by a small creep while code spins on it.  All choices are a pure function of vs_cfg.seed.
#ifndef _GNU_SOURCE
#define _GNU_SOURCE
#endif
#include "core/nng_impl.h"

#include <errno.h>
#include <poll.h>
#include <signal.h>
#include <pthread.h>
#include <stdbool.h>
#include <stdint.h>
#include <stdio.h>
#include <stdlib.h>
#include <string.h>
#include <sys/epoll.h>

#include "vsched.h"

enum { ST_RUN, ST_MTX, ST_CV, ST_SLEEP, ST_IO, ST_JOIN, ST_SETTLE, ST_DONE, ST_FREE };
static const char *st_names[] = { "RUN", "MTX", "CV", "SLEEP", "IO", "JOIN", "SETTLE", "DONE", "FREE" };

typedef struct vthread {
	int            id;
	int            st;
	pthread_cond_t cv;
	void          *obj;
	uint64_t       deadline; // 0 = none
	bool           timedout;
	int            epfd;
	nni_plat_thr  *pthr;    // nng thread (NULL for harness threads)
	nni_plat_thr   own;     // storage for harness actor threads
	bool           harness;
	uint64_t       prio;
	bool           joined;
	long           stall_until; // VS_DELAY: not scheduled before this step while another thread can run
} vthread;

#define MAXT 256
static pthread_mutex_t   G = PTHREAD_MUTEX_INITIALIZER;
static vthread           T[MAXT];
static int               nT;
static vthread          *cur;
static uint64_t          vnow = 1000000; // virtual milliseconds
static volatile bool     enabled;
static uint64_t          rng = 88172645463325252ull;
static vs_cfg            C;
static long              nsteps, nswitch, npreempt, clock_calls, ndelays;
static long              cpoints[16];
static int               ncp;
static uint64_t          vstart;
static long              streak; // consecutive sync points of the running thread without a switch
static long              nforced;
static __thread vthread *self;

// Fairness: nng contains polling loops that rely on a fair OS scheduler (e.g. listener_reap
// re-queues itself until other threads have closed the listener's pipes).  A thread that passes
// SPIN_LIMIT sync points without blocking while others are runnable is forced to yield (and, under
// PCT, drops to the lowest priority), as a real scheduler would eventually pre-empt it.
#define SPIN_LIMIT 3000

static uint64_t
rnd(void)
{
	rng ^= rng << 13;
	rng ^= rng >> 7;
	rng ^= rng << 17;
	return (rng);
}

uint32_t
vs_random(void)
{
	return ((uint32_t) (rnd() >> 16));
}

static void
dump(const char *why)
{
	fprintf(stderr, "VSCHED %s at vnow=%llu (+%llu ms) steps=%ld\n", why, (unsigned long long) vnow,
	    (unsigned long long) (vnow - vstart), nsteps);
	for (int i = 0; i < nT; i++) {
		if (T[i].st == ST_FREE) {
			continue;
		}
		fprintf(stderr, "  t%d%s st=%s obj=%p deadline=%llu\n", T[i].id, T[i].harness ? "(harness)" : "",
		    st_names[T[i].st], T[i].obj, (unsigned long long) T[i].deadline);
	}
	fflush(stderr);
}

static void
die(const char *why)
{
	dump(why);
	abort();
}

// Called with G held.  Picks the next thread and transfers control.  Returns
// (with G held) when this thread is scheduled again.  preempt=true means the
// caller is still runnable and merely offers to yield.
static void
schedule(bool preempt)
{
	for (;;) {
		vthread *cand[MAXT];
		int      n = 0;
		for (int i = 0; i < nT; i++) {
			if (T[i].st == ST_RUN) {
				cand[n++] = &T[i];
			}
		}
		if (n == 0) {
			// Nothing runnable: look for kernel I/O first.
			struct pollfd pfd[MAXT];
			vthread      *iot[MAXT];
			int           np = 0;
			for (int i = 0; i < nT; i++) {
				if (T[i].st == ST_IO) {
					pfd[np].fd      = T[i].epfd;
					pfd[np].events  = POLLIN;
					pfd[np].revents = 0;
					iot[np]         = &T[i];
					np++;
				}
			}
			if (np > 0) {
				int pr;
				do {
					pr = poll(pfd, np, C.grace_ms);
				} while (pr < 0 && errno == EINTR);
				if (pr > 0) {
					for (int i = 0; i < np; i++) {
						if (pfd[i].revents) {
							iot[i]->st = ST_RUN;
						}
					}
					continue;
				}
			}
			// Quiescent at this instant: settle() callers go before time moves.
			bool woke = false;
			for (int i = 0; i < nT; i++) {
				if (T[i].st == ST_SETTLE) {
					T[i].st = ST_RUN;
					woke    = true;
				}
			}
			if (woke) {
				continue;
			}
			uint64_t dl = 0;
			for (int i = 0; i < nT; i++) {
				if ((T[i].st == ST_CV || T[i].st == ST_SLEEP) && T[i].deadline != 0 &&
				    (dl == 0 || T[i].deadline < dl)) {
					dl = T[i].deadline;
				}
			}
			if (dl == 0) {
				die("DEADLOCK");
			}
			if (dl > vnow) {
				vnow = dl;
			}
			if (vnow - vstart > C.max_virtual_ms) {
				die("LIVELOCK (virtual time budget exceeded)");
			}
			for (int i = 0; i < nT; i++) {
				if ((T[i].st == ST_CV || T[i].st == ST_SLEEP) && T[i].deadline != 0 &&
				    T[i].deadline <= vnow) {
					T[i].st       = ST_RUN;
					T[i].timedout = true;
				}
			}
			continue;
		}
		if (++nsteps > C.max_steps) {
			die("LIVELOCK (step budget exceeded)");
		}
		vthread *next = NULL;
		if (self->st == ST_RUN && streak > SPIN_LIMIT && n > 1) {
			// forced yield (fairness)
			nforced++;
			streak = 0;
			if (C.mode == VS_PCT) {
				self->prio = 0;
			} else {
				do {
					next = cand[rnd() % n];
				} while (next == self);
			}
		}
		if (next == NULL)
		switch (C.mode) {
		case VS_FIFO:
			next = (self->st == ST_RUN) ? self : cand[rnd() % n];
			break;
		case VS_RAND:
			if (self->st == ST_RUN && (int) (rnd() % 100) >= C.pct) {
				next = self;
			} else {
				next = cand[rnd() % n];
			}
			break;
		case VS_DELAY: {
			// Delay injection: a running thread is now and then stalled for a long stretch (as if the OS had taken its
			// CPU away) while everything else carries on; otherwise threads run until they block.  Several threads can
			// be stalled at once, which reaches orderings that need two or three "slow" threads at the same time.
			if (self->st == ST_RUN && preempt && (int) (rnd() % 1000) < C.pct) {
				self->stall_until = nsteps + 10 + (long) (rnd() % (uint64_t) (C.horizon > 0 ? C.horizon : 300));
				ndelays++;
			}
			vthread *free_[MAXT];
			int      nf = 0;
			for (int i = 0; i < n; i++) {
				if (cand[i]->stall_until <= nsteps) {
					free_[nf++] = cand[i];
				}
			}
			if (nf == 0) {
				// everyone runnable is stalled: release the one whose stall ends first
				next = cand[0];
				for (int i = 1; i < n; i++) {
					if (cand[i]->stall_until < next->stall_until) {
						next = cand[i];
					}
				}
				next->stall_until = 0;
			} else if (self->st == ST_RUN && self->stall_until <= nsteps) {
				next = self;
			} else {
				next = free_[rnd() % (uint64_t) nf];
			}
			break;
		}
		case VS_PCT:
			for (int i = 0; i < ncp; i++) {
				if (cpoints[i] == nsteps && self->st == ST_RUN) {
					self->prio = (uint64_t) (ncp - i); // below every initial priority
				}
			}
			for (int i = 0; i < n; i++) {
				if (next == NULL || cand[i]->prio > next->prio) {
					next = cand[i];
				}
			}
			break;
		}
		if (next != self) {
			nswitch++;
			streak = 0;
			if (preempt) {
				npreempt++;
			}
			cur = next;
			pthread_cond_signal(&next->cv);
			if (self->st == ST_DONE) {
				return;
			}
			while (cur != self) {
				pthread_cond_wait(&self->cv, &G);
			}
		}
		return;
	}
}

static void
wake_obj(int st, void *obj, bool one)
{
	// deterministic order; for wake1 pick the lowest-numbered waiter
	for (int i = 0; i < nT; i++) {
		if (T[i].st == st && T[i].obj == obj) {
			T[i].st       = ST_RUN;
			T[i].timedout = false;
			if (one) {
				return;
			}
		}
	}
}

static void
yield_point(void)
{
	if (C.mode != VS_FIFO || ++streak > SPIN_LIMIT) {
		pthread_mutex_lock(&G);
		if (C.mode != VS_FIFO) {
			streak++;
		}
		schedule(true);
		pthread_mutex_unlock(&G);
	}
}

extern void     __real_nni_plat_mtx_lock(nni_plat_mtx *);
extern void     __real_nni_plat_mtx_unlock(nni_plat_mtx *);
extern void     __real_nni_plat_cv_wake(nni_plat_cv *);
extern void     __real_nni_plat_cv_wake1(nni_plat_cv *);
extern void     __real_nni_plat_cv_wait(nni_plat_cv *);
extern int      __real_nni_plat_cv_until(nni_plat_cv *, uint64_t);
extern int      __real_nni_plat_thr_init(nni_plat_thr *, void (*)(void *), void *);
extern void     __real_nni_plat_thr_fini(nni_plat_thr *);
extern uint64_t __real_nni_clock(void);
extern void     __real_nni_msleep(int32_t);
extern int      __real_epoll_wait(int, struct epoll_event *, int, int);
extern uint32_t __real_nni_random(void);

#define PASSTHRU (!enabled || self == NULL)

static void
vlock(pthread_mutex_t *m)
{
	yield_point();
	for (;;) {
		int rv = pthread_mutex_trylock(m);
		if (rv == 0) {
			return;
		}
		if (rv != EBUSY) {
			fprintf(stderr, "VSCHED mutex error %d\n", rv);
			abort();
		}
		pthread_mutex_lock(&G);
		self->st  = ST_MTX;
		self->obj = m;
		schedule(false);
		pthread_mutex_unlock(&G);
	}
}

static void
vunlock(pthread_mutex_t *m)
{
	int rv = pthread_mutex_unlock(m);
	if (rv != 0) {
		fprintf(stderr, "VSCHED mutex unlock error %d\n", rv);
		abort();
	}
	pthread_mutex_lock(&G);
	wake_obj(ST_MTX, m, false);
	if (C.mode != VS_FIFO) {
		schedule(true);
	}
	pthread_mutex_unlock(&G);
}

void
__wrap_nni_plat_mtx_lock(nni_plat_mtx *m)
{
	if (PASSTHRU) {
		__real_nni_plat_mtx_lock(m);
		return;
	}
	vlock(&m->mtx);
}

void
__wrap_nni_plat_mtx_unlock(nni_plat_mtx *m)
{
	if (PASSTHRU) {
		__real_nni_plat_mtx_unlock(m);
		return;
	}
	vunlock(&m->mtx);
}

static int
vcvwait(nni_plat_cv *cv, uint64_t deadline)
{
	bool to;
	pthread_mutex_lock(&G);
	if (deadline != 0 && deadline <= vnow) {
		// immediate timeout: model the passage of (spin) time
		vnow++;
		pthread_mutex_unlock(&G);
		return (NNG_ETIMEDOUT);
	}
	self->st       = ST_CV;
	self->obj      = cv;
	self->deadline = deadline;
	self->timedout = false;
	pthread_mutex_unlock(cv->mtx);
	wake_obj(ST_MTX, cv->mtx, false);
	schedule(false);
	to             = self->timedout;
	self->deadline = 0;
	pthread_mutex_unlock(&G);
	vlock(cv->mtx);
	return (to ? NNG_ETIMEDOUT : 0);
}

void
__wrap_nni_plat_cv_wait(nni_plat_cv *cv)
{
	if (PASSTHRU) {
		__real_nni_plat_cv_wait(cv);
		return;
	}
	(void) vcvwait(cv, 0);
}

int
__wrap_nni_plat_cv_until(nni_plat_cv *cv, uint64_t until)
{
	if (PASSTHRU) {
		return (__real_nni_plat_cv_until(cv, until));
	}
	if (until == 0) {
		until = 1;
	}
	return (vcvwait(cv, until));
}

void
__wrap_nni_plat_cv_wake(nni_plat_cv *cv)
{
	if (PASSTHRU) {
		__real_nni_plat_cv_wake(cv);
		return;
	}
	pthread_mutex_lock(&G);
	wake_obj(ST_CV, cv, false);
	pthread_mutex_unlock(&G);
}

void
__wrap_nni_plat_cv_wake1(nni_plat_cv *cv)
{
	if (PASSTHRU) {
		__real_nni_plat_cv_wake1(cv);
		return;
	}
	pthread_mutex_lock(&G);
	wake_obj(ST_CV, cv, true);
	pthread_mutex_unlock(&G);
}

uint64_t
__wrap_nni_clock(void)
{
	if (!enabled) {
		return (__real_nni_clock());
	}
	pthread_mutex_lock(&G);
	if (++clock_calls % 20 == 0) {
		vnow++; // model passage of time while spinning on the clock
	}
	uint64_t v = vnow;
	pthread_mutex_unlock(&G);
	return (v);
}

uint32_t
__wrap_nni_random(void)
{
	if (!enabled) {
		return (__real_nni_random());
	}
	pthread_mutex_lock(&G);
	uint32_t v = vs_random();
	pthread_mutex_unlock(&G);
	return (v);
}

void
__wrap_nni_msleep(int32_t ms)
{
	if (PASSTHRU) {
		__real_nni_msleep(ms);
		return;
	}
	pthread_mutex_lock(&G);
	self->st       = ST_SLEEP;
	self->deadline = vnow + (ms > 0 ? (uint64_t) ms : 1);
	schedule(false);
	self->deadline = 0;
	pthread_mutex_unlock(&G);
}

static void *
tramp(void *arg)
{
	vthread *t = arg;
	self       = t;
	{
		// nng's own thread entry (nni_plat_thr_main, bypassed by the wrap) blocks SIGPIPE; do the same
		sigset_t set;
		sigemptyset(&set);
		sigaddset(&set, SIGPIPE);
		pthread_sigmask(SIG_BLOCK, &set, NULL);
	}
	pthread_mutex_lock(&G);
	while (cur != self) {
		pthread_cond_wait(&self->cv, &G);
	}
	pthread_mutex_unlock(&G);
	t->pthr->func(t->pthr->arg);
	pthread_mutex_lock(&G);
	self->st = ST_DONE;
	wake_obj(ST_JOIN, self, false);
	schedule(false);
	pthread_mutex_unlock(&G);
	return (NULL);
}

static vthread *
new_vthread(void) // G held
{
	vthread *t = NULL;
	for (int i = 1; i < nT; i++) {
		if (T[i].st == ST_FREE) {
			t = &T[i];
			break;
		}
	}
	if (t == NULL) {
		if (nT >= MAXT) {
			die("too many threads");
		}
		t = &T[nT];
		memset(t, 0, sizeof(*t));
		t->id = nT++;
		pthread_cond_init(&t->cv, NULL);
	}
	t->st          = ST_RUN;
	t->stall_until = 0;
	t->obj      = NULL;
	t->deadline = 0;
	t->harness  = false;
	t->joined   = false;
	t->prio     = (rnd() | (1ull << 40)); // always above the change-point priorities
	return (t);
}

int
__wrap_nni_plat_thr_init(nni_plat_thr *thr, void (*fn)(void *), void *arg)
{
	if (PASSTHRU) {
		return (__real_nni_plat_thr_init(thr, fn, arg));
	}
	pthread_mutex_lock(&G);
	vthread *t = new_vthread();
	t->pthr    = thr;
	thr->func  = fn;
	thr->arg   = arg;
	pthread_mutex_unlock(&G);
	if (pthread_create(&thr->tid, NULL, tramp, t) != 0) {
		abort();
	}
	return (0);
}

static void
vjoin(vthread *t)
{
	pthread_mutex_lock(&G);
	while (t->st != ST_DONE) {
		self->st  = ST_JOIN;
		self->obj = t;
		schedule(false);
	}
	pthread_t tid = t->pthr->tid;
	t->pthr       = NULL;
	t->st         = ST_FREE;
	pthread_mutex_unlock(&G);
	pthread_join(tid, NULL);
}

void
__wrap_nni_plat_thr_fini(nni_plat_thr *thr)
{
	if (PASSTHRU) {
		__real_nni_plat_thr_fini(thr);
		return;
	}
	vthread *t = NULL;
	pthread_mutex_lock(&G);
	for (int i = 0; i < nT; i++) {
		if (T[i].pthr == thr && T[i].st != ST_FREE) {
			t = &T[i];
		}
	}
	pthread_mutex_unlock(&G);
	if (t == NULL) {
		// created before the scheduler was enabled
		__real_nni_plat_thr_fini(thr);
		return;
	}
	vjoin(t);
}

int
__wrap_epoll_wait(int epfd, struct epoll_event *ev, int max, int tmo)
{
	if (PASSTHRU) {
		return (__real_epoll_wait(epfd, ev, max, tmo));
	}
	for (;;) {
		int n = __real_epoll_wait(epfd, ev, max, 0);
		if (n != 0) {
			return (n);
		}
		pthread_mutex_lock(&G);
		self->st   = ST_IO;
		self->epfd = epfd;
		schedule(false);
		pthread_mutex_unlock(&G);
	}
}

void
vs_init(const vs_cfg *cfg)
{
	C = *cfg;
	// Application threads calling into socket:// (plain writev on a user supplied descriptor) would get
	// SIGPIPE when the peer has gone; applications using that transport ignore it, and so does the harness.
	signal(SIGPIPE, SIG_IGN);
	if (C.max_steps <= 0) {
		C.max_steps = 20000000;
	}
	if (C.max_virtual_ms == 0) {
		C.max_virtual_ms = 3600 * 1000;
	}
	for (int i = 0; i < nT; i++) {
		pthread_cond_destroy(&T[i].cv);
	}
	nT = 0;
	memset(T, 0, sizeof(T));
	vthread *t = &T[nT];
	t->id      = nT++;
	t->st      = ST_RUN;
	t->harness = true;
	pthread_cond_init(&t->cv, NULL);
	self    = t;
	cur     = t;
	rng     = cfg->seed * 0x9E3779B97F4A7C15ull + 0x1234567;
	if (rng == 0) {
		rng = 1;
	}
	for (int i = 0; i < 4; i++) {
		(void) rnd();
	}
	t->prio     = (rnd() | (1ull << 40));
	nsteps      = 0;
	streak      = 0;
	nforced     = 0;
	nswitch     = 0;
	npreempt    = 0;
	clock_calls = 0;
	vnow        = 1000000;
	vstart      = vnow;
	ncp         = 0;
	if (C.mode == VS_PCT) {
		if (C.depth > 16) {
			C.depth = 16;
		}
		if (C.horizon <= 0) {
			C.horizon = 2000;
		}
		for (int i = 0; i < C.depth; i++) {
			cpoints[ncp++] = (long) (rnd() % (uint64_t) C.horizon) + 1;
		}
	}
	enabled = true;
}

void
vs_fini(void)
{
	enabled = false;
	self    = NULL;
}

int
vs_enabled(void)
{
	return (enabled);
}

void
vs_settle(void)
{
	if (PASSTHRU) {
		return;
	}
	pthread_mutex_lock(&G);
	self->st = ST_SETTLE;
	schedule(false);
	pthread_mutex_unlock(&G);
}

void
vs_yield(void)
{
	if (PASSTHRU) {
		return;
	}
	pthread_mutex_lock(&G);
	schedule(true);
	pthread_mutex_unlock(&G);
}

void
vs_sleep(int ms)
{
	__wrap_nni_msleep(ms);
}

uint64_t
vs_now(void)
{
	return (vnow);
}

int
vs_spawn(void (*fn)(void *), void *arg)
{
	pthread_mutex_lock(&G);
	vthread *t    = new_vthread();
	t->harness    = true;
	t->pthr       = &t->own;
	t->own.func   = fn;
	t->own.arg    = arg;
	int id        = t->id;
	pthread_mutex_unlock(&G);
	if (pthread_create(&t->own.tid, NULL, tramp, t) != 0) {
		abort();
	}
	return (id);
}

void
vs_join(int h)
{
	vjoin(&T[h]);
}

void
vs_dump(const char *why)
{
	pthread_mutex_lock(&G);
	dump(why);
	pthread_mutex_unlock(&G);
}

void
vs_stats(long *steps, long *sw, long *pre)
{
	*steps = nsteps;
	*sw    = nswitch;
	*pre   = npreempt;
}
