#include "nngh.h"
#include <pthread.h>
#include <stdio.h>
#include <stdlib.h>
#include <string.h>
#include <arpa/inet.h>

// ---------------------------------------------------------------- atrack
#include <execinfo.h>
typedef struct {
	void  *p;
	size_t sz;
	long   serial;
	void  *bt[6];
} at_ent;
static int at_bt = -1;

static pthread_mutex_t at_mtx = PTHREAD_MUTEX_INITIALIZER;
static at_ent         *at_tab;
static size_t          at_cap, at_cnt;
static long            at_serial, at_bytes, at_fail_k, at_failed;

static size_t
at_hash(void *p)
{
	uintptr_t x = (uintptr_t) p;
	x ^= x >> 33;
	x *= 0xff51afd7ed558ccdull;
	x ^= x >> 33;
	return (size_t) x;
}

static void at_insert(void *p, size_t sz, long serial);

static void
at_grow(void)
{
	at_ent *old  = at_tab;
	size_t  ocap = at_cap;
	at_cap       = at_cap ? at_cap * 2 : 4096;
	at_tab       = calloc(at_cap, sizeof(at_ent));
	at_cnt       = 0;
	for (size_t i = 0; i < ocap; i++)
		if (old[i].p != NULL && old[i].p != (void *) 1)
			at_insert(old[i].p, old[i].sz, old[i].serial);
	free(old);
}

static void
at_insert(void *p, size_t sz, long serial)
{
	if ((at_cnt + 1) * 2 > at_cap)
		at_grow();
	size_t i = at_hash(p) & (at_cap - 1);
	while (at_tab[i].p != NULL && at_tab[i].p != (void *) 1)
		i = (i + 1) & (at_cap - 1);
	at_tab[i].p      = p;
	at_tab[i].sz     = sz;
	at_tab[i].serial = serial;
	if (at_bt < 0)
		at_bt = getenv("VERIF_AT_BT") != NULL;
	if (at_bt) {
		void *f[9] = {0};
		backtrace(f, 9);
		memcpy(at_tab[i].bt, f + 3, sizeof(at_tab[i].bt));
	}
	at_cnt++;
}

static at_ent *
at_find(void *p)
{
	if (at_cap == 0)
		return NULL;
	size_t i = at_hash(p) & (at_cap - 1);
	while (at_tab[i].p != NULL) {
		if (at_tab[i].p == p)
			return &at_tab[i];
		i = (i + 1) & (at_cap - 1);
	}
	return NULL;
}

static void
at_die(const char *what, void *p, size_t a, size_t b)
{
	fprintf(stderr, "ATRACK %s ptr=%p size=%zu recorded=%zu\n", what, p, a, b);
	fflush(stderr);
	abort();
}

static int
at_should_fail(void)
{
	at_serial++;
	if (at_fail_k > 0 && --at_fail_k == 0) {
		at_failed = at_serial;
		if (getenv("VERIF_AT_FAILBT") != NULL) {
			void *bt[12];
			int   n = backtrace(bt, 12);
			fprintf(stderr, "injected allocation failure (serial %ld) at:\n", at_serial);
			backtrace_symbols_fd(bt, n, 2);
		}
		return 1;
	}
	return 0;
}

static void *
at_malloc(size_t sz)
{
	pthread_mutex_lock(&at_mtx);
	if (at_should_fail()) {
		pthread_mutex_unlock(&at_mtx);
		return NULL;
	}
	void *p = malloc(sz);
	if (p != NULL) {
		memset(p, 0xCD, sz); // uninitialised contents are never zero by luck
		at_insert(p, sz, at_serial);
		at_bytes += (long) sz;
	}
	pthread_mutex_unlock(&at_mtx);
	return p;
}

static void *
at_calloc(size_t n, size_t sz)
{
	pthread_mutex_lock(&at_mtx);
	if (at_should_fail()) {
		pthread_mutex_unlock(&at_mtx);
		return NULL;
	}
	void *p = calloc(n, sz);
	if (p != NULL) {
		at_insert(p, n * sz, at_serial);
		at_bytes += (long) (n * sz);
	}
	pthread_mutex_unlock(&at_mtx);
	return p;
}

static void
at_free(void *p, size_t sz)
{
	if (p == NULL)
		return;
	pthread_mutex_lock(&at_mtx);
	at_ent *e = at_find(p);
	if (e == NULL)
		at_die("free-of-unallocated-or-double-free", p, sz, 0);
	if (e->sz != sz)
		at_die("free-size-mismatch", p, sz, e->sz);
	at_bytes -= (long) e->sz;
	e->p = (void *) 1; // tombstone
	pthread_mutex_unlock(&at_mtx);
	free(p);
}

void
at_reset(void)
{
	pthread_mutex_lock(&at_mtx);
	free(at_tab);
	at_tab    = NULL;
	at_cap    = 0;
	at_cnt    = 0;
	at_serial = 0;
	at_bytes  = 0;
	at_fail_k = 0;
	at_failed = 0;
	pthread_mutex_unlock(&at_mtx);
}

void
at_install(nng_init_params *p)
{
	p->malloc_fn = at_malloc;
	p->calloc_fn = at_calloc;
	p->free_fn   = at_free;
}

long
at_live_blocks(void)
{
	long n = 0;
	pthread_mutex_lock(&at_mtx);
	for (size_t i = 0; i < at_cap; i++)
		if (at_tab[i].p != NULL && at_tab[i].p != (void *) 1)
			n++;
	pthread_mutex_unlock(&at_mtx);
	return n;
}

long
at_live_bytes(void)
{
	return at_bytes;
}

long
at_total_allocs(void)
{
	return at_serial;
}

void
at_fail_at(long k)
{
	pthread_mutex_lock(&at_mtx);
	at_fail_k = k;
	at_failed = 0;
	pthread_mutex_unlock(&at_mtx);
}

long
at_failed_serial(void)
{
	return at_failed;
}

int
at_is_live(void *p)
{
	pthread_mutex_lock(&at_mtx);
	at_ent *e = at_find(p);
	pthread_mutex_unlock(&at_mtx);
	return e != NULL;
}

size_t
at_size_of(void *p)
{
	pthread_mutex_lock(&at_mtx);
	at_ent *e  = at_find(p);
	size_t  sz = e ? e->sz : 0;
	pthread_mutex_unlock(&at_mtx);
	return sz;
}

void
at_report_leaks(int max)
{
	pthread_mutex_lock(&at_mtx);
	for (size_t i = 0; i < at_cap && max > 0; i++)
		if (at_tab[i].p != NULL && at_tab[i].p != (void *) 1) {
			fprintf(stderr, "  leaked block %p size=%zu alloc-serial=%ld\n", at_tab[i].p, at_tab[i].sz, at_tab[i].serial);
			if (at_bt)
				backtrace_symbols_fd(at_tab[i].bt, 6, 2);
			max--;
		}
	pthread_mutex_unlock(&at_mtx);
}

// ---------------------------------------------------------------- session
void
h_cfg_from_op(h_cfg *c, const vop *o)
{
	memset(c, 0, sizeof(*c));
	c->seed         = (uint64_t) vop_arg(o, 0, 1);
	c->mode         = (int) vop_arg(o, 1, 0);
	c->pct          = (int) vop_arg(o, 2, 0);
	c->depth        = (int) vop_arg(o, 3, 0);
	c->horizon      = (long) vop_arg(o, 4, 2000);
	c->grace_ms     = (int) vop_arg(o, 5, 0);
	c->task_threads = 2;
}

int
h_begin(const h_cfg *c)
{
	vs_cfg v;
	memset(&v, 0, sizeof(v));
	v.seed           = c->seed;
	v.mode           = c->mode;
	v.pct            = c->pct;
	v.depth          = c->depth;
	v.horizon        = c->horizon;
	v.grace_ms       = c->grace_ms;
	v.max_virtual_ms = c->max_virtual_ms;
	at_reset();
	vs_init(&v);
	nng_init_params p;
	memset(&p, 0, sizeof(p));
	int tt                 = c->task_threads >= 2 ? c->task_threads : 2;
	p.num_task_threads     = (int16_t) tt;
	p.max_task_threads     = (int16_t) tt;
	p.num_expire_threads   = 1;
	p.max_expire_threads   = 1;
	p.num_poller_threads   = 1;
	p.max_poller_threads   = 1;
	p.num_resolver_threads = 1;
	at_install(&p);
	if (c->fail_at > 0)
		at_fail_at(c->fail_at);
	int rv = nng_init(&p);
	if (rv != 0) {
		if (c->fail_at > 0 && rv == NNG_ENOMEM) {
			vs_fini();
			vr_tag("init_enomem");
			if (at_live_blocks() != 0) {
				at_report_leaks(10);
				vr_fail("leak-after-failed-init", "nng_init failed with NNG_ENOMEM but %ld blocks (%ld bytes) stay allocated", at_live_blocks(), at_live_bytes());
			}
			return (-1);
		}
		vr_fail("harness:nng_init", "nng_init -> %d", rv);
	}
	vr_tagf("sched%d", c->mode);
	return (0);
}

void
h_end_noleakcheck(void)
{
	nng_fini();
	vs_fini();
}

void
h_end(void)
{
	nng_fini();
	vs_fini();
	long live = at_live_blocks();
	if (live != 0) {
		at_report_leaks(10);
		vr_fail("leak", "%ld blocks (%ld bytes) still allocated after nng_fini", live, at_live_bytes());
	}
}

nng_msg *
h_msg(uint32_t tag, size_t extra)
{
	nng_msg *m;
	if (nng_msg_alloc(&m, 0) != 0)
		return NULL;
	nng_msg_append_u32(m, tag);
	if (extra > 0) {
		if (nng_msg_realloc(m, 4 + extra) != 0) {
			nng_msg_free(m);
			return NULL;
		}
		uint8_t *b = (uint8_t *) nng_msg_body(m) + 4;
		for (size_t i = 0; i < extra; i++)
			b[i] = (uint8_t) (tag * 31 + i * 7);
	}
	return m;
}

int
h_msg_tag(nng_msg *m, uint32_t *tag)
{
	if (nng_msg_len(m) < 4)
		return -1;
	uint32_t t;
	memcpy(&t, nng_msg_body(m), 4);
	t          = ntohl(t);
	uint8_t *b = (uint8_t *) nng_msg_body(m) + 4;
	for (size_t i = 0; i + 4 < nng_msg_len(m); i++)
		if (b[i] != (uint8_t) (t * 31 + i * 7))
			return -1;
	*tag = t;
	return 0;
}
