// caseio: textual case files.  One op per line:  name tok tok ...
// tok = integer (strtoll base 0) | x<hex bytes> (bare "x" = empty) ; '#' starts a comment.
// Shared by every executor, the rapidcheck drivers and the libFuzzer targets.
#ifndef VERIF_CASEIO_H
#define VERIF_CASEIO_H
#include <stddef.h>
#include <stdint.h>
#ifdef __cplusplus
extern "C" {
#endif

#define VOP_MAXA 48
#define VOP_MAXD 4
typedef struct vop {
	char           name[24];
	int            na;
	long long      a[VOP_MAXA];
	int            nd;
	unsigned char *d[VOP_MAXD];
	size_t         dl[VOP_MAXD];
	int            line;
} vop;

typedef struct vcase {
	vop *ops;
	int  nops;
} vcase;

int  vcase_parse(const char *text, vcase *c); // 0 ok, -1 syntax error
void vcase_free(vcase *c);
static inline long long
vop_arg(const vop *o, int i, long long dflt)
{
	return (i < o->na ? o->a[i] : dflt);
}

// ---- verdict reporting (executor side).  The report lives in a MAP_SHARED
// region created by the parent before fork, so it survives a crashing child.
#define VR_MAXTAGS 48
typedef struct vreport {
	int  verdict; // 0 running/ok, 1 violation
	char sig[200];
	char msg[3000];
	int  ntags;
	char tags[VR_MAXTAGS][40];
	long counters[16];
	int  opidx; // op being executed (for crash reports)
	char lastop[64];
	int  nknown; // known findings hit (soft: the case continued)
	char known_sig[8][120];
	long known_cnt[8];
} vreport;

extern vreport *vr; // never NULL (points at a static one by default)
extern int      vr_abort_on_fail;
void vr_tag(const char *tag);                 // classification tag (idempotent)
void vr_tagf(const char *fmt, ...);
void vr_count(int idx, long n);
// record a violation and exit(1) (never returns)
void vr_fail(const char *sig, const char *fmt, ...) __attribute__((noreturn, format(printf, 2, 3)));
void vr_at(int opidx, const char *name);
void vr_trace(const char *fmt, ...) __attribute__((format(printf, 1, 2))); // stderr, only with VERIF_TRACE set
// Known findings (read-only list installed by the driver from known_findings.json).  vr_soft_fail
// reports a violation unless its signature is listed as known, in which case the hit is counted
// and the case continues, so one recorded defect does not hide everything behind it.
#define VR_MAXKNOWN 64
extern char vr_known_sigs[VR_MAXKNOWN][160];
extern int  vr_nknown_sigs;
int         vr_is_known(const char *sig);
void        vr_soft_fail(const char *sig, const char *fmt, ...) __attribute__((format(printf, 2, 3)));

#define VR_CHECK(cond, sig, ...)                      \
	do {                                          \
		if (!(cond)) {                        \
			vr_fail(sig, __VA_ARGS__);    \
		}                                     \
	} while (0)

#ifdef __cplusplus
}
#endif
#endif
