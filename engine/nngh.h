// nngh: harness helpers shared by all DST executors: allocator tracking (E3), nng init/fini under
// vsched (E1), message helpers.
#ifndef VERIF_NNGH_H
#define VERIF_NNGH_H
#include <nng/nng.h>
#include <stddef.h>
#include <stdint.h>
#include "caseio.h"
#include "vsched.h"
#ifdef __cplusplus
extern "C" {
#endif

// ---- atrack (E3)
void   at_reset(void);
void   at_install(nng_init_params *p);
long   at_live_blocks(void);
long   at_live_bytes(void);
long   at_total_allocs(void);
void   at_fail_at(long k);        // fail the k-th allocation from now (1-based); 0 = never
long   at_failed_serial(void);    // serial of the allocation that was failed (0 = none yet)
void   at_report_leaks(int max);  // print live blocks to stderr
int    at_is_live(void *p);       // block currently allocated by nng's allocator?
size_t at_size_of(void *p);

// ---- session
typedef struct h_cfg {
	uint64_t seed;
	int      mode, pct, depth;
	long     horizon;
	int      grace_ms;
	int      task_threads; // >= 2
	long     fail_at;      // allocation fault injection (0 = none)
	uint64_t max_virtual_ms;
} h_cfg;

void h_cfg_from_op(h_cfg *c, const vop *o); // "cfg seed mode pct depth horizon grace"
int  h_begin(const h_cfg *c);               // vs_init + nng_init (tracked allocator, minimal threads); -1 = init failed by injected fault
void h_end(void);                           // nng_fini, leak check (vr_fail on leak), vs_fini
void h_end_noleakcheck(void);

// tagged messages: body = be32 tag + padding pattern
nng_msg *h_msg(uint32_t tag, size_t extra);
int      h_msg_tag(nng_msg *m, uint32_t *tag); // 0 ok; -1 if malformed/corrupt padding

#define H_OK(x)                                                                          \
	do {                                                                             \
		int _rv = (x);                                                           \
		if (_rv != 0)                                                            \
			vr_fail("harness:" #x, "%s -> %d (%s)", #x, _rv, nng_strerror((nng_err) _rv)); \
	} while (0)

#ifdef __cplusplus
}
#endif
#endif
