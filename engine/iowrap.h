// iowrap (E2): short-transfer injection on nng's stream I/O syscalls (readv/writev/sendmsg/send),
// installed with ld --wrap.  A short read or write is always legal kernel behaviour.
#ifndef VERIF_IOWRAP_H
#define VERIF_IOWRAP_H
#include <stddef.h>
#ifdef __cplusplus
extern "C" {
#endif
#define IO_MAXPLAN 64
#define IO_MAXLOG 4096
typedef struct io_xfer {
	int  fd;
	char dir; // 'r' / 'w'
	long want, got;
} io_xfer;
// the k-th write (read) transfers at most w[k] (r[k]) bytes; 0 = unlimited; after the plan ends it
// repeats when cycle != 0, else transfers are unlimited
void           io_plan(const int *w, int nw, const int *r, int nr, int cycle);
void           io_enable(int on);
void           io_rearm(void); // restart the (non-cycling) plan from its first entry
long           io_clamped_writes(void);
long           io_clamped_reads(void);
const io_xfer *io_log(int *n); // every transfer on the wrapped calls since io_plan
#ifdef __cplusplus
}
#endif
#endif
