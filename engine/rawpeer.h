// rawpeer (E4): harness-side endpoints that speak the SP stream mapping (handshake + 8-byte
// length framing) over socket:// (socketpair), ipc:// and tcp:// with exact control of the bytes
// and of their segmentation.  All descriptors are non-blocking; callers use vs_settle() to let
// nng react.  Reference encoders/decoders are written from the SP RFCs, not from nng's code.
#ifndef VERIF_RAWPEER_H
#define VERIF_RAWPEER_H
#include <nng/nng.h>
#include <stddef.h>
#include <stdint.h>
#ifdef __cplusplus
extern "C" {
#endif

enum { RP_SOCKET = 0, RP_IPC = 1, RP_TCP = 2 };

// SP protocol numbers
enum {
	SP_PAIR0 = 0x10, SP_PAIR1 = 0x11, SP_PUB = 0x20, SP_SUB = 0x21, SP_REQ = 0x30, SP_REP = 0x31,
	SP_PUSH = 0x50, SP_PULL = 0x51, SP_SURVEYOR = 0x62, SP_RESPONDENT = 0x63, SP_BUS = 0x70
};

typedef struct rp {
	int      fd;
	int      kind;
	uint8_t *rx; // bytes read from nng so far, not yet consumed
	size_t   rxlen, rxcap;
	int      eof; // peer (nng) closed
	long     wr_calls, rd_calls;
	size_t   wr_total; // bytes the kernel accepted from us so far
	long     rd_total; // bytes read from nng so far
} rp;

// socket:// : create a socketpair, hand one end to the nng listener (NNG_OPT_SOCKET_FD), keep the other
int rp_attach_socket(rp *p, nng_listener l);
extern int rp_socket_sndbuf; // > 0: SO_SNDBUF for nng's end of the next socket pairs (0 = kernel default)
// connect to an nng listener on ipc:///path or tcp://127.0.0.1:port
int rp_connect_ipc(rp *p, const char *path);
int rp_connect_tcp(rp *p, int port);
// listening side for nng dialers
int rp_listen_ipc(const char *path);               // returns listening fd
int rp_listen_tcp(int *port);                      // returns listening fd, picks a free port
int rp_listen_tcp_port(int port);                  // listen again on a known port: fd or -1
int rp_accept(rp *p, int lfd, int kind);           // non-blocking accept: 0 ok, -1 nothing pending
void rp_close(rp *p);                              // close our end
void rp_shutdown_wr(rp *p);                        // orderly FIN, keep reading

// raw bytes.  rp_write writes everything (settling when the kernel buffer is full); rp_write_chunked
// cuts the stream at the given chunk sizes and settles after each chunk (exact receive-side segmentation).
int  rp_write(rp *p, const void *buf, size_t len);
int  rp_write_chunked(rp *p, const void *buf, size_t len, const int *chunks, int nchunks);
void rp_pump(rp *p);                               // read everything currently available into rx
size_t rp_consume(rp *p, void *buf, size_t n);     // take up to n bytes from rx

// SP stream mapping
void rp_hello(uint8_t out[8], uint16_t proto);     // 00 'S' 'P' 00 hi lo 00 00
int  rp_handshake(rp *p, uint16_t myproto, uint16_t *peerproto); // write ours, settle, read theirs: 0 ok
size_t rp_frame(uint8_t *out, int kind, const void *payload, size_t len); // encode one frame (ipc adds 0x01); returns size
int  rp_send_msg(rp *p, const void *payload, size_t len);
// next complete frame from rx: 1 = got one (malloc'ed *payload), 0 = incomplete, -1 = protocol error
int  rp_recv_msg(rp *p, uint8_t **payload, size_t *len);

#ifdef __cplusplus
}
#endif
#endif
