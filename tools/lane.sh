#!/bin/bash
# lane.sh <lane-name> <seeded-dir-name>...   -- run seeded changes against the quick checks in an ISOLATED copy:
# a clone of /repo (HEAD) and a copy of /verif are bind-mounted over /repo and /verif inside a private mount
# namespace, so several lanes can run side by side and /repo itself is never touched.
# Results: /tmp/wt/lane-<name>.txt ; the lane's scratch copies are removed at the end.
lane=$1; shift
L=/tmp/lanes/$lane
rm -rf $L; mkdir -p $L /tmp/wt
git clone -q /repo $L/repo
rsync -a --exclude build/replays /verif/ $L/verif/
out=/tmp/wt/lane-$lane.txt
: > $out
export LANE_OUT=$out LANE_SEEDS="$*" LANE_DIR=$L
unshare -m bash -c '
mount --bind $LANE_DIR/repo /repo && mount --bind $LANE_DIR/verif /verif || exit 9
cd /verif
for n in $LANE_SEEDS; do
  pid=${n:0:3}
  pf=/verif/seeded/$n/patch.diff; [ -f /verif/seeded/$n/patch.rebased.diff ] && pf=/verif/seeded/$n/patch.rebased.diff
  r=$(bash tools/seedtest.sh $pid $pf quick 2>&1 | tail -3 | cut -c1-330)
  printf "== %s\n%s\n" "$n" "$r" >> $LANE_OUT
done
'
echo LANE-DONE >> $out
rm -rf $L
