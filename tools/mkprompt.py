#!/usr/bin/env python3
# Prints the prompt given to an independent sub-agent that seeds a property-breaking change.
import json, sys
pid = sys.argv[1]
rnd = sys.argv[2] if len(sys.argv) > 2 else ""
for l in open('/verif/properties.jsonl'):
    p = json.loads(l)
    if p['id'] == pid:
        break
wt = f"/tmp/wt/{pid}{rnd}"
import glob, os
prev = []
for d in sorted(glob.glob(f"/verif/seeded/{pid}-m*")):
    try:
        n = open(d + "/notes.md").read().strip().splitlines()
        t = next((x for x in n if x.strip()), "")
        fs = json.load(open(d + "/meta.json")).get("files", [])
        prev.append("  - " + t.lstrip("# ").strip()[:160] + " (" + ", ".join(os.path.basename(f) for f in fs) + ")")
    except Exception:
        pass
avoid = ""
if rnd and prev:
    avoid = "Mechanisms that were ALREADY used by earlier changes for this property - choose clearly different ones (other functions, other operations, preferably other files):\n" + "\n".join(prev) + "\n\n"
print(f"""You are working on a scratch git worktree of the C library nanomsg/nng (NNG: Scalability Protocols req/rep, pub/sub, survey, bus, pair, push/pull over inproc/ipc/tcp/socket/ws/udp, with its own aio framework) at {wt}. Work ONLY inside {wt} (do not read or touch /repo or /verif; they are off limits).

Build + test suite (takes ~1-2 min; use at most 6 parallel jobs, the machine is shared):
  cmake -G Ninja -S {wt} -B {wt}/_build -DCMAKE_BUILD_TYPE=RelWithDebInfo >/dev/null && cmake --build {wt}/_build -j6
  ctest --test-dir {wt}/_build -j6 --timeout 900
(Tests such as nngcat_* and the stress tests use fixed /tmp paths or ports and can collide with other jobs on this shared machine: re-run such failures individually before concluding. On the unmodified tree nng.platform.resolver_test always fails and nng.sp.multistress_test is flaky - ignore those two; all others pass. No network is available.)

Here is a semantic property of nng that users rely on:

  {p['title']}
  {p['statement']}
  (quantified: {p['quantifier']['text']})
  Relevant files: {', '.join(p['anchors']['files'])}

YOUR TASK: produce TWO different, independent changes ("mutations") to nng's library source (files under src/ only, never tests) each of which BREAKS this property while the library still compiles and the existing test suite (unedited) still passes. Each change must be realistic - the kind of slip a maintainer could make in a refactor or 'optimisation' (an off-by-one, a dropped check, a wrong comparison, a missing state reset, a lock/ordering change, two sites that each look fine alone) - and must need something SPECIFIC to manifest: a particular interleaving, a fault at a particular point, a multi-step sequence of operations, an unusual input or option value. Do NOT make a change that ordinary use would expose at once (the unit tests must keep passing), and do not make a change that is unobservable through the public API / wire behaviour. Keep each patch small (ideally < 20 changed lines). The two mutations should touch different mechanisms (for example different files or different operations), not be variants of each other. NOTE: the tree may already contain genuine bugs; do not merely point at existing behaviour - your change must turn a passing demonstration into a failing one.

{avoid}For each mutation k in 1,2 deliver, under {wt}/out/m<k>/ :
  patch.diff   - `git diff` of ONLY that mutation against the worktree HEAD (applies with `git apply` to a clean checkout)
  demo.c       - a small standalone C program using nng (public API, or internal headers via -I{wt}/src if the property is about an internal structure) that exits 0 on the unmodified tree and exits non-zero (or crashes / reports under valgrind or ASan) with the patch applied; make it deterministic (no dependence on lucky timing; generous timeouts)
  run.sh       - builds demo.c against {wt}/_build (libnng) and runs it; exit code 0 = property held, non-zero = broken
  notes.md     - 5-10 lines: what the change is, why the property breaks, exactly what is needed for it to manifest, and confirmation that (a) the test suite passes with the patch, (b) the demo passes without and fails with the patch.
You MUST actually verify both (a) and (b) by running them. When done, leave the worktree source at clean HEAD state (git checkout -- src) with only out/ and _build/ as extra directories, and reply with a short summary of the two mutations (files/functions touched, trigger).""")
