#!/usr/bin/env python3
# addfixed.py <property> <commit> <sig> <what> [regress-path]  -- append a "fixed" record (one line) to known_findings.json
import json, sys
p, c, sig, what = sys.argv[1:5]
e = dict(status="fixed", property=p, commit=c, sig=sig, what=what)
if len(sys.argv) > 5:
    e["replay"] = sys.argv[5]
lines = open('/verif/known_findings.json').read().rstrip().split("\n")
assert lines[-1].strip() == "]}"
lines[-2] = lines[-2].rstrip().rstrip(",") + ","
lines.insert(-1, json.dumps(e))
open('/verif/known_findings.json', 'w').write("\n".join(lines) + "\n")
json.load(open('/verif/known_findings.json'))
