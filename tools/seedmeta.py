#!/usr/bin/env python3
"""seedmeta.py <seeded-dir-name> <CAUGHT|MISSED> <check/notes...> : record which check detects a seeded change."""
import json, sys
d = f"/verif/seeded/{sys.argv[1]}"
m = json.load(open(f"{d}/meta.json"))
m["detected_by"] = dict(result=sys.argv[2], detail=" ".join(sys.argv[3:]))
json.dump(m, open(f"{d}/meta.json", "w"), indent=1)
