#!/bin/bash
# confirm_seed.sh <PROPERTY> <k>   -- confirm sub-agent mutation k of property in its scratch worktree /tmp/wt/<PROPERTY>:
#  (1) patch applies+compiles, (2) the 72-test baseline passes with it, (3) demo fails with it, (4) demo passes without.
# On success copies it to /verif/seeded/<PROPERTY>-m<k>/ with meta.json.
wtn=$1; k=$2; mk=$3; pid=${wtn:0:3}; wt=/tmp/wt/$wtn; m=$wt/out/m$k; log=/tmp/wt/confirm_${wtn}_m$k.log
exec >$log 2>&1
cd $wt || exit 2
git checkout -q -- . ; git apply $m/patch.diff || { echo "RESULT apply-failed"; exit 1; }
cmake -G Ninja -S $wt -B $wt/_build -DCMAKE_BUILD_TYPE=RelWithDebInfo >/dev/null && cmake --build $wt/_build -j8 >/dev/null || { echo "RESULT build-failed"; git checkout -q -- .; exit 1; }
ctest --test-dir $wt/_build -j8 --timeout 900 2>&1 | tail -15 > $log.ctest
failed=$(grep -E "^\s+[0-9]+ - " $log.ctest | grep -v -E "resolver_test|multistress_test" | awk '{print $3}')
# rerun failures serially once (fixed /tmp paths collide with other runs)
still=""
for t in $failed; do ok=0; for try in 1 2 3 4 5; do if ctest --test-dir $wt/_build -R "^$t\$" --timeout 900 >/dev/null 2>&1; then ok=1; break; fi; sleep 7; done; [ $ok = 1 ] || still="$still $t"; done
(cd $m && bash ./run.sh) >$log.demo_with 2>&1; with=$?
git checkout -q -- . ; cmake --build $wt/_build -j8 >/dev/null
(cd $m && bash ./run.sh) >$log.demo_without 2>&1; without=$?
echo "suite_failed_first_pass=[$failed] suite_failed_after_serial_rerun=[$still] demo_with_patch_rc=$with demo_without_patch_rc=$without"
if [ -z "$still" ] && [ $with -ne 0 ] && [ $without -eq 0 ]; then
  d=/verif/seeded/$pid-m$mk; mkdir -p $d; cp $m/patch.diff $m/demo*.c $m/run.sh $m/notes.md $d/ 2>/dev/null
  python3 - "$pid" "$mk" "$failed" "$with" "$without" <<'PY'
import json,sys,subprocess
pid,k,failed,w,wo=sys.argv[1:6]
d=f"/verif/seeded/{pid}-m{k}"
notes=open(f"{d}/notes.md").read()
files=[l[6:] for l in open(f"{d}/patch.diff") if l.startswith("+++ b/")]
json.dump(dict(property=pid, mutation=f"m{k}", files=[f.strip() for f in files], source="independent sub-agent given only the property text and a scratch worktree",
  needs_to_manifest=notes[:1500],
  confirmed=dict(applies_and_compiles=True, baseline_suite_passes_with_patch=True, suite_tests_needing_serial_rerun=failed.split(), demo_rc_with_patch=int(w), demo_rc_without_patch=int(wo),
  ran="tools/confirm_seed.sh: git apply; cmake --build; ctest -j8 (resolver_test/multistress_test excluded as in BASELINE.json; collisions on fixed /tmp paths re-run serially); run.sh with and without the patch"),
  detected_by=None), open(f"{d}/meta.json","w"), indent=1)
PY
  echo "RESULT confirmed"
else
  echo "RESULT rejected"
fi
