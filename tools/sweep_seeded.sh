#!/bin/bash
# sweep_seeded.sh [pattern]  -- run every stored seeded change against the quick check of its property
# (tools/seedtest.sh: apply to /repo, check, undo) and write seeded/RESULTS-last-sweep.txt.
# NEUTRALISED changes (recorded as such in meta.json) are skipped.  Nothing else may use /repo meanwhile.
cd /verif
out=seeded/RESULTS-last-sweep.txt.new
: > $out
for d in seeded/${1:-C}*/; do
  n=$(basename $d)
  pid=${n:0:3}
  if grep -q '"result": "NEUTRALISED"' $d/meta.json 2>/dev/null; then echo "$n NEUTRALISED (skipped)" >> $out; continue; fi
  p=$d/patch.diff
  [ -f $d/patch.rebased.diff ] && p=$d/patch.rebased.diff
  r=$(bash tools/seedtest.sh $pid /verif/$p quick 2>&1 | tail -1)
  echo "$n $r" >> $out
done
mv $out seeded/RESULTS-last-sweep.txt
grep -c CAUGHT seeded/RESULTS-last-sweep.txt
grep -v CAUGHT seeded/RESULTS-last-sweep.txt
