#!/usr/bin/env python3
"""Regenerates /verif/MANIFEST.json from check.py's CONF table and tools/manifest_meta.json."""
import json, sys, os, importlib.util
V = "/verif"
spec = importlib.util.spec_from_file_location("check", f"{V}/check.py")
check = importlib.util.module_from_spec(spec); spec.loader.exec_module(check)
meta = json.load(open(f"{V}/tools/manifest_meta.json"))
props = [json.loads(l) for l in open(f"{V}/properties.jsonl")]
checks = []
na = []
for p in props:
    pid = p["id"]
    if pid in check.CONF and pid in meta["checks"]:
        m = meta["checks"][pid]
        c = dict(property_id=pid,
                 quick_cmd=f"./check.py {pid} --tier quick",
                 thorough_cmd=f"./check.py {pid} --tier thorough",
                 evidence_file=f"/verif/evidence/{pid}.json",
                 replay_cmd_template=f"./check.py {pid} --replay {{path}}",
                 engine=m["engine"],
                 level_claimed=dict(category=check.CONF[pid]["level"], text=m["level_text"], design_ref=m["design_ref"]),
                 level_note=m["level_note"],
                 technique=m["technique"])
        checks.append(c)
    else:
        na.append(dict(property_id=pid, reason=meta.get("not_applicable", {}).get(pid, "no check is registered for this property in this revision of /verif (machinery not built yet); it is not claimed")))
man = dict(version=1,
           setup_cmd=meta["setup_cmd"],
           hooks=meta["hooks"],
           engines=meta["engines"],
           checks=checks,
           notes=meta["notes"],
           not_applicable=na)
json.dump(man, open(f"{V}/MANIFEST.json", "w"), indent=1)
print("claimed:", [c["property_id"] for c in checks])
