#!/bin/bash
# lane_check.sh <lane-name> <tier> <property>...  -- run checks on the UNCHANGED tree in an isolated copy (see lane.sh),
# e.g. thorough tiers in parallel with other work.  Results: /tmp/wt/lanecheck-<name>.txt (full logs next to it).
lane=$1; tier=$2; shift; shift
L=/tmp/lanes/$lane
rm -rf $L; mkdir -p $L /tmp/wt
git clone -q /repo $L/repo
rsync -a --exclude build/replays /verif/ $L/verif/
out=/tmp/wt/lanecheck-$lane.txt
: > $out
export LANE_OUT=$out LANE_PROPS="$*" LANE_DIR=$L LANE_TIER=$tier LANE_NAME=$lane
unshare -m bash -c '
mount --bind $LANE_DIR/repo /repo && mount --bind $LANE_DIR/verif /verif || exit 9
cd /verif
for p in $LANE_PROPS; do
  t0=$(date +%s)
  VERIF_SEED=${VERIF_SEED:-1} ./check.py $p --tier $LANE_TIER > /tmp/wt/lanecheck-$LANE_NAME-$p.log 2>&1
  rc=$?
  echo "$p tier=$LANE_TIER rc=$rc wall=$(( $(date +%s) - t0 ))s $(grep -E "^SUMMARY" /tmp/wt/lanecheck-$LANE_NAME-$p.log | cut -c1-170)" >> $LANE_OUT
  grep -E "^VIOLATION" /tmp/wt/lanecheck-$LANE_NAME-$p.log | head -3 | cut -c1-300 >> $LANE_OUT
  mkdir -p /tmp/wt/replays-$LANE_NAME; cp /verif/build/replays/* /tmp/wt/replays-$LANE_NAME/ 2>/dev/null
done
'
echo LANE-DONE >> $out
rm -rf $L
