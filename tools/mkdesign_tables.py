#!/usr/bin/env python3
"""Regenerates the machine-derived tables of DESIGN.md (seeded changes, fixed defects, known findings)
between the markers <!-- BEGIN:x --> / <!-- END:x -->."""
import glob, json, os, re, subprocess

V = "/verif"

def seeded():
    out = ["| change | file(s) | what it breaks | result |", "|---|---|---|---|"]
    for d in sorted(glob.glob(f"{V}/seeded/*/")):
        m = json.load(open(d + "meta.json"))
        n = os.path.basename(d.rstrip("/"))
        first = m["needs_to_manifest"].split("\n")[0].lstrip("# ").strip()
        first = re.sub(r"^(C\d\d\s*[/-]?\s*)?(mutation\s*\d|[mM]\d)\s*[-:]\s*", "", first)
        first = re.sub(r"^C\d\d-m\d:\s*", "", first)
        det = m.get("detected_by") or {}
        files = ", ".join(os.path.basename(f) for f in m.get("files", []))
        out.append(f"| {n} | {files} | {first[:130]} | **{det.get('result', 'not run')}** {det.get('detail', '')[:330]} |")
    return "\n".join(out)

def findings(status):
    kf = json.load(open(f"{V}/known_findings.json"))["findings"]
    out = []
    if status == "fixed":
        out += ["| property | commit | what failed | regression case |", "|---|---|---|---|"]
        for e in kf:
            if e.get("status") == "fixed":
                out.append(f"| {e['property']} | `{e.get('commit','')}` | {e.get('what','')[:400]} | {e.get('replay','')} |")
    else:
        out += ["| property | signature | what fails | input |", "|---|---|---|---|"]
        for e in kf:
            if e.get("status") == "known":
                out.append(f"| {e['property']} | `{e['sig']}` | {e.get('what','')} | {e.get('input','')} |")
    return "\n".join(out)

def main():
    p = f"{V}/DESIGN.md"
    c = open(p).read()
    for key, body in (("seeded", seeded()), ("fixed", findings("fixed")), ("known", findings("known"))):
        b, e = f"<!-- BEGIN:{key} -->", f"<!-- END:{key} -->"
        if b in c and e in c:
            c = c[: c.index(b) + len(b)] + "\n" + body + "\n" + c[c.index(e):]
    open(p, "w").write(c)

if __name__ == "__main__":
    main()
