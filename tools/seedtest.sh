#!/bin/bash
# seedtest.sh <PROPERTY> <patch.diff> [tier]  -- apply a seeded change to /repo, run the check, undo it.
pid=$1; patch=$2; tier=${3:-quick}
cd /verif
if ! git -C /repo apply --check "$patch" 2>/dev/null; then
  if git -C /repo apply --3way --check "$patch" 2>/dev/null; then :; else echo "PATCH-DOES-NOT-APPLY $patch"; exit 3; fi
fi
git -C /repo apply "$patch" || exit 3
t0=$(date +%s)
VERIF_SEED=${VERIF_SEED:-1} ./check.py $pid --tier $tier > /tmp/seedtest.$$.log 2>&1
rc=$?
t1=$(date +%s)
git -C /repo checkout -- . 
grep -E "^(VIOLATION|SUMMARY|BUILD-FAILED|KNOWN)" /tmp/seedtest.$$.log | cut -c1-300 | head -8
echo "SEEDTEST property=$pid patch=$patch rc=$rc wall=$((t1-t0))s => $([ $rc = 1 ] && echo CAUGHT || echo MISSED)"
rm -f /tmp/seedtest.$$.log
