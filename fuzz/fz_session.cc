// libFuzzer target for C11: bytes -> hostile wire session (structure-aware decode) -> the same executor and
// oracle as props/C11.cpp, in-process under the deterministic scheduler, socket:// transport.
#include <fuzzer/FuzzedDataProvider.h>
#include <sstream>
#include "c11_exec.hpp"

extern "C" int
LLVMFuzzerTestOneInput(const uint8_t *data, size_t size)
{
	vr_abort_on_fail = 1;
	FuzzedDataProvider fdp(data, size);
	std::ostringstream t;
	t << "cfg " << fdp.ConsumeIntegralInRange<int>(1, 1000) << " 0 20 1 600 0\n";
	t << "world " << fdp.ConsumeIntegralInRange<int>(0, c11::kNProtos - 1) << " 0 " << fdp.PickValueInArray({0, 64, 64, 1024, -1}) << "\n";
	t << "reconnect " << fdp.PickValueInArray({0, 0, 0, 0, 1, 2, 3, 4, 5}) << " " << fdp.ConsumeIntegralInRange<int>(0, 8) << "\n";
	int nops = fdp.ConsumeIntegralInRange<int>(0, 24);
	for (int i = 0; i < nops && fdp.remaining_bytes() > 0; i++) {
		switch (fdp.ConsumeIntegralInRange<int>(0, 9)) {
		case 0: case 1: case 2: case 3: case 4:
			t << "frame " << fdp.ConsumeIntegralInRange<int>(0, 8) << " " << fdp.ConsumeIntegralInRange<int>(0, 4) << " "
			  << fdp.PickValueInArray({0, 1, 3, 4, 5, 8, 16, 60, 64, 65, 200, 5000}) << " " << fdp.ConsumeIntegralInRange<int>(1, 255) << " "
			  << fdp.PickValueInArray({0, 0, 1, 3, 7}) << "\n";
			break;
		case 5: {
			std::string b = fdp.ConsumeRandomLengthString(24);
			t << "bytes x";
			static const char *d = "0123456789abcdef";
			for (unsigned char c : b)
				t << d[c >> 4] << d[c & 15];
			t << "\n";
			break;
		}
		case 6: t << "close\n"; break;
		case 7: t << "reconnect " << fdp.ConsumeIntegralInRange<int>(0, 5) << " " << fdp.ConsumeIntegralInRange<int>(0, 8) << "\n"; break;
		case 8: t << "apprecv\n"; break;
		case 9: t << "good\n"; break;
		}
	}
	vcase c;
	if (vcase_parse(t.str().c_str(), &c) != 0)
		return 0;
	c11::exec_c11(&c);
	vcase_free(&c);
	return 0;
}
