// libFuzzer target for C19: arbitrary C strings through the same oracle as props/C19.cpp.
#include "url_oracle.hpp"
extern "C" int
LLVMFuzzerTestOneInput(const uint8_t *data, size_t size)
{
	vr_abort_on_fail = 1;
	std::string s((const char *) data, size);
	urlo::check_url(s);
	return 0;
}
