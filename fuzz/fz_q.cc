// libFuzzer target for C18: bytes are decoded into a history of nni_lmq operations (first byte even) or nng_id_map
// operations (first byte odd), 2 bytes per operation, and run through the executor and models of props/C18.cpp.
#define VERIF_FUZZ 1
#include "../props/C18.cpp"

static bool inited = false;
extern "C" int
LLVMFuzzerTestOneInput(const uint8_t *data, size_t size)
{
	vr_abort_on_fail = 1;
	if (!inited) {
		nng_init(NULL);
		inited = true;
	}
	if (size < 3)
		return 0;
	std::vector<vop> ops;
	auto add = [&](const char *n, int na, long long a0, long long a1, long long a2) {
		vop o;
		memset(&o, 0, sizeof o);
		snprintf(o.name, sizeof o.name, "%s", n);
		o.na   = na;
		o.a[0] = a0;
		o.a[1] = a1;
		o.a[2] = a2;
		ops.push_back(o);
	};
	bool lmq = (data[0] & 1) == 0;
	if (lmq)
		add("qinit", 1, data[1] % 18, 0, 0);
	else {
		static const unsigned long long los[] = {0, 1, 5, 100, 0x7ffffff0ull, 0xfffffff0ull, (1ull << 32) + 10, 0xfffffffffffffff0ull};
		static const unsigned long long ws[]  = {1, 2, 3, 7, 8, 15, 40, 1000};
		unsigned long long lo = los[data[1] & 7], w = ws[(data[1] >> 3) & 7];
		unsigned long long hi = lo + w < lo ? ~0ull : lo + w;
		add("minit", 3, (long long) lo, (long long) hi, data[1] >> 7);
	}
	for (size_t i = 2; i + 2 <= size && ops.size() < 400; i += 2) {
		uint8_t k = data[i], v = data[i + 1];
		if (lmq) {
			switch (k % 12) {
			case 0: case 1: case 2: case 3: case 4: add("qput", 0, 0, 0, 0); break;
			case 5: case 6: case 7: case 8: add("qget", 0, 0, 0, 0); break;
			case 9: add("qresize", 1, v % 18, 0, 0); break;
			case 10: add(v < 40 ? "qflush" : "qresize", 1, v % 10, 0, 0); break;
			default: add(v < 20 ? "qfini" : v < 60 ? "qinit" : "qput", 1, v % 10, 0, 0); break;
			}
		} else {
			static const unsigned long long mults[] = {0, 8, 16, 32, 64, 128, 1ull << 32, (1ull << 32) + 8};
			unsigned long long key = (unsigned long long) (v & 15) + mults[(v >> 4) & 7] * (unsigned long long) (k >> 5);
			switch (k % 8) {
			case 0: case 1: case 2: add("malloc", 0, 0, 0, 0); break;
			case 3: add("mset", 1, (long long) key, 0, 0); break;
			case 4: add("mget", 1, (long long) key, 0, 0); break;
			case 5: add("mrem", 1, (long long) key, 0, 0); break;
			case 6: add("mremk", 1, v % 41, 0, 0); break;
			default: add(v < 10 ? "mfree" : "malloc", 0, 0, 0, 0); break;
			}
		}
	}
	vcase c;
	c.ops  = ops.data();
	c.nops = (int) ops.size();
	exec_c18(&c);
	return 0;
}
