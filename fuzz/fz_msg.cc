// libFuzzer target for C17: bytes are decoded into an nng_msg edit sequence (4 bytes per operation: kind, slot, size
// selector, value) and run through the same executor and reference model as props/C17.cpp.
#define VERIF_FUZZ 1
#include "../props/C17.cpp"

static bool inited = false;
extern "C" int
LLVMFuzzerTestOneInput(const uint8_t *data, size_t size)
{
	vr_abort_on_fail = 1;
	if (!inited) {
		nng_init(NULL);
		inited = true;
	}
	static const char *names[] = {"alloc", "alloc", "free", "dup", "bapp", "bins", "bins", "btrim", "bchop", "happ", "hins", "htrim", "hchop", "bappu", "binsu", "happu", "hinsu", "btrimu",
	    "bchopu", "htrimu", "hchopu", "realloc", "reserve", "clear", "hclear"};
	static const long long sizes[] = {0, 1, 2, 7, 8, 9, 24, 31, 32, 33, 40, 48, 63, 64, 65, 100, 200, 500, 1000, 1023, 1024, 1025, 2047, 2048, 2049, 4096, 8192, 65536};
	const int              nnames  = (int) (sizeof names / sizeof names[0]);
	const int              nsizes  = (int) (sizeof sizes / sizeof sizes[0]);
	std::vector<vop>       ops;
	for (size_t i = 0; i + 4 <= size && ops.size() < 100; i += 4) {
		vop o;
		memset(&o, 0, sizeof o);
		const char *n = names[data[i] % nnames];
		snprintf(o.name, sizeof o.name, "%s", n);
		int     s  = data[i + 1] % 3;
		uint8_t sz = data[i + 2];
		o.na       = 3;
		o.a[0]     = s;
		o.a[2]     = data[i + 3];
		size_t nl  = strlen(n);
		if (strcmp(n, "dup") == 0)
			o.a[1] = (s + 1 + (sz & 1)) % 3;
		else if (n[nl - 1] == 'u') { // u16 / u32 / u64 forms: width, value
			o.a[1] = 16 << (sz % 3);
			o.a[2] = (long long) ((unsigned long long) data[i + 3] * 0x0101010101010101ull + sz);
		} else if (n[0] == 'h') // header operations: 0..70 bytes
			o.a[1] = sz % 71;
		else
			o.a[1] = sz < nsizes ? sizes[sz] : sz < 128 ? sz : (long long) (sz - 128) * 23;
		ops.push_back(o);
	}
	vcase c;
	c.ops  = ops.data();
	c.nops = (int) ops.size();
	exec_c17(&c);
	return 0;
}
