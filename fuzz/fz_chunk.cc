// libFuzzer target for C16: arbitrary bytes through nni_http_chunks_parse, unsplit and split, against the reference decoder.
// First byte: size limit selector; second byte: cut stride; rest: the stream.
#include "chunk_oracle.hpp"
static bool inited = false;
extern "C" int
LLVMFuzzerTestOneInput(const uint8_t *data, size_t size)
{
	vr_abort_on_fail = 1;
	if (!inited) {
		nng_init(NULL);
		inited = true;
	}
	if (size < 2)
		return 0;
	static const size_t lim[] = {0, 0, 1, 5, 16, 100, 4096, 65536};
	size_t              maxsz = lim[data[0] & 7];
	size_t              stride = (size_t) (data[1] & 15) + 1;
	std::string         in((const char *) data + 2, size - 2);
	std::vector<size_t> cuts;
	for (size_t k = stride; k < in.size() && cuts.size() < 2000; k += stride)
		cuts.push_back(k);
	chko::check(in, maxsz, cuts);
	return 0;
}
