#!/bin/bash
# build.sh <flavor>  -- (re)build /repo's current working tree as a static library
# into /verif/build/<flavor>.  Flavors: san (ASan+UBSan), fuzz (san + fuzzer-no-link).
# Incremental: ninja only recompiles what changed under /repo.  Serialised by flock.
set -e
flavor=${1:-san}
here=$(cd "$(dirname "$0")" && pwd)
bdir=$here/build/$flavor
mkdir -p "$here/build"
exec 9>"$here/build/.lock.$flavor"
flock 9
CF="-O1 -g -fno-omit-frame-pointer -fsanitize=address,undefined -fno-sanitize-recover=undefined -DNNG_VERIF"
case $flavor in
  san) ;;
  fuzz) CF="$CF -fsanitize=fuzzer-no-link" ;;
  *) echo "unknown flavor $flavor" >&2; exit 2 ;;
esac
if [ ! -f "$bdir/build.ninja" ]; then
  cmake -G Ninja -S /repo -B "$bdir" -DCMAKE_C_COMPILER=clang -DCMAKE_BUILD_TYPE=Debug \
    -DBUILD_SHARED_LIBS=OFF -DNNG_TESTS=OFF -DNNG_TOOLS=OFF -DNNG_ENABLE_NNGCAT=OFF \
    -DCMAKE_C_FLAGS="$CF" >"$bdir.cmake.log" 2>&1 || { cat "$bdir.cmake.log" >&2; exit 2; }
fi
ninja -C "$bdir" nng >"$bdir.ninja.log" 2>&1 || { tail -50 "$bdir.ninja.log" >&2; exit 2; }
# the library's own -D flags, for shims that include internal headers
grep -m1 "DEFINES = " "$bdir/build.ninja" | sed 's/.*DEFINES = //' > "$bdir/nng_defs.txt.new"
cmp -s "$bdir/nng_defs.txt.new" "$bdir/nng_defs.txt" 2>/dev/null || mv "$bdir/nng_defs.txt.new" "$bdir/nng_defs.txt"
rm -f "$bdir/nng_defs.txt.new"
